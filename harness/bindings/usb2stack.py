"""Engine `usb2stack` -- the USB2 PHY-to-device stack as a composition (EXTRA sub-checks for C08, C19, C20, C22, C23, C25, C57).

DUT (A): ULPI PHY model (hosts/ulpi_phy.py, driven by hosts/ulpi_host.py) -> real UTMITranslator -> real USBDevice with the
standard control endpoint and the CDC-ACM stream endpoints (`USBSerialDevice(bus=<ULPI record>)`), 60 MHz `usb` domain.
DUT (B): full-speed line-level host (hosts/fsline_host.py, D+/D- at 48 MHz) -> real GatewarePHY -> the same device, 12 MHz `usb`
/ 48 MHz `usb_io`.  Bus events (reset, chirp handshake, suspend, resume, VBUS, soft disconnect) are driven through the ULPI PHY's
line-state reports with the reset sequencer's ms-range constants scaled at elaboration.

The leaf engines check the translator (C22/C23), the gateware PHY (C25), the device core on a UTMI record (C20) and the serial
device on a UTMI record (C57) one by one; none of them elaborates `USBDevice(bus=<ULPI or raw pins>)`, so the wiring in
device.py (bus_busy, data_clock / timer table, translator hook-up) and the interplay of the PHY interface with the device
core is seen by no one.  Here the whole stack is observed only at the PHY boundary and at the FPGA-side streams; the trace is
validated by TLC against specs/usb2stack/Usb2StackTrace.tla (UsbSerial's transaction actions + the PHY-boundary clauses).
This binding owns no property.
"""
import os
import random

from .. import tlc
from ..core import use_repo
from ..hosts import utmi
from ..hosts.ulpi_host import LS_SE0, LS_J, LS_K
from . import usbserial as leaf

ENGINE = "usb2stack"
SPEC_DIR = "usb2stack"
META = {}            # owns no property
CHECKS = {}

VID, PID = leaf.VID, leaf.PID
# bus-event time constants of USBResetSequencer at 60 MHz; SCALED keeps the us-range values and shrinks the ms-range ones
SEQ_ATTRS = {"T2P5US": "_CYCLES_2P5_MICROSECONDS", "T5US": "_CYCLES_5_MICROSECONDS", "T200US": "_CYCLES_200_MICROSECONDS",
             "T1MS": "_CYCLES_1_MILLISECONDS", "T2MS": "_CYCLES_2_MILLISECONDS", "T2P5MS": "_CYCLES_2P5_MILLISECONDS",
             "T3MS": "_CYCLES_3_MILLISECONDS"}
REAL_TIMES = {"T2P5US": 150, "T5US": 300, "T200US": 12000, "T1MS": 60000, "T2MS": 120000, "T2P5MS": 150000, "T3MS": 180000}
SCALED_TIMES = {"T2P5US": 150, "T5US": 300, "T200US": 600, "T1MS": 1500, "T2MS": 2000, "T2P5MS": 2500, "T3MS": 3000}
FC_FS, FC_HS = 0x45, 0x40    # ULPI Function Control: FS transceiver + pull-up / HS transceiver + HS termination, normal mode
ULPI_LAT = 6         # PHY-interface latency allowance (clocks) on top of the C05 deadline, see docs/usb2stack.md
LINE_LAT = 0         # the line-level window is the host's 16 bit-time time-out already


def _cfg(name):
    with open(os.path.join(tlc.SPECS, SPEC_DIR, name)) as f:
        return f.read()


# ---------------------------------------------------------------------------------------------------------------------
class StackBench(leaf.Bench):
    """USBSerialDevice behind a PHY; same scenario interpreter as the leaf engine's bench plus PHY-side operations.

    Additional ops:  ("pat", [RxPattern | None, ...])   receive patterns for the coming host packets (one each)
                     ("nxt", [0/1, ...])                NXT choices for the coming link bytes owed to the PHY
                     ("pulse", [d | None, ...])         lone RxCmd d cycles after the end of the coming host packets
                     ("sof", frame) ("junk", [bytes])   packets that must leave no trace
                     ("quiet_in", addr, ep)             IN token for the idle interrupt endpoint / a foreign address
    """

    def __init__(self, phy, maxpkt, scaled=False):
        use_repo()
        from amaranth.sim import Simulator
        from luna.gateware.usb.devices.acm import USBSerialDevice
        self.phy_kind = phy
        self.maxpkt = maxpkt
        self.scaled = scaled
        self.times = dict(SCALED_TIMES if scaled else REAL_TIMES)
        if phy == "ulpi":
            from ..hosts import ulpi_host
            self.bus = ulpi_host.make_ulpi_record()
        else:
            from ..hosts import fsline_host
            self.bus = fsline_host.make_io_record()
        self.dut = USBSerialDevice(bus=self.bus, idVendor=VID, idProduct=PID, max_packet_size=maxpkt)
        if scaled:
            # the reset sequencer reads its time constants (class attributes) while it is elaborated: scale the ms-range ones
            # for this elaboration only (as ss_linklayer does with the TSEQ burst); the us-range ones keep their real values
            from luna.gateware.usb.usb2.reset import USBResetSequencer
            saved = {a: getattr(USBResetSequencer, a) for a in SEQ_ATTRS.values()}
            try:
                for k, a in SEQ_ATTRS.items():
                    setattr(USBResetSequencer, a, self.times[k])
                self.sim = Simulator(self.dut)
            finally:
                for a, v in saved.items():
                    setattr(USBResetSequencer, a, v)
        else:
            self.sim = Simulator(self.dut)
        if phy == "ulpi":
            self.sim.add_clock(1 / 60e6, domain="usb")
        else:
            # usb = usb_io / 4 with coinciding rising edges (GatewarePHY demands phase-related clocks); times are nominal
            self.sim.add_clock(0.25e-6, phase=0.125e-6, domain="usb_io")
            self.sim.add_clock(1e-6, phase=0.125e-6, domain="usb")
        self.sim.add_testbench(self._bench)
        self._first = True
        self.cycles = 0

    def make_host(self, sc, rng):
        if self.phy_kind == "ulpi":
            from ..hosts import ulpi_host
            return ulpi_host.ULPIHost(self.bus, rng, gap_prob=sc.get("gap", 0.0), stall_prob=sc.get("stall", 0.0),
                                      max_stall=sc.get("max_stall", 3), fs_pacing=sc.get("fs_pacing", 0))
        from ..hosts import fsline_host
        return fsline_host.FSLineHost(self.bus, rng, phase=sc.get("phase", 0), rate=sc.get("rate", 0), gap_prob=sc.get("gap", 0.0))

    # -- PHY-boundary records ------------------------------------------------------------------
    def _wire(self):
        host = self.host
        out = []
        for ev in host.log[self._log_seen:]:
            e = ev["e"]
            if e == "tok":
                out.append({"e": "hp", "kind": "tok", "pid": ev["pid"], "addr": ev["addr"], "ep": ev["ep"], "crc_ok": ev["crc_ok"]})
            elif e == "data":
                out.append({"e": "hp", "kind": "data", "pid": ev["pid"], "addr": 0, "ep": 0, "crc_ok": ev["crc_ok"]})
            elif e == "hs":
                out.append({"e": "hp", "kind": "hs", "pid": ev["pid"], "addr": 0, "ep": 0, "crc_ok": True})
            elif e == "sof":
                out.append({"e": "hp", "kind": "sof", "pid": "SOF", "addr": 0, "ep": 0, "crc_ok": ev["crc_ok"]})
            elif e == "raw":
                out.append({"e": "hp", "kind": "junk", "pid": "?", "addr": 0, "ep": 0, "crc_ok": False})
            elif e == "chirp":
                if not self.in_reset:
                    out.append({"e": "stray_chirp", "n": ev["n"]})
            elif e == "dev":
                if ev.get("kind") == "none":
                    continue
                if "cmd" in ev:
                    out.append({"e": "dp", "cmd": ev["cmd"], "bytes": list(ev["bytes"]), "stp_lag": ev["stp_lag"],
                                "stp_data": ev["stp_data"], "gap": ev["gap"] if ev["gap"] is not None else 0,
                                "blk": ev["blk"], "dirdrv": ev["dirdrv"]})
                    self.gaps.append((ev["gap"], ev["blk"]))
                elif "syms" in ev:
                    out.append({"e": "dp", "syms": ev["syms"], "gap": ev["gap"] if ev["gap"] is not None else 0, "blk": 0,
                                "rxov": bool(ev.get("overlap_rx"))})
                    self.gaps.append((ev["gap"], 0))
                else:
                    out.append({"e": "dp_" + str(ev.get("why", "bad"))})
        self._log_seen = len(host.log)
        return out

    def _flush(self, rec):
        if self.tx_acc:
            self.trace.append({"e": "tx", "beats": self.tx_acc})
            self.tx_acc = []
        self.trace += self._wire()
        if rec is not None:
            self.trace.append(rec)
        if self.rx_acc:
            self.trace.append({"e": "rx", "bytes": self.rx_acc})
            self.rx_acc = []

    async def _poll(self, ctx, host, addr):
        return                      # interleaved polls are the leaf engine's business

    async def bus_reset(self, ctx, host, hs_host, pairs=3):
        """Host bus reset at line-state level: SE0 until the device has chirped (a host watches for the chirp), then either
        `pairs` chirp K-J pairs (high-speed host) or continued SE0 until the device gave up (full-speed host), end of reset."""
        T = self.times
        self._flush(None)
        self.in_reset = True
        n0 = len(host.chirps)
        was = "hs" if host.hs else "fs"
        await host.line(ctx, LS_SE0, 0)
        limit = T["T3MS"] + T["T200US"] + T["T5US"] + T["T2MS"] + 2000
        for _ in range(limit):
            await host.cycle(ctx)
            if len(host.chirps) > n0:
                break
        chirp = host.chirps[-1] if len(host.chirps) > n0 else None
        await host.line(ctx, LS_SE0, 50)
        if hs_host and chirp is not None:
            for _ in range(pairs):
                await host.line(ctx, LS_K, T["T2P5US"] + 60)
                await host.line(ctx, LS_J, T["T2P5US"] + 60)
            await host.line(ctx, LS_SE0, 600)
        if not (hs_host and chirp is not None and pairs >= 3):
            await host.idle(ctx, T["T2P5MS"] + 400)    # a full-speed host (or one that stopped chirping) just keeps SE0
        for _ in range(400):                       # let the control translator finish its register writes
            await host.cycle(ctx)
        fc = host.phy.regs[4]
        host.hs = (fc & 3) == 0 and not (fc & 4)   # the PHY model follows the transceiver the device selected
        if not host.hs:
            await host.line(ctx, LS_J, 300)        # end of reset on a full-speed bus: idle J
        self.spd = "hs" if host.hs else "fs"
        self.trace += self._wire()
        self.in_reset = False
        if self.susp:
            was = "susp_" + was
        self.susp = False
        return {"e": "reset", "from": was, "hs_host": bool(hs_host and pairs >= 3), "chirp": chirp["n"] if chirp else 0,
                "chirp_nonzero": chirp["nonzero"] if chirp else 0, "chirp_stp": chirp["stp_data"] if chirp else 0, "fc": fc}

    # -- scenario interpreter (the leaf engine's, with the PHY-side operations added) ----------------
    async def _bench(self, ctx):
        sc = self.scenario
        rng = sc["rng"]
        self.rng2 = random.Random(rng.random())
        host = self.make_host(sc, rng)
        host.extra_probe = self._probe
        self.host = host
        self._log_seen = 0
        self.in_reset = False
        self.susp = False
        self.gaps = []
        self.rx_p, self.tx_p = sc.get("rx_p", 1.0), sc.get("tx_p", 1.0)
        self.rx_budget = 0 if sc.get("rx_manual") else None
        self.tx_force = False
        self.tx_queue, self.tx_acc, self.rx_acc, self.trace = [], [], [], []
        self.timed, self.tx_force_n, self.rx_timed = [], 0, []
        self.ep3_resp = []
        self.held, self.exp_tog = 0, 0
        T = host.T                     # PHY clocks per "short host pause" unit
        await host.power_on(ctx, self.dut.connect)
        addr = 0
        for op in sc["ops"]:
            k = op[0]
            if k == "ctl":
                _, use_addr, req, dout = op
                a = addr if use_addr is None else use_addr
                outcome, data = await self.control(ctx, host, a, req, dout)
                self._flush({"e": "ctl", "addr": a, "req": req, "outcome": outcome, "data": data})
                if (a == addr and outcome == "ok" and req["type"] == 0 and req["request"] == 5
                        and not req["dirin"] and req["length"] == 0):
                    addr = req["value"] & 0x7F
            elif k == "out":
                _, use_addr, tog, payload, crc_ok = op
                a = addr if use_addr is None else use_addr
                if sc.get("avoid_overrun", True) and a == addr:
                    buf = 2 * self.maxpkt - 1
                    if self.held + len(payload) > buf:
                        if self.rx_budget is None:
                            for _ in range(600 * T):
                                if self.held + len(payload) <= buf:
                                    break
                                save, self.rx_p = self.rx_p, 1.0
                                await host.cycle(ctx)
                                self.rx_p = save
                        if self.held + len(payload) > buf:
                            self._flush(None)
                            continue
                rec = await self.bulk_out(ctx, host, a, tog, payload, crc_ok)
                if a == addr and crc_ok and rec["resp"] == "ACK" and tog == self.exp_tog:
                    self.held += len(payload)
                    self.exp_tog ^= 1
                self._flush(rec)
            elif k == "in":
                _, use_addr, ack = op
                a = addr if use_addr is None else use_addr
                rec, _ = await self.bulk_in(ctx, host, a, ack)
                self._flush(rec)
            elif k == "in_race":
                _, ack, dly, beats = op
                await host.token(ctx, "IN", addr, 4)
                r = await host.wait_response(ctx)
                self.timed.append((host.cycle_no + dly, [list(b) for b in beats]))
                resp = {"kind": "bad", "pid": 0, "payload": []}
                if r.get("kind") == "none":
                    resp["kind"] = "none"
                elif r.get("kind") == "hs":
                    resp["kind"] = r["pid"] if r["pid"] in ("NAK", "STALL") else "bad"
                elif r.get("kind") == "data" and r.get("crc_ok") and r["pid"] in ("DATA0", "DATA1"):
                    resp = {"kind": "data", "pid": 1 if r["pid"] == "DATA1" else 0, "payload": r["payload"]}
                    if ack:
                        await host.idle(ctx, 2 * T)
                        await host.handshake(ctx, "ACK")
                await host.idle(ctx, 24 * T)
                self._flush({"e": "in", "addr": addr, "resp": resp, "host_ack": bool(ack and resp["kind"] == "data")})
            elif k == "out_race":
                _, tog, payload, dly = op
                self.rx_budget = 0
                self.rx_timed = []
                await host.token(ctx, "OUT", addr, 4)
                await host.idle(ctx, 2 * T)
                await host.data(ctx, "DATA1" if tog else "DATA0", payload)
                self.rx_timed.append((host.cycle_no + dly, 10 ** 6))
                r = await host.wait_response(ctx)
                resp = r["pid"] if r.get("kind") == "hs" else ("none" if r.get("kind") == "none" else "bad_" + str(r.get("kind")))
                if resp == "ACK" and tog == self.exp_tog:
                    self.held += len(payload)
                    self.exp_tog ^= 1
                await host.idle(ctx, 30 * T)
                self._flush({"e": "out", "addr": addr, "tog": tog, "payload": list(payload), "crc_ok": True, "resp": resp})
                self.rx_budget = None
            elif k == "tx":
                self.tx_queue += [list(b) for b in op[1]]
                if op[2]:
                    self.tx_force = True
                    for _ in range(40 * len(op[1]) + 200):
                        if not self.tx_queue:
                            break
                        await host.cycle(ctx)
                    self.tx_force = False
                self._flush(None)
            elif k == "rx":
                self.rx_budget = op[1]
                for _ in range(200):
                    if self.rx_budget <= 0:
                        break
                    await host.cycle(ctx)
                self.rx_budget = 0
                self._flush(None)
            elif k == "rx_p":
                self.rx_p = op[1]
            elif k == "idle":
                await host.idle(ctx, op[1])
                self._flush(None)
            elif k == "reset":
                self._flush(await self.bus_reset(ctx, host, op[1], op[2] if len(op) > 2 else 3))
                addr = 0
            elif k == "suspend":
                TM = self.times
                if host.hs:                 # HS idle = squelch; after 3 ms the device reverts to FS, the line floats to J
                    await host.idle(ctx, TM["T3MS"] + 100)
                    await host.line(ctx, LS_J, TM["T200US"] + 300)
                else:
                    await host.idle(ctx, TM["T3MS"] + 300)
                self.susp = True
                self._flush({"e": "bus", "ev": "suspend", "fc": host.phy.regs[4]})
            elif k == "resume":
                TM = self.times
                await host.line(ctx, LS_K, op[1] if len(op) > 1 else 400)
                if host.hs:
                    await host.line(ctx, LS_SE0, 200)
                else:
                    await host.line(ctx, LS_SE0, 20)
                    await host.line(ctx, LS_J, 100)
                self.susp = False
                self._flush({"e": "bus", "ev": "resume", "fc": host.phy.regs[4]})
            elif k == "vbus":
                host.vbus = 0x0C if op[1] else 0x00
                await host.line(ctx, LS_J if op[1] else LS_SE0, op[2] if len(op) > 2 else 500)
                if not op[1]:
                    host.hs = False
                self._flush({"e": "bus", "ev": "vbus_on" if op[1] else "vbus_off", "fc": host.phy.regs[4]})
            elif k == "connect":
                ctx.set(self.dut.connect, op[1])
                await host.idle(ctx, op[2] if len(op) > 2 else 500)
                if not op[1]:
                    host.hs = False
                self._flush({"e": "bus", "ev": "connect" if op[1] else "disconnect", "fc": host.phy.regs[4]})
            elif k == "pat":
                host.patterns += list(op[1])
            elif k == "nxt":
                host.nxt_plan += list(op[1])
            elif k == "pulse":
                host.end_pulses += list(op[1])
            elif k == "sof":
                await host.sof(ctx, op[1])
                await host.idle(ctx, 30 * T)
                self._flush({"e": "quiet", "addr": 128, "is_in": False})
            elif k == "junk":
                await host.garbage(ctx, op[1])
                await host.idle(ctx, 30 * T)
                self._flush({"e": "quiet", "addr": 128, "is_in": False})
            elif k == "quiet_in":
                a = addr if op[1] is None else op[1]
                await host.in_transaction(ctx, a, op[2], ack=False)
                await host.idle(ctx, 4 * T)
                self._flush({"e": "quiet", "addr": a, "is_in": True})
            await host.idle(ctx, rng.randint(2, 6) * T)
        if sc.get("drain", True):
            self.rx_budget = None
            self.rx_p = 1.0
            self.tx_p = 1.0
            naks = 0
            for _ in range(60):
                await host.idle(ctx, 150)
                rec, resp = await self.bulk_in(ctx, host, addr, True)
                self._flush(rec)
                naks = naks + 1 if resp["kind"] == "NAK" else 0
                if naks >= 2 and not self.tx_queue:
                    break
            await host.idle(ctx, 300)
            self._flush({"e": "end"})
        self.cycles += host.cycle_no
        self.result = {"cfg": {"vid": VID, "pid": PID, "phy": self.phy_kind, "speed": "fs", "scaled": self.scaled,
                               "lat": ULPI_LAT if self.phy_kind == "ulpi" else LINE_LAT},
                       "steps": self.trace}
        self.final_addr = addr
        self.stats = {"aborts": getattr(host, "aborts", 0), "gaps": self.gaps}


# ---- stimuli ---------------------------------------------------------------------------------------------------------
req = leaf.req
SET_ADDR = lambda a: ("ctl", None, req(0, 0, 0, 5, a, 0, 0), ())


def pat(start="cmd", end="cmd", gaps=None, cmds=None, tail=0, pre=1, post=0):
    return {"start": start, "end": end, "gaps": dict(gaps or {}), "cmds": dict(cmds or {}), "tail": tail, "pre": pre, "post": post}


PLAIN = pat()


def sc_enumeration(rng, maxpkt, n_data=10):
    ops = leaf.enumeration_ops(rng, maxpkt) + leaf.class_vendor_ops(rng)
    ops += leaf.resolve_auto(leaf.data_ops(rng, maxpkt, 2 * maxpkt - 1, n_data), rng)
    return ops


def sc_rx_patterns(rng, maxpkt):
    """Host packets under every start form x end form, an RxCmd / an NXT gap at every byte gap of the token, the data
    packet and the handshake: bulk OUT (1 byte, MaxPkt bytes) and bulk IN (data + ACK) must behave as ever."""
    ops = []
    tog = 0
    val = 1

    def out(pt, pd, n):
        nonlocal tog, val
        ops.append(("pat", [pt, pd]))
        ops.append(("out", None, tog, [(val + j) % 256 for j in range(n)], True))
        tog ^= 1
        val += 7

    def inn(pt, pa, n):
        nonlocal val
        ops.append(("tx", [[(val + j) % 256, j == n - 1] for j in range(n)], True))
        val += 5
        ops.append(("pat", [pt, pa]))
        ops.append(("in", None, True))

    forms = [(s, e) for s in ("nxt", "cmd", "hold") for e in ("dir", "cmd", "dir_j")]
    for i, (s, e) in enumerate(forms):
        t = i % 4
        out(pat(s, e, tail=t), pat(e == "dir" and "nxt" or s, e, tail=(t + 1) % 4, post=i), 1 + (i % 3))
        inn(pat(s, e, tail=t, post=2 * i), pat(s, e, tail=t), 1 + (i % 2))
    # an RxCmd (line state K / J / SE0 with RxActive kept) or an NXT-less cycle before byte i, for every i
    for i in range(3):
        for low in (2, 1):
            out(pat(cmds={i: [low]}), PLAIN, 2)
        out(pat(gaps={i: 1 + i}), PLAIN, 1)
        inn(pat(cmds={i: [2, 1]}), PLAIN, 2)
    for n in (1, 2):
        for i in range(n + 3):
            out(PLAIN, pat(cmds={i: [2]}), n)
            out(PLAIN, pat(gaps={i: 2}, start="nxt", end="dir"), n)
            out(PLAIN, pat(cmds={i: [1], (i + 1) % (n + 3): [0]}, end="dir"), n)
    out(PLAIN, pat(cmds={k: [2] for k in range(maxpkt + 3)}), maxpkt)
    out(PLAIN, pat(gaps={k: 1 + k % 3 for k in range(maxpkt + 3)}, start="nxt", end="dir_j"), maxpkt)
    for s, e in forms[:6]:
        inn(PLAIN, pat(s, e, cmds={0: [2]}), 1)          # the ACK handshake itself, preceded by an RxCmd
        inn(PLAIN, pat(s, e, gaps={0: 3}), maxpkt)
    return ops


def sc_tx_stalls(rng, maxpkt):
    """NXT withheld 1..3 (and 8) cycles at every byte position of every short device packet: handshake (TXCMD only),
    zero-length data packet, 1- and 2-byte data packets, one full packet."""
    ops = []
    tog = 0
    val = 3
    for stall in (1, 2, 3, 8):
        for pos in range(1):                                   # ACK handshake: the TXCMD itself
            ops.append(("nxt", [0] * stall + [1]))
            ops.append(("out", None, tog, [val % 256], True))
            tog ^= 1
            val += 3
    for n in (0, 1, 2):
        for pos in range(n + 3):                               # TXCMD, n payload bytes, 2 CRC bytes
            for stall in (1, 3):
                if n:
                    ops.append(("tx", [[(val + j) % 256, j == n - 1] for j in range(n)], True))
                else:                                          # a zero-length packet closes a transfer of exactly MaxPkt bytes
                    ops.append(("tx", [[(val + j) % 256, j == maxpkt - 1] for j in range(maxpkt)], True))
                    ops.append(("in", None, True))
                val += 11
                ops.append(("nxt", [1] * pos + [0] * stall + [1]))
                ops.append(("in", None, True))
    ops.append(("tx", [[(val + j) % 256, False] for j in range(maxpkt)], True))
    ops.append(("nxt", [j % 2 for j in range(2 * (maxpkt + 3))]))
    ops.append(("in", None, True))
    return ops


def sc_turnaround(rng, maxpkt):
    """The PHY claims the bus for a lone RxCmd (line-state update) at every offset 0..24 after the end of the host packet,
    i.e. around the cycle in which the device presents its TXCMD: the response must still come out once, intact."""
    ops = []
    tog = 0
    val = 9
    for d in range(0, 25):
        end = ("dir", "cmd", "dir")[d % 3]
        ops.append(("pat", [PLAIN, pat(("nxt", "cmd")[d % 2], end, tail=d % 3)]))
        ops.append(("pulse", [None, d]))
        ops.append(("out", None, tog, [val % 256, (val + 1) % 256][: 1 + d % 2], True))
        tog ^= 1
        val += 5
        if d % 2 == 0:
            n = 1 + (d // 2) % 2
            ops.append(("tx", [[(val + j) % 256, j == n - 1] for j in range(n)], True))
            ops.append(("pat", [pat(end=end, tail=d % 2)]))
            ops.append(("pulse", [d]))
            ops.append(("in", None, True))
    return ops


def sc_noise(rng, maxpkt, addr):
    """Traffic that must leave no trace at the PHY boundary: SOFs, foreign-address tokens, junk, corrupted packets, IN
    tokens for the idle interrupt endpoint; lost handshakes (host does not ACK) and retried OUT packets."""
    ops = [SET_ADDR(addr)]
    tog = 0
    val = 17
    for i in range(6):
        ops.append(("sof", (100 + i) & 0x7FF))
        ops.append(("quiet_in", None, 3))
        ops.append(("quiet_in", (addr + 1 + i) % 128, 4))
        ops.append(("out", (addr + 3 + i) % 128, tog, [val % 256], True))
        ops.append(("out", None, tog, [val % 256, 1], False))                       # corrupted CRC16: silence
        ops.append(("out", None, tog, [val % 256, 2], True))
        ops.append(("out", None, tog, [val % 256, 2], True))                        # host retry (it lost our ACK)
        tog ^= 1
        n = (1, maxpkt, 2)[i % 3]
        ops.append(("tx", [[(val + j) % 256, j == n - 1] for j in range(n)], True))
        ops.append(("in", None, False))                                             # host's ACK lost
        ops.append(("in", (addr + 9) % 128, True))
        ops.append(("in", None, True))
        if i % 2:
            ops.append(("junk", [rng.randrange(256) for _ in range(rng.randint(1, 4))]))
        val += 13
    return ops


def sc_backpressure(rng, maxpkt):
    ops = []
    ops += leaf.resolve_auto(leaf.data_ops(rng, maxpkt, 2 * maxpkt - 1, 40), rng)
    return ops


GET_CFG = lambda a=None: ("ctl", a, req(0, 0, 1, 8, 0, 0, 1), ())
SET_CFG = lambda v=1: ("ctl", None, req(0, 0, 0, 9, v, 0, 0), ())


def configure(rng, with_data=False):
    a = rng.randint(1, 127)
    ops = [SET_ADDR(a), SET_CFG(1), GET_CFG()]
    return a, ops


def probes(old, rng):
    """After a bus reset: the device answers at address 0 with configuration 0, and is deaf at its old address."""
    ops = [GET_CFG(), GET_CFG(old), ("quiet_in", old, 4), ("out", old, 0, [rng.randrange(256)], True),
           ("ctl", None, req(0, 0, 1, 6, 0x0100, 0, 18), ())]
    rng.shuffle(ops)
    return ops


def kept(a):
    """After suspend / resume (no reset): address and configuration are kept."""
    return [GET_CFG(), ("ctl", 0 if a else 5, req(0, 0, 1, 8, 0, 0, 1), ())]


def sc_bus(rng, family):
    """Bus events at line-state level followed by transactions.  family:
       fs    resets of an active full-speed device (FS host, HS host, 2 chirp pairs only), then of the HS device it became
       susp  suspend -> resume, suspend -> reset while suspended, from full speed and from high speed   [seeded/C08-3]
       plug  VBUS loss / return and soft disconnect / connect, each followed by the host's reset, from FS and from HS"""
    ops = []
    if family == "fs":
        a, o = configure(rng); ops += o
        ops += [("out", None, 0, [1, 2, 3], True), ("tx", [[7, False], [8, True]], True), ("in", None, True), ("in", None, True)]
        ops += [("reset", False)] + probes(a, rng)
        a, o = configure(rng); ops += o
        ops += [("reset", True, 2)] + probes(a, rng)             # host stops after two K-J pairs: stay at full speed
        a, o = configure(rng); ops += o
        ops += [("reset", True)] + probes(a, rng)                # high speed from here on
        a, o = configure(rng); ops += o
        ops += [("reset", True, 4)] + probes(a, rng)             # reset of an active HS device, HS again
        a, o = configure(rng); ops += o
        ops += [("reset", False)] + probes(a, rng)               # reset of an active HS device by a full-speed host
        a, o = configure(rng); ops += o
    elif family == "susp":
        a, o = configure(rng); ops += o
        ops += [("suspend",), ("resume",)] + kept(a)
        ops += [("suspend",), ("reset", False)] + probes(a, rng)          # reset while suspended from FS, FS host
        a, o = configure(rng); ops += o
        ops += [("suspend",), ("reset", True)] + probes(a, rng)           # reset while suspended from FS, HS host
        a, o = configure(rng); ops += o                                   # (high speed now)
        ops += [("suspend",), ("resume",)] + kept(a)                      # HS suspend / resume: back at high speed
        ops += [("suspend",), ("reset", True)] + probes(a, rng)           # reset while suspended from HS
        a, o = configure(rng); ops += o
        ops += [("suspend",), ("reset", False)] + probes(a, rng)
        a, o = configure(rng); ops += o
    else:
        a, o = configure(rng); ops += o
        ops += [("vbus", 0), ("vbus", 1), ("reset", True)] + probes(a, rng)
        a, o = configure(rng); ops += o                                   # high speed
        ops += [("vbus", 0), ("vbus", 1), ("reset", False)] + probes(a, rng)
        a, o = configure(rng); ops += o
        ops += [("connect", 0), ("connect", 1), ("reset", True)] + probes(a, rng)
        a, o = configure(rng); ops += o
        ops += [("connect", 0), ("connect", 1), ("reset", False)] + probes(a, rng)
        a, o = configure(rng); ops += o
    return ops


COMMITS = {"DoTx", "DoRx", "CommitOut", "HostAckIn", "CommitInNoAck", "DoSetAddr"}


def behaviour_to_ops(beh):
    """Env side of a TLC-simulated behaviour of MCUsb2Stack (spec -> code): the committed steps' `act` records and the SOFs
    become host operations; which packets the device sends in between is up to the real stack (and judged by TLC again)."""
    ops = []
    frame = 1
    for name, st in beh[1:]:
        if name == "HostSof":
            ops.append(("sof", frame))
            frame = (frame + 1) % 2048
            continue
        if name not in COMMITS:
            continue
        a = st["act"]
        e = a["e"]
        if e == "tx":
            ops.append(("tx", [[a["beat"][0], a["beat"][1]]], True))
        elif e == "rx":
            ops.append(("rx", a["n"]))
        elif e == "out":
            ops.append(("out", a["addr"], a["tog"], list(a["payload"]), a["crc_ok"]))
        elif e == "in":
            ops.append(("in", a["addr"], a["host_ack"]))
        elif e == "ctl":
            ops.append(("ctl", a["addr"], dict(a["req"]), ()))
    return ops


def replay_items(rep, num, depth):
    cfg = _cfg("MCUsb2Stack_sim.cfg.tmpl")
    behs = tlc.simulate(SPEC_DIR, "MCUsb2Stack", cfg, num=num, depth=depth, seed=rep.seed * 17 + 3)
    items = []
    for i, beh in enumerate(behs):
        ops = behaviour_to_ops(beh)
        if not ops:
            continue
        items.append(run_family(rep, "ulpi", 2, "tlc_simulate_replay", ops, i, rx_manual=True, avoid_overrun=False,
                                gap=(0.0, 0.3)[i % 2], stall=(0.0, 0.3)[i % 2]))
    rep.notes.append("usb2stack: %d TLC-simulated behaviours of MCUsb2Stack replayed into the real stack (MaxPkt 2)" % len(items))
    return items


# ---- classification / validation -----------------------------------------------------------------------------------
def classify(trace, matched, status, meta):
    return {"clause": status, "pattern": meta.get("phy", "?") + "/" + meta.get("family", "?")}


def account(rep, tr):
    for r in tr["steps"]:
        rep.add_eval()
        if r["e"] == "ctl":
            q = r["req"]
            rep.nontriv(("ctl", q["type"], q["request"] if q["type"] < 2 else -1, q["dirin"], min(q["length"], 65), r["outcome"]))
        elif r["e"] == "out":
            rep.nontriv(("out", len(r["payload"]), r["tog"], r["crc_ok"], r["resp"]))
        elif r["e"] == "in" and r["resp"]["kind"] == "data":
            rep.nontriv(("in", len(r["resp"]["payload"]), r["resp"]["pid"], r["host_ack"]))
        elif r["e"] == "dp" and "cmd" in r:
            rep.nontriv(("dp", r["cmd"], min(len(r["bytes"]), 12), min(r["gap"], 60), min(r["blk"], 12)))
        elif r["e"] == "dp":
            rep.nontriv(("dpl", len(r["syms"]) // 8, min(r["gap"], 60)))


def corrupted_copy(tr):
    """Canary: the same trace with one device packet damaged at the PHY boundary must be rejected."""
    import copy
    t = copy.deepcopy(tr)
    for r in t["steps"]:
        if r["e"] == "dp" and "cmd" in r and len(r["bytes"]) >= 3:
            r["bytes"][0] ^= 1
            return t, "data_crc16_wrong"
        if r["e"] == "dp" and "syms" in r and len(r["syms"]) > 30:
            r["syms"][12] = "K" if r["syms"][12] == "J" else "J"
            return t, None
    return None, None


def validate(rep, items, maxpkt, what):
    """One TLC run per group: all recorded traces + a damaged copy (canary, must be rejected by the expected clause)."""
    for tr, _ in items:
        account(rep, tr)
    cfg = tlc.render_cfg(_cfg("Usb2StackTrace.cfg.tmpl"), {"MaxPkt": maxpkt, "BufBytes": 2 * maxpkt - 1})
    canary, clause, src = None, None, None
    for i, (tr, _) in enumerate(items):
        canary, clause = corrupted_copy(tr)
        if canary is not None:
            src = i
            break
    traces = [t for t, _ in items] + ([canary] if canary is not None else [])
    verdicts, _res = tlc.validate_traces(SPEC_DIR, "Usb2StackTrace", cfg, traces, timeout=900)
    if canary is not None:
        matched, status = verdicts.pop()
        src_ok = verdicts[src] == (len(items[src][0]["steps"]), "ok")
        if src_ok:                        # judged only when the undamaged original was accepted
            if status == "ok" and matched == len(canary["steps"]):
                raise tlc.TLCError("usb2stack canary: a trace with a damaged device packet was accepted")
            if clause and status != clause:
                raise tlc.TLCError("usb2stack canary: damaged device packet rejected by clause %r, expected %r" % (status, clause))
    ok = steps = 0
    for (trace, meta), (matched, status) in zip(items, verdicts):
        n = len(trace["steps"])
        if status == "ok" and matched == n:
            ok += 1
            steps += n
            continue
        if status.startswith("env_"):
            raise tlc.TLCError("usb2stack: stimulus left the Env (%s) in %s" % (status, meta))
        sig = classify(trace, matched, status, meta)
        k = matched if status != "ok" else matched + 1
        recs = trace["steps"]
        rep.violation(sig, "%s%s: real-gateware trace rejected by Usb2StackTrace at step %d/%d, clause '%s' (%s); last records: %s"
                      % (what, meta, k, n, status, sig.get("pattern"), recs[max(0, k - 3):k]),
                      {"meta": meta, "failing_step": k, "clause": status, "trace_prefix": recs[:k + 1], "cfg": trace["cfg"]})
    rep.add_traces(ok, steps)
    if items:
        rep.sample({"engine": ENGINE, "origin": items[0][1], "first_records": items[0][0]["steps"][:4]})


# ---- model checking ------------------------------------------------------------------------------------------------
def model_check_start(quick):
    from concurrent.futures import ThreadPoolExecutor
    pool = ThreadPoolExecutor(1)
    cfg = tlc.render_cfg(_cfg("MCUsb2Stack.cfg.tmpl"), {"MaxLog": 2})      # MaxLog 3 not measured yet: same model in both tiers
    return pool.submit(tlc.model_check, SPEC_DIR, "MCUsb2Stack", cfg, None, 3000), quick


def model_check_finish(rep, started):
    fut, quick = started
    res = fut.result()
    rep.add_mc("MCUsb2Stack (UsbSerial data path seen through the PHY boundary) MaxPkt=2 Bytes={0,1} MaxLog=2",
               res, {"MaxPkt": 2, "BufBytes": 3, "MaxLog": 2, "engine": ENGINE})


# ---- sub-checks ----------------------------------------------------------------------------------------------------
_BENCH = {}


def bench(phy, maxpkt, scaled=False):
    if (phy, maxpkt, scaled) not in _BENCH:
        _BENCH[(phy, maxpkt, scaled)] = StackBench(phy, maxpkt, scaled)
    return _BENCH[(phy, maxpkt, scaled)]


def run_family(rep, phy, maxpkt, family, ops, seedtag, scaled=False, **kw):
    rng = random.Random("%s-%s-%s-%s" % (rep.seed, phy, family, seedtag))
    sc = dict({"rng": rng, "ops": ops, "gap": 0.0, "stall": 0.0, "rx_p": 1.0, "tx_p": 1.0}, **kw)
    b = bench(phy, maxpkt, scaled)
    tr = b.run(sc)
    rep.extra["usb2stack_cycles"] = rep.extra.get("usb2stack_cycles", 0) + b.host.cycle_no
    return tr, {"engine": ENGINE, "phy": phy, "maxpkt": maxpkt, "family": family, "n": seedtag}


def common(rep):
    rep.assume("usb2stack: the PHY obeys ULPI 1.1 (NXT low when DIR falls, data bytes only inside a receive, RxCmd after a DIR+NXT "
               "start, no DIR inside a transmit data phase, NXT withheld only boundedly); the host is legal (one transaction at a time, "
               "waits for the response or its time-out)")
    rep.assume("usb2stack: response window measured at the PHY boundary = C05 window of the speed plus a PHY-interface latency "
               "allowance (ULPI: %d clocks; line: %d samples); clocks the PHY itself keeps the bus are not charged to the device"
               % (ULPI_LAT, LINE_LAT))


def extra_C22(rep):
    """ULPI receive translation in composition: every legal receive pattern gives the same device behaviour."""
    quick = rep.tier == "quick"
    common(rep)
    mc = model_check_start(quick)
    items = []
    rng = random.Random("%s-C22" % rep.seed)
    items.append(run_family(rep, "ulpi", 8, "rx_patterns", sc_rx_patterns(rng, 8), 0))
    for i in range(2 if quick else 12):
        r2 = random.Random("%s-C22-enum-%d" % (rep.seed, i))
        items.append(run_family(rep, "ulpi", 8, "enumeration_random_rx", sc_enumeration(r2, 8, 12), i,
                                gap=r2.choice([0.3, 0.6]), stall=0.0, rx_p=r2.choice([1.0, 0.5])))
    validate(rep, items, 8, "usb2stack(ULPI) ")
    model_check_finish(rep, mc)


def extra_C23(rep):
    """ULPI transmit translation in composition: every NXT schedule / bus claim delivers the device's packets intact."""
    quick = rep.tier == "quick"
    common(rep)
    items = []
    rng = random.Random("%s-C23" % rep.seed)
    items.append(run_family(rep, "ulpi", 8, "tx_stalls", sc_tx_stalls(rng, 8), 0))
    items.append(run_family(rep, "ulpi", 8, "turnaround", sc_turnaround(rng, 8), 0))
    for i in range(2 if quick else 10):
        r2 = random.Random("%s-C23-enum-%d" % (rep.seed, i))
        items.append(run_family(rep, "ulpi", 8, "enumeration_random_nxt", sc_enumeration(r2, 8, 12), i,
                                gap=0.0, stall=r2.choice([0.3, 0.6]), max_stall=r2.choice([2, 5]), tx_p=r2.choice([1.0, 0.5])))
    items.append(run_family(rep, "ulpi", 8, "fs_paced_phy", sc_enumeration(random.Random("%s-C23-fs" % rep.seed), 8, 4)[:8], 0,
                            fs_pacing=39))
    validate(rep, items, 8, "usb2stack(ULPI) ")


def extra_C20(rep):
    """Everything transmitted is well-formed and solicited -- observed at the PHY boundary."""
    quick = rep.tier == "quick"
    common(rep)
    items = []
    for i, mp in enumerate((64,) if quick else (8, 64, 8, 64)):
        rng = random.Random("%s-C20-%d" % (rep.seed, i))
        items_mp = [run_family(rep, "ulpi", mp, "noise", sc_noise(rng, mp, rng.randint(1, 127)), i,
                               gap=0.3, stall=0.3)]
        items_mp.append(run_family(rep, "ulpi", mp, "enumeration", sc_enumeration(rng, mp, 16), i, gap=0.2, stall=0.2))
        validate(rep, items_mp, mp, "usb2stack(ULPI) ")


def extra_C57(rep):
    """The serial device carries bytes both ways -- through the PHY."""
    quick = rep.tier == "quick"
    common(rep)
    validate(rep, replay_items(rep, 6 if quick else 120, 60), 2, "usb2stack(ULPI) ")
    for mp, count in (((8, 2),) if quick else ((8, 12), (64, 8))):
        items = []
        for i in range(count):
            rng = random.Random("%s-C57-%d-%d" % (rep.seed, mp, i))
            ops = [SET_ADDR(rng.randint(1, 127))] + leaf.class_vendor_ops(rng)[:2] + sc_backpressure(rng, mp)
            items.append(run_family(rep, "ulpi", mp, "bulk_backpressure", ops, i, gap=rng.choice([0, 0.3]),
                                    stall=rng.choice([0, 0.3]), rx_p=rng.choice([1.0, 0.6, 0.3]), tx_p=rng.choice([1.0, 0.5]),
                                    avoid_overrun=i % 2 == 0))
        if mp == 8:                                   # ... and through the gateware PHY
            for k in range(1 if quick else 4):
                rng = random.Random("%s-C57-line-%d" % (rep.seed, k))
                ops = [SET_ADDR(rng.randint(1, 127))] + sc_backpressure(rng, 8)[: 24 if quick else 40]
                items.append(run_family(rep, "line", 8, "line_bulk_backpressure", ops, k, gap=0.5, rate=(0, 25, -25)[k % 3],
                                        rx_p=rng.choice([1.0, 0.5]), tx_p=rng.choice([1.0, 0.5]), avoid_overrun=k % 2 == 0))
        validate(rep, items, mp, "usb2stack(ULPI + line) ")


STUFF_PAYLOADS = [[0xFF], [0xFF, 0xFF], [0xFF] * 3, [0xFF] * 7, [0xFF] * 8, [0xFC], [0x3F, 0xFC], [0x7E], [0xFE, 0x01], [0x00, 0xFF, 0x00],
                  [0x80, 0xFF, 0x7F], [0xFF, 0xFC], [0x3F, 0x3F, 0x3F], [0xF8, 0x07], [0xFD, 0xFB, 0xF7], [0x00], [0x7F, 0xBF, 0xDF, 0xEF]]


def sc_line_stuffing(rng, maxpkt, part):
    """Bit-stuffing boundary payloads through the line in both directions: runs of ones inside / across byte boundaries, six
    ones right before the CRC, payloads whose CRC16 itself needs stuffing (random ones), ZLP, exactly MaxPkt."""
    ops = [SET_ADDR(rng.randint(1, 127))]
    tog = 0
    pls = [p[:maxpkt] for k, p in enumerate(STUFF_PAYLOADS) if k % 2 == part] + [[rng.randrange(256) for _ in range(maxpkt)]]
    for pl in pls:
        ops.append(("out", None, tog, list(pl), True))
        tog ^= 1
        ops.append(("tx", [[b, j == len(pl) - 1] for j, b in enumerate(pl)], True))
        ops.append(("in", None, True))
        if len(pl) == maxpkt:
            ops.append(("in", None, True))                       # the zero-length packet that closes the transfer
    return ops


def sc_line_mixed(rng, maxpkt):
    """Partial enumeration, class requests, noise (SOF, foreign tokens, corrupted CRC, lost handshakes, junk) and bulk traffic."""
    a = rng.randint(1, 127)
    ops = [("ctl", None, req(0, 0, 1, 6, 0x0100, 0, rng.choice([8, 18, 64])), ()), SET_ADDR(a),
           ("ctl", None, req(0, 0, 1, 6, 0x0200, 0, rng.choice([9, 255])), ()), SET_CFG(1), GET_CFG()]
    ops += leaf.class_vendor_ops(rng)[:3]
    ops += [("sof", rng.randrange(2048)), ("quiet_in", None, 3), ("quiet_in", (a + 5) % 128, 4),
            ("out", (a + 1) % 128, 0, [1, 2], True), ("out", None, 0, [3, 4], False), ("out", None, 0, [3, 4], True),
            ("out", None, 0, [3, 4], True), ("junk", [rng.randrange(256) for _ in range(3)]),
            ("tx", [[9, False], [8, True]], True), ("in", None, False), ("in", None, True)]
    ops += leaf.resolve_auto(leaf.data_ops(rng, maxpkt, 2 * maxpkt - 1, 14), rng)
    return ops


def line_items(rep, tag, quick, what=("stuff", "mixed")):
    items = []
    plans = []
    if "stuff" in what:
        # all four sampling phases; the host's bit rate nominal, 0.25 % fast, 0.25 % slow
        plans += [("line_stuffing", lambda r, k=k: sc_line_stuffing(r, 8, k % 2), dict(phase=k, rate=(0, 25, -25, 0)[k % 4]), k)
                  for k in range(4 if quick else 8)]
    if "mixed" in what:
        plans += [("line_mixed", lambda r: sc_line_mixed(r, 8), dict(gap=0.5, rate=(25, -25, 0)[k % 3], rx_p=(1.0, 0.5)[k % 2],
                                                                      tx_p=(1.0, 0.6)[k % 2]), k) for k in range(1 if quick else 6)]
    for fam, gen, kw, k in plans:
        rng = random.Random("%s-%s-%s-%d" % (rep.seed, tag, fam, k))
        kw = dict(kw)
        kw["phase"] = kw.get("phase", 0) % 4
        items.append(run_family(rep, "line", 8, fam, gen(rng), k, **kw))
    b = bench("line", 8)
    late = sorted({g for g, _ in b.stats["gaps"] if g is not None and g > 26})
    if late:
        rep.drift.append("usb2stack(line): the device starts its response %s samples (%.1f..%.1f bit times) after the host's EOP; "
                         "USB 2.0 7.1.18.1 allows a device 6.5 bit times at its connector (the host waits 16..18): the gateware "
                         "PHY's pipelines add several bit times to the 2..7 cycles of C05's timer. Information only."
                         % (late, late[0] / 4, late[-1] / 4))
    return items


def extra_C25(rep):
    """The gateware PHY in composition: line-level host -> real GatewarePHY -> real USBDevice / USBSerialDevice."""
    quick = rep.tier == "quick"
    common(rep)
    rep.assume("usb2stack(line): sampled digital D+/D- (no skew / analogue), usb = usb_io / 4 phase-locked, host bit rate within "
               "+-0.25 %, the pins read back what the device drives; response window at the pins = 2 .. 16 bit times")
    validate(rep, line_items(rep, "C25", quick), 8, "usb2stack(line) ")


def _bus_families(rep, families, tag):
    quick = rep.tier == "quick"
    common(rep)
    rep.assume("usb2stack bus events: the reset sequencer's ms-range constants are scaled at elaboration (200 us / 1 / 2 / 2.5 / 3 ms = "
               "600 / 1500 / 2000 / 2500 / 3000 clocks; 2.5 us and 5 us keep their real 150 / 300 clocks) -- the timing rules themselves "
               "are C19's leaf check; the host resets the bus after every (re-)attachment and sends no bulk traffic to the device "
               "after a bus reset (toggle semantics of a reset are outside C08/C57)")
    items = []
    for i in range(1 if quick else 4):
        for fam in families:
            rng = random.Random("%s-%s-%s-%d" % (rep.seed, tag, fam, i))
            items.append(run_family(rep, "ulpi", 8, "bus_" + fam, sc_bus(rng, fam), i, scaled=True, drain=False,
                                    gap=(0.0, 0.3)[i % 2], stall=(0.0, 0.3)[i % 2]))
    validate(rep, items, 8, "usb2stack(ULPI, scaled reset sequencer) ")


def extra_C08(rep):
    """A bus reset -- of an active or a suspended device, at full or high speed -- returns the stack to address 0 / configuration 0;
    suspend / resume does not."""
    _bus_families(rep, ("susp", "fs"), "C08")


def extra_C19(rep):
    """Reset / chirp handshake / suspend / resume / VBUS / soft disconnect through PHY line-state reports, in composition."""
    _bus_families(rep, ("fs", "plug", "susp"), "C19")


EXTRA = {"C08": extra_C08, "C19": extra_C19, "C20": extra_C20, "C22": extra_C22, "C23": extra_C23, "C25": extra_C25,
         "C57": extra_C57}
