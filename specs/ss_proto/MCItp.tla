------------------------------- MODULE MCItp -------------------------------
(* Bounded instance of Itp: every header/ready/report schedule within the bounds. *)
EXTENDS Itp, TLC

CONSTANTS Mode,        \* "rx" or "layer"
          Types,       \* header types offered by the Env (must contain 12)
          Pairs,       \* <<bus interval counter (14 bit), delta (13 bit)>> values carried by headers
          MaxSent      \* bound on the ghost log

\* value sets for the cfg (`Pairs <- PairsQuick`): corner values of both fields, all bits exercised
PairsQuick    == {<<1, 8191>>, <<16383, 5461>>, <<10922, 1>>}
PairsThorough == {<<1, 8191>>, <<16383, 5461>>, <<10922, 1>>, <<8192, 4096>>, <<0, 0>>}

Hdr(v, ty, c, d) == [valid |-> v, lo |-> EncLo(ty, c, d), hi |-> EncHi(ty, c, d)]

\* Candidate outputs: every value the relation could allow, plus 0 where it is free.
BicCand(p)   == {0} \cup (IF cur # NoneYet THEN {cur.c} ELSE {})
                    \cup (IF pend # <<>> THEN {pend[1].c} ELSE {})
                    \cup (IF p.itp THEN {p.c} ELSE {})
DeltaCand(p) == {0} \cup (IF cur # NoneYet THEN {cur.d} ELSE {})
                    \cup (IF pend # <<>> THEN {pend[1].d} ELSE {})
                    \cup (IF p.itp THEN {p.d} ELSE {})
Outs(p) == [ready : BOOLEAN, upd : IF Mode = "rx" THEN BOOLEAN ELSE {FALSE},
            bic : BicCand(p), delta : IF Mode = "rx" THEN DeltaCand(p) ELSE {0}]


NoHeader    == LET i == Hdr(FALSE, 0, 0, 0) IN
                 LET p == Dec(i) IN \E o \in Outs(p) : Failing(Mode, p, o) = "ok" /\ Step(Mode, i, p, o)
OtherHeader == \E ty \in Types \ {ItpType}, cd \in Pairs :
                 LET i == Hdr(TRUE, ty, cd[1], cd[2]) IN
                 LET p == Dec(i) IN \E o \in Outs(p) : Failing(Mode, p, o) = "ok" /\ Step(Mode, i, p, o)
ItpHeader   == \E cd \in Pairs :
                 LET i == Hdr(TRUE, ItpType, cd[1], cd[2]) IN
                 LET p == Dec(i) IN \E o \in Outs(p) : Failing(Mode, p, o) = "ok" /\ Step(Mode, i, p, o)

Next == NoHeader \/ OtherHeader \/ ItpHeader
Spec == Init /\ [][Next]_ivars

Bounded == Len(sent) <= MaxSent
CoreView == <<pend, cur, wait, sent, reported>>      \* in/out only echo the I/O of the last cycle

\* The Env's arithmetic encoding and the Ref's bit-serial decoding agree (round trip).
RoundTrip == \A ty \in Types, cd \in Pairs :
                LET c == cd[1]  d == cd[2]  p == Dec(Hdr(TRUE, ty, c, d)) IN
                /\ p.itp = (ty = ItpType) /\ p.c = c /\ p.d = d
                /\ TypeOf(EncLo(ty, c, d), EncHi(ty, c, d)) = ty
ASSUME RoundTrip
=============================================================================
