----------------------------- MODULE MultibyteIn -----------------------------
(***************************************************************************)
(* Reference specification of the word-to-byte serialiser of a multi-byte  *)
(* IN stream endpoint (property C29; luna USBMultibyteStreamInEndpoint),   *)
(* written from the property statement and the module doc-string.          *)
(*                                                                         *)
(* Grain: one step = one clock cycle; the observable interface is the pair *)
(* of stream handshakes (word stream in, byte stream out).                 *)
(*   Env  : per cycle, the word producer's valid / payload / first / last  *)
(*          (unconstrained: valid may drop, payload may change while not   *)
(*          accepted) and the byte endpoint's ready.                       *)
(*   Ref  : pend = bytes (with their first/last marks) of accepted words   *)
(*          not yet taken by the byte endpoint.  Ref is a *relation*: the  *)
(*          serialiser chooses when to offer a byte (bv) and when to       *)
(*          accept a word (wr); latency is free.  What is fixed:           *)
(*            - a byte taken (bv /\ br) is the oldest pending byte;        *)
(*            - a word is accepted (wv /\ wr) only when every byte of its  *)
(*              predecessors has been taken, at the latest in this cycle.  *)
(*   Prop : serialisation theorem over ghost logs: the bytes taken plus    *)
(*          the bytes pending are the little-endian bytes of the accepted  *)
(*          words, each once, first on byte 0 of a first word, last on the *)
(*          final byte of a last word.                                     *)
(* A word is a record [lo, hi, f, l]: payload = lo + 65536 * hi (16-bit    *)
(* limbs, because TLC integers are 32-bit).                                *)
(***************************************************************************)
EXTENDS Naturals, Sequences

CONSTANTS Configs          \* the endpoint configurations discussed: records [byteWidth] (1..4)

VARIABLES conf,            \* elaboration-time parameters of the endpoint (chosen at Init, never changes)
          pend,            \* bytes [d, f, l] accepted in words and not yet taken, oldest first
          io,              \* the inputs and outputs of the cycle that led to this state
          words,           \* ghost: every word accepted, in order
          sent             \* ghost: every byte taken by the byte endpoint, in order

vars == <<conf, pend, io, words, sent>>

ByteWidth == conf.byteWidth          \* bytes per word

\* byte j (0 = least significant) of a word
ByteOf(w, j) == IF j < 2 THEN (w.lo \div (256 ^ j)) % 256 ELSE (w.hi \div (256 ^ (j - 2))) % 256

\* little-endian serialisation with the framing marks
Serialise(w) == [i \in 1..ByteWidth |-> [d |-> ByteOf(w, i - 1),
                                         f |-> (w.f /\ i = 1),
                                         l |-> (w.l /\ i = ByteWidth)]]

-----------------------------------------------------------------------------
InitState == /\ pend = <<>> /\ words = <<>> /\ sent = <<>>
             /\ io = [e |-> "init"]
Init == conf \in Configs /\ InitState

(* One clock cycle.  Inputs: wv (word valid), w (the word offered), br (byte endpoint ready).   *)
(* Outputs: wr (word ready), bv (byte valid), b (the byte offered: [d, f, l]).                   *)
Cycle(wv, w, br, wr, bv, b) ==
    LET take == bv /\ br
        rest == IF take THEN Tail(pend) ELSE pend
        acc  == wv /\ wr
    IN /\ take => (pend # <<>> /\ b = pend[1])          \* only the oldest pending byte is handed over
       /\ acc => rest = <<>>                            \* words only as fast as the bytes are taken
       /\ pend' = IF acc THEN Serialise(w) ELSE rest
       /\ words' = IF acc THEN Append(words, w) ELSE words
       /\ sent' = IF take THEN Append(sent, b) ELSE sent
       /\ io' = [e |-> "c", wv |-> wv, w |-> w, br |-> br, wr |-> wr, bv |-> bv]
       /\ UNCHANGED conf

-----------------------------------------------------------------------------
(* Prop *)
RECURSIVE Flatten(_)
Flatten(ss) == IF ss = <<>> THEN <<>> ELSE ss[1] \o Flatten(Tail(ss))

Bytes == sent \o pend

\* Every accepted word appears exactly once, little-endian, with the marks in the right place.
Serialisation ==
    /\ Len(Bytes) = ByteWidth * Len(words)
    /\ \A k \in 1..Len(words) : \A j \in 0..(ByteWidth - 1) :
          LET x == Bytes[(k - 1) * ByteWidth + j + 1] IN
            /\ x.d = ByteOf(words[k], j)
            /\ x.f = (words[k].f /\ j = 0)
            /\ x.l = (words[k].l /\ j = ByteWidth - 1)

\* At most one word's bytes are pending.
AtMostOneWordPending == Len(pend) <= ByteWidth

\* A word is accepted only in a cycle after which none of its predecessors' bytes is pending.
ConfigNeverChanges == [][conf' = conf]_vars

AcceptOnlyWhenDrained == [][Len(words') > Len(words) => Len(sent') = ByteWidth * Len(words)]_vars
=============================================================================
