----------------------------- MODULE MCSsSetup -----------------------------
(* Bounded instance of SsSetup: every packet shape / flag / verdict ordering within the bounds, *)
(* against every allowed report timing of an abstract decoder.                                  *)
EXTENDS SsSetup, TLC

CONSTANTS MaxPkts,     \* packets per behaviour
          MaxBytes,    \* longest packet (bytes)
          Ns           \* valid-byte counts a word may carry (4 must be included)

VARIABLE npk           \* packets judged so far
mvars == <<svars, npk>>

\* payload words <<lo, hi>>: the words of the repository's directed test, and an all-ones word
WordsQuick    == {<<43713, 8721>>, <<13124, 4>>}
WordsThorough == WordsQuick \cup {<<65535, 65535>>}
CONSTANTS Words

Outs(i) == {[rcv |-> r, f |-> f] : r \in BOOLEAN,
            f \in {cur, NoFields} \cup (IF OwedA(i) # <<>> THEN {OwedA(i)[1].f} ELSE {})}
Resp(i, o) == Failing(i, o) = "ok" /\ Step(i, o) /\ npk' = npk + (IF i.good \/ i.bad THEN 1 ELSE 0)

In(n, first, last, w, s, g, b) == [n |-> n, first |-> first, last |-> last, lo |-> w[1], hi |-> w[2],
                                   setup |-> s, good |-> g, bad |-> b]
W0 == <<0, 0>>

Idle      == \E s \in BOOLEAN : LET i == In(0, FALSE, FALSE, W0, s, FALSE, FALSE) IN \E o \in Outs(i) : Resp(i, o)
FirstWord == \E s \in BOOLEAN, w \in Words, n \in Ns, la \in BOOLEAN :
                LET i == In(n, TRUE, la, w, s, FALSE, FALSE) IN \E o \in Outs(i) : Resp(i, o)
NextWord  == \E w \in Words, n \in Ns, la \in BOOLEAN :
                LET i == In(n, FALSE, la, w, pkt.setup, FALSE, FALSE) IN \E o \in Outs(i) : Resp(i, o)
Good      == \E s \in BOOLEAN : LET i == In(0, FALSE, FALSE, W0, IF pkt.open THEN pkt.setup ELSE s, TRUE, FALSE) IN
                \E o \in Outs(i) : Resp(i, o)
Bad       == \E s \in BOOLEAN : LET i == In(0, FALSE, FALSE, W0, IF pkt.open THEN pkt.setup ELSE s, FALSE, TRUE) IN
                \E o \in Outs(i) : Resp(i, o)
BadAbort  == \E w \in Words : pkt.open /\ ~pkt.done /\
                LET i == In(4, FALSE, FALSE, w, pkt.setup, FALSE, TRUE) IN \E o \in Outs(i) : Resp(i, o)

Next == Idle \/ FirstWord \/ NextWord \/ Good \/ Bad \/ BadAbort
Spec == Init /\ npk = 0 /\ [][Next]_mvars

BoundedRun == npk <= MaxPkts /\ Len(pkt.bytes) <= MaxBytes
CoreView == <<pkt, owed, cur, wanted, reports, npk>>
=============================================================================
