-------------------------- MODULE LinkTimersTrace ---------------------------
(* Trace validation for LinkTimers (C44): run-length encoded cycles [n, en, rx, pkt, tx, ka, rec] of the real LinkMaintenanceTimers. *)
EXTENDS LinkTimers, TLC, TLCExt, Json, IOUtils

Logs == JsonDeserialize(IOEnv.TRACE_FILE)

VARIABLES st, tid, l, status
tvars == <<st, tid, l, status>>

ASSUME \A i \in 1..Len(Logs) : TLCSet(i, <<0, "ok">>)

TInit == /\ st = TmInit
         /\ tid \in 1..Len(Logs)
         /\ l = 1
         /\ status = "ok"

TNext == /\ status = "ok"
         /\ l <= Len(Logs[tid])
         /\ status' = TmFailing(st, Logs[tid][l])
         /\ st' = TmNext(st, Logs[tid][l])
         /\ l' = l + 1
         /\ UNCHANGED tid

TSpec == TInit /\ [][TNext]_tvars

Verdict == status
Progress == TLCSet(tid, <<l - 1, Verdict>>) /\ Verdict = "ok"

Verdicts == JsonSerialize(IOEnv.VERDICT_FILE, [i \in 1..Len(Logs) |-> TLCGet(i)])
=============================================================================
