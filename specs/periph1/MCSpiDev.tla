------------------------------ MODULE MCSpiDev ------------------------------
(* Bounded instance of SpiDev for exhaustive exploration: the configuration (word size, CPOL, *)
(* CPHA, bit order) is chosen in Init; every legal host behaviour at cycle grain (CS at any    *)
(* time, SCK edges at least two cycles apart, foreign clocking while deselected, aborts at any *)
(* bit, word_out changes) and every permitted report latency is explored.                      *)
EXTENDS SpiDev, TLC

CONSTANTS WordSizes, Modes, Orders,   \* sets: word sizes, SPI mode numbers 2*CPOL+CPHA, msb-first flags
          MaxBits,                    \* bound: sample edges per CS assertion  = MaxBits(ws)
          MaxWords                    \* bound: words completed in total

Init == \E ws \in WordSizes, md \in Modes, m \in Orders : InitCfg(ws, md \div 2, md % 2, m)

\* word_out alphabet: LSB only / everything but the LSB (asymmetric, so bit order matters)
WoutAlpha == IF WS = 1 THEN {0, 1} ELSE {1, (2 ^ WS) - 2}

\* the outputs the reference allows in a cycle with inputs i, given the strobe choice wc
OutFor(i, wc) == [wc |-> wc,
                  win |-> IF pend # <<>> THEN pend[1].w ELSE 0,
                  sdo |-> IF SampleEdge(i) /\ cpha = 1 THEN TxBit(txw, Len(rx) + 1) ELSE 0]

Do(i) == LegalInput(i) /\ \E wc \in BOOLEAN : Step(i, OutFor(i, wc))

\* Candidate inputs are built per kind of cycle (instead of filtering all of Inputs): an SCK edge
\* leaves SDI and word_out alone, a CS change leaves SCK and word_out alone, a quiet cycle may
\* change SDI and word_out.  LegalInput (in Do) still has the last word.
Flip       == [in EXCEPT !.sck = 1 - @]
Toggled(d) == [in EXCEPT !.cs = ~@, !.sdi = d]

Sample       == SampleEdge(Flip) /\ Do(Flip)
Shift        == in.cs /\ ~SampleEdge(Flip) /\ Do(Flip)
ForeignClock == ~in.cs /\ Do(Flip)
Select       == ~in.cs /\ \E d \in {0, 1} : Do(Toggled(d))
Deselect     == in.cs /\ \E d \in {0, 1} : Do(Toggled(d))
Hold         == \E d \in {0, 1}, w \in WoutAlpha : Do([in EXCEPT !.sdi = d, !.wout = w])

Next == Sample \/ Shift \/ Select \/ Deselect \/ ForeignClock \/ Hold
Spec == Init /\ [][Next]_vars

Bounded == Len(allbits) <= MaxBits * WS + 1 /\ nCompleted <= MaxWords

TypeOK == /\ WS \in WordSizes /\ cpol \in {0, 1} /\ cpha \in {0, 1} /\ msb \in BOOLEAN
          /\ Len(rx) <= WS /\ Len(pend) <= MaxLat
=============================================================================
