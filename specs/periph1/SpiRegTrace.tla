---------------------------- MODULE SpiRegTrace ----------------------------
(***************************************************************************)
(* Trace validation for SpiReg.  A trace is                                *)
(*   [cfg |-> [A, R, dflt, regs], steps |-> << event record, ... >>]       *)
(* one record per bus event issued by the harness' SPI host model:         *)
(*   e (kind), b (SDI bit of bit / mid events), a, v (poke),               *)
(*   sdo_lo, sdo_hi  lowest / highest SDO level seen while SCK was high,   *)
(*   ws[i]   cycles the write strobe of regs[i] was high during the event, *)
(*   vals[i] value of regs[i] after the event ("rw" registers, else <<>>), *)
(*   wv[i]   values on regs[i]'s write_signal in strobe cycles ("wo").     *)
(* All values are bit sequences, most-significant bit first.               *)
(***************************************************************************)
EXTENDS SpiReg, TLC, TLCExt, Json, IOUtils

Logs == JsonDeserialize(IOEnv.TRACE_FILE)

VARIABLES tid, l, status
tvars == <<vars, tid, l, status>>

ASSUME \A i \in 1..Len(Logs) : TLCSet(i, <<0, "ok">>)

TInit == /\ tid \in 1..Len(Logs)
         /\ l = 1
         /\ status = "ok"
         /\ LET c == Logs[tid].cfg IN InitCfg(c.A, c.R, c.dflt, c.regs)

TNext == /\ status = "ok"
         /\ l <= Len(Logs[tid].steps)
         /\ LET r == Logs[tid].steps[l]
                o == [sdo_lo |-> r.sdo_lo, sdo_hi |-> r.sdo_hi, ws |-> r.ws, vals |-> r.vals, wv |-> r.wv]
                x == Expect(r)
                err == OutcomeX(r, o, x).err IN
              /\ status' = err
              /\ IF err = "ok" THEN DoX(r, o, x) ELSE UNCHANGED vars
         /\ l' = l + 1
         /\ UNCHANGED tid

TSpec == TInit /\ [][TNext]_tvars

TraceProp == TypeOK /\ StrobedOncePerWrite /\ ReadsCurrentValue

Progress == TLCSet(tid, <<l - 1, IF TraceProp THEN status ELSE "prop_invariant">>)

Verdicts == JsonSerialize(IOEnv.VERDICT_FILE, [i \in 1..Len(Logs) |-> TLCGet(i)])
=============================================================================
