----------------------------- MODULE LinkTimers -----------------------------
(***************************************************************************)
(* U0 link maintenance timers [USB3.2 7.5.6.1] (C44, second half):         *)
(* LinkMaintenanceTimers of link/timers.py.  Explicit time: one unit = one *)
(* "ss" clock cycle; KeepCycles = 10 us, RecCycles = 1 ms in cycles of     *)
(* the clock the module was built for.                                     *)
(*                                                                         *)
(* Record r = [n, en, rx, pkt, tx, ka, rec, rst]: n consecutive cycles with     *)
(* these inputs (en = enable, rx = link command received, pkt = packet     *)
(* received, tx = link command transmitted) and these observed outputs     *)
(* (ka = schedule_keepalive, rec = transition_to_recovery).  n > 1 only    *)
(* for quiet stretches (no strobes in or out).                             *)
(*                                                                         *)
(*  Ref : ks / rs = cycles elapsed (while enabled) since the last link     *)
(*        command was sent / the last link command or packet was received; *)
(*        karmed / rarmed = the timer has not fired since.                 *)
(*        keepalive: due when ks = KeepCycles - 1 (the KeepCycles-th cycle *)
(*        of silence), one cycle either way tolerated;                     *)
(*        recovery: due when rs = RecCycles - 1, at most one cycle later,  *)
(*        never earlier.  Once a timer has fired and nothing re-armed it   *)
(*        (the keepalive was not sent, recovery was not entered) further   *)
(*        strobes are not constrained.                                     *)
(***************************************************************************)
EXTENDS Naturals, Sequences

CONSTANTS KeepCycles, RecCycles

TmInit == [ks |-> 0, karmed |-> TRUE, rs |-> 0, rarmed |-> TRUE]
Cap == 1000000000

Quiet(r) == ~r.rx /\ ~r.pkt /\ ~r.tx /\ ~r.ka /\ ~r.rec /\ ~r.rst

TmFailing(t, r) ==
    IF r.n > 1 THEN
        (IF ~Quiet(r) THEN "env_run_length_of_non_quiet_cycle"
         ELSE IF r.en /\ t.karmed /\ t.ks + r.n - 1 >= KeepCycles THEN "keepalive_late"
         ELSE IF r.en /\ t.rarmed /\ t.rs + r.n - 1 >= RecCycles THEN "recovery_late"
         ELSE "ok")
    ELSE IF r.ka /\ t.karmed /\ t.ks + 2 < KeepCycles THEN "keepalive_early"
    ELSE IF ~r.ka /\ t.karmed /\ t.ks >= KeepCycles THEN "keepalive_late"
    ELSE IF r.rec /\ t.rarmed /\ t.rs + 1 < RecCycles THEN "recovery_early"
    ELSE IF ~r.rec /\ t.rarmed /\ t.rs >= RecCycles THEN "recovery_late"
    ELSE "ok"

TmNext(t, r) ==
    IF r.rst THEN TmInit ELSE        \* clock-domain reset: both timers start over
    [ks     |-> IF r.tx \/ ~r.en THEN 0 ELSE IF t.ks + r.n > Cap THEN Cap ELSE t.ks + r.n,
     karmed |-> IF r.tx \/ ~r.en THEN TRUE ELSE t.karmed /\ ~r.ka,
     rs     |-> IF r.rx \/ r.pkt \/ ~r.en THEN 0 ELSE IF t.rs + r.n > Cap THEN Cap ELSE t.rs + r.n,
     rarmed |-> IF r.rx \/ r.pkt \/ ~r.en THEN TRUE ELSE t.rarmed /\ ~r.rec]
=============================================================================
