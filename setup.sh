#!/bin/sh
# Offline setup: syntax-check every specification with SANY and import the harness.
cd "$(dirname "$0")" || exit 2
exec /venv/bin/python tools/selfcheck.py
