---------------------------- MODULE MCTsDetector ----------------------------
(* Bounded instance of TrainingSets (detector side): the Env emits set words  *)
(* in order, foreign words, near-miss words and not-valid gaps in any legal   *)
(* interleaving; the emitter side stays idle.                                 *)
EXTENDS TrainingSets, TLC

CONSTANTS MaxWords,     \* valid words per behaviour
          MaxGaps

VARIABLES s, in,
          pos,      \* Env: words of the current set already sent (0 = between sets)
          run,      \* Env ghost: complete sets sent back to back since the last foreign word
          due,      \* Env ghost: detections due so far = sum over runs of run \div DetN
          dets,     \* ghost: detections reported
          nw, ng
vars == <<s, in, pos, run, due, dets, nw, ng>>

Idle == [start |-> FALSE, rdy |-> TRUE, hr |-> FALSE, lb |-> FALSE, ns |-> FALSE, ow |-> NoWord, done |-> FALSE]
Rec(w, det, cf) == [start |-> FALSE, rdy |-> TRUE, hr |-> FALSE, lb |-> FALSE, ns |-> FALSE, ow |-> NoWord, done |-> FALSE,
                    iw |-> w, det |-> det, dhr |-> cf.hr, dlb |-> cf.lb, dsd |-> cf.ns]
NoCfg == [hr |-> FALSE, lb |-> FALSE, ns |-> FALSE]
Init == /\ s = SInit /\ in = Rec(NoWord, FALSE, NoCfg) /\ pos = 0 /\ run = 0 /\ due = 0 /\ dets = 0 /\ nw = 0 /\ ng = 0

Cfgs == IF HasCfg THEN {0, 9} ELSE {0}          \* values of the link functionality symbol used by the Env
SetWordK(k, c) == IF HasCfg /\ k = 2 THEN W(<<SetWords[2][1], c, SetWords[2][3], SetWords[2][4]>>, 0)
                  ELSE W(SetWords[k], CtrlOf(k))
Foreign == { W(<<1, 2, 3, 4>>, 0),                               \* plain data
             W(SetWords[1], (FirstCtrl + 1) % 16),               \* first word with the wrong ctrl mask
             W(<<SetWords[SetLen][1], SetWords[SetLen][2], SetWords[SetLen][3], (SetWords[SetLen][4] + 1) % 256>>, 0) }

Cycle(w) ==
    \E det \in (IF s.d.owe # <<>> THEN Bool ELSE {FALSE}) :
      LET cf == IF det /\ HasCfg THEN CHOOSE c \in s.d.owe[1].cfgs : TRUE ELSE NoCfg
          r  == Rec(w, det, cf)
          j  == Judge(s, r)
      IN /\ j.f = "ok"
         /\ s' = j.n
         /\ in' = r
         /\ dets' = IF det THEN dets + 1 ELSE dets

Gap == /\ ng < MaxGaps
       /\ Cycle([d |-> SetWords[1], c |-> FirstCtrl, v |-> FALSE])
       /\ ng' = ng + 1 /\ UNCHANGED <<pos, run, due, nw>>
SetWord == /\ nw < MaxWords
           /\ \E c \in Cfgs : Cycle(SetWordK(pos + 1, c))
           /\ nw' = nw + 1
           /\ IF pos + 1 = SetLen
              THEN /\ pos' = 0 /\ run' = run + 1
                   /\ due' = IF (run + 1) % DetN = 0 THEN due + 1 ELSE due
              ELSE pos' = pos + 1 /\ UNCHANGED <<run, due>>
           /\ UNCHANGED ng
ForeignWord == /\ nw < MaxWords
               /\ \E w \in Foreign : Cycle(w)
               /\ nw' = nw + 1 /\ pos' = 0 /\ run' = 0 /\ UNCHANGED <<due, ng>>
Next == Gap \/ SetWord \/ ForeignWord
Spec == Init /\ [][Next]_vars

-----------------------------------------------------------------------------
(* Prop *)
\* C43: one detection for every DetN complete consecutive sets (idle gaps anywhere), none for anything else
OncePerBurst == dets + Len(s.d.owe) = due
\* the Ref's own counters agree with what the Env sent
CountsAgree == s.d.k = pos /\ s.d.cnt = run % DetN
TypeOK == s.d.k \in 0..(SetLen - 1) /\ s.d.cnt \in 0..(DetN - 1)
=============================================================================
