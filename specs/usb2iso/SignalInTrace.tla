--------------------------- MODULE SignalInTrace ---------------------------
(***************************************************************************)
(* Trace validation for SignalIn.  Logs is an array of traces              *)
(*   [cfg |-> [width, bigEndian, epNum, devAddr, signalDomain, syncCycles], *)
(*    steps |-> <<...>>]                                                   *)
(* recorded from a real USBSignalInEndpoint inside a real USBDevice; steps *)
(*   [e |-> "tok", pid, addr, ep, win, ack, resp]   a token sent by the    *)
(*        host; win = the values of `signal` (limb sequences, in time      *)
(*        order) in the cycles from cfg.syncCycles cycles before the first *)
(*        byte of the token to the first byte of the answer                *)
(*        (or to the end of the observation, if there was none); ack = the *)
(*        host then sent an ACK handshake; hd = the host sent a data       *)
(*        packet after the (OUT/SETUP) token; own = the endpoint drove its *)
(*        transmit stream during the event; resp = what the device put on  *)
(*        the bus ([kind |-> "none"] or [kind |-> "data", pid, payload,    *)
(*        crc_ok]);                                                        *)
(*   [e |-> "sof"]                                  start of frame.        *)
(* Whether a token is a poll of the endpoint is decided here.  Signal      *)
(* changes outside the windows are not logged: they must not matter.       *)
(*                                                                         *)
(* KfForeignAck is the named Env predicate of known finding                *)
(* C17-foreign-ack-advances-toggle: another device's IN transaction is     *)
(* acknowledged by the host while our packet is unacknowledged.            *)
(***************************************************************************)
EXTENDS SignalIn, TLC, TLCExt, Json, IOUtils

Logs == JsonDeserialize(IOEnv.TRACE_FILE)
TrConfigs == {Logs[i].cfg : i \in 1..Len(Logs)}

VARIABLES tid, l, status, kf
tvars == <<vars, tid, l, status, kf>>

ASSUME \A i \in 1..Len(Logs) : TLCSet(i, <<0, "ok">>)

Steps == Logs[tid].steps
Rec == Steps[l]

Range(s) == {s[i] : i \in 1..Len(s)}
Tag(f) == IF f = "ok" \/ ~kf THEN f ELSE f \o "@kf_foreign_ack"

Candidates(r) == {v \in Range(r.win) : Wire(v) = r.resp.payload}

FailingPoll(r) ==
    IF r.win = <<>> \/ \E v \in Range(r.win) : ~IsValue(v) THEN "env_window"
    ELSE IF r.resp.kind # "data" THEN "no_data_packet"
    ELSE IF ~r.resp.crc_ok THEN "packet_crc"
    ELSE IF r.resp.pid # PidOf(toggle) THEN "toggle"
    ELSE IF Len(r.resp.payload) # NBytes THEN "packet_length"
    ELSE IF pending # <<>> /\ r.resp.payload # Wire(pending[1]) THEN "retry_value"
    ELSE IF pending = <<>> /\ Candidates(r) = {} THEN "value_not_sampled_at_request"
    ELSE "ok"

\* own = this endpoint drove its transmit stream during the event.  After a token for another endpoint of the same
\* device the *device* may well answer (resp), but not this endpoint.
FailingOther(r) ==
    IF r.pid \notin TokenPids \/ (r.ack /\ r.pid # "IN") \/ (r.hd /\ r.pid \notin {"OUT", "SETUP"}) THEN "env_token"
    ELSE IF r.own THEN "unexpected_response"
    ELSE IF r.addr # DevAddr /\ r.resp.kind # "none" THEN "unexpected_response"
    ELSE "ok"

\* the carve-out is limited to acknowledged transactions of other device *addresses* (not visible to the token detector)
KfForeignAck(r) == r.ack /\ r.addr # DevAddr /\ pending # <<>>

TInit == /\ tid \in 1..Len(Logs)
         /\ conf = Logs[tid].cfg
         /\ InitState
         /\ l = 1
         /\ status = "ok"
         /\ kf = FALSE

StepPoll(r) == LET f == FailingPoll(r) IN
    /\ status' = Tag(f)
    /\ IF f = "ok"
       THEN /\ Poll(Range(r.win), IF pending = <<>> THEN CHOOSE v \in Candidates(r) : TRUE ELSE pending[1],
                    r.ack, TRUE)
            /\ sig' = r.win[Len(r.win)]
       ELSE UNCHANGED vars
    /\ UNCHANGED kf

StepOther(r) == LET f == FailingOther(r) IN
    /\ status' = Tag(f)
    /\ kf' = (kf \/ KfForeignAck(r))
    /\ IF f = "ok" THEN Other(r.pid, r.addr, r.ep, r.ack, r.hd) ELSE UNCHANGED vars

StepSof == /\ status' = "ok"
           /\ SofEvent
           /\ UNCHANGED kf

TNext == /\ status = "ok"
         /\ l <= Len(Steps)
         /\ LET r == Rec IN
              CASE r.e = "tok" -> IF ForUs(r.pid, r.addr, r.ep) THEN StepPoll(r) ELSE StepOther(r)
                [] r.e = "sof" -> StepSof
         /\ l' = l + 1
         /\ UNCHANGED tid

TSpec == TInit /\ [][TNext]_tvars

\* The logs only grow: the host-side theorem is evaluated on their newest entries on every state and in
\* full on the last state of a trace.
AtEnd == l > Len(Steps)
HostSeesNewest == /\ Len(latchedLog) - Len(hostLog) \in {0, 1}
                  /\ (pending = <<>> => Len(hostLog) = Len(latchedLog))
                  /\ (hostLog # <<>> => hostLog[Len(hostLog)] = latchedLog[Len(hostLog)])
TraceProp == TypeOK /\ ToggleSync /\ HostSeesNewest /\ (AtEnd => HostSeesLatchedValuesOnce)

\* After a failure (clause or Prop invariant) the constraint is FALSE: the trace is not followed further and a
\* later step cannot overwrite the verdict.
Verdict == IF status # "ok" THEN status ELSE IF TraceProp THEN "ok" ELSE Tag("prop_invariant")
Progress == TLCSet(tid, <<l - 1, Verdict>>) /\ Verdict = "ok"

Verdicts == JsonSerialize(IOEnv.VERDICT_FILE, [i \in 1..Len(Logs) |-> TLCGet(i)])
=============================================================================
