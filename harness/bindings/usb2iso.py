"""Engine `usb2iso` — isochronous / status / multi-byte USB2 endpoints vs specs/usb2iso/*.tla.

  C15  USBIsochronousStreamInEndpoint   IsoIn.tla / MCIsoIn / IsoInTrace        (bus-event grain)
  C16  USBIsochronousStreamOutEndpoint  IsoOut.tla / MCIsoOut / IsoOutTrace     (bus-event + stream-beat grain)
  C17  USBSignalInEndpoint              SignalIn.tla / MCSignalIn / SignalInTrace (bus-event grain)
  C29  USBMultibyteStreamInEndpoint     MultibyteIn.tla / MCMultibyteIn / MultibyteInTrace (cycle grain)

The DUT is always the real endpoint from the tree under test.  For C15/C16/C17 (and the second half of
C29) it sits inside a real `USBDevice(bus=UTMIInterface())` and is driven through the UTMI host model;
the Python side only drives, records and classifies — every verdict is TLC's.
"""
import os
import random as _random
from concurrent.futures import ThreadPoolExecutor

from .. import tlc
from ..core import use_repo
from ..pipeline import validate_group
from ..hosts import utmi

ENGINE = "usb2iso"
SPEC_DIR = "usb2iso"

META = {
    "C15": {
        "text": "IsoIn.tla specifies an isochronous IN endpoint at bus-event grain (SOF latches bytes_in_frame; each IN "
                "token is answered by min(left, MaxPkt) bytes taken in order from the stream, zero fill where the "
                "stream had no data, PID by packets-per-frame, ZLP when nothing is left). TLC proves the frame-level "
                "theorems (budget, exactness, packetisation, PID sequence, stream order, latch only at SOF) for every "
                "Env behaviour in the bounds; the real USBIsochronousStreamInEndpoint inside a real USBDevice is then "
                "driven over UTMI with TLC-simulated behaviours and seeded random frames (MaxPkt 1..64, 0..3xMaxPkt "
                "bytes, 0..5 IN tokens per frame, mid-frame bytes_in_frame changes, PHY stalls, stream valid "
                "patterns) and every recorded bus event is validated by TLC against the specification.",
        "note": "Assumes a legal host (no SOF inside a transaction, well-formed tokens) and bytes_in_frame stable from "
                "the SOF until 2 cycles after it. The PID of an extra ZLP (more IN tokens than the frame needs) and of "
                "packets before the first SOF is left free. Trusted: TLC, amaranth.sim, the UTMI host model.",
        "technique": "TLA+ event-grain spec, TLC exhaustive + batch trace validation of real-device UTMI traces",
        "design_ref": "DESIGN.md §5 C15",
    },
    "C16": {
        "text": "IsoOut.tla specifies an isochronous OUT endpoint: the output stream is the concatenation of whole, "
                "CRC-valid (CRC16 recomputed bit-serially by the spec), non-empty data packets that followed an OUT "
                "token for the endpoint, marked first/last; a packet is delivered entirely or not at all, and must be "
                "delivered when at least MaxPkt bytes of buffer were free at its token. TLC proves framing / no "
                "truncation / corrupted-contributes-nothing on the model; the real USBIsochronousStreamOutEndpoint "
                "in a real USBDevice is driven with packet sequences (sizes, data PIDs, damaged CRCs, foreign tokens) "
                "under consumer back-pressure so that the buffer is partially full, and the recorded token / data / "
                "stream-beat events are validated by TLC.",
        "note": "Legal host (one data packet per token, payload <= MaxPkt, well-formed tokens). Which packets may be "
                "dropped for lack of space is left free except for the must-deliver rule. Clean stimuli avoid the "
                "trigger of finding C16-space-checked-per-byte (spec predicate KfPerByteSpace); witness stimuli hit it.",
        "technique": "TLA+ event-grain relation (deliver/drop branch), TLC exhaustive + trace validation",
        "design_ref": "DESIGN.md §5 C16, Appendix A",
    },
    "C17": {
        "text": "SignalIn.tla specifies a status IN endpoint: a poll latches one of the values the signal had while the "
                "request arrived, the packet is that value in the configured byte order with the current toggle, an "
                "unacknowledged packet is repeated unchanged, the toggle flips exactly on ACK. TLC proves the host-side "
                "theorem (values accepted by a toggle-checking host = values latched, once each) on the model; the real "
                "USBSignalInEndpoint (widths 1..64, both endiannesses, signal_domain 'usb' and a foreign domain) in a real USBDevice "
                "with a second IN endpoint is polled with "
                "ACK / no-ACK / intervening-traffic patterns while the signal changes at arbitrary cycles, and every "
                "poll is validated by TLC.",
        "note": "The sampling instant is allowed anywhere between the first byte of the IN token and the first byte "
                "of the answer (reaching 3 cycles further back for a signal from another clock domain). Legal host.",
        "technique": "TLA+ event-grain spec, TLC exhaustive + trace validation",
        "design_ref": "DESIGN.md §5 C17",
    },
    "C29": {
        "text": "MultibyteIn.tla specifies the word-to-byte serialiser at cycle grain as a relation over the two stream "
                "handshakes: bytes handed to the byte endpoint are the little-endian bytes of the accepted words, each "
                "once, first on byte 0 of a first word, last on the final byte of a last word, and a word is accepted "
                "only when every byte of its predecessor has been taken. TLC proves the serialisation theorem on the "
                "model; the real USBMultibyteStreamInEndpoint (byte_width 1..4) is validated cycle by cycle both with "
                "arbitrary byte-endpoint ready patterns (inner endpoint replaced by a stub stream) and inside a real "
                "USBDevice where the real USBStreamInEndpoint supplies the ready pattern while the host reads.",
        "note": "Word-stream producer is unconstrained (valid may drop, payload may change while not accepted). Latency "
                "is free; all bytes must have been handed over at the end of a drained trace.",
        "technique": "TLA+ cycle-grain relation, TLC exhaustive + trace validation",
        "design_ref": "DESIGN.md §5 C29",
    },
}


def _cfg(name):
    with open(os.path.join(tlc.SPECS, SPEC_DIR, name)) as f:
        return f.read()


# ==========================================================================================================
# Common: running several TLC jobs side by side (each is its own JVM; results are used in submission order,
# so the outcome does not depend on scheduling)
# ==========================================================================================================

def run_parallel(thunks, max_workers=6):
    if not thunks:
        return []
    with ThreadPoolExecutor(max_workers=max_workers) as ex:
        futs = [ex.submit(t) for t in thunks]
        return [f.result() for f in futs]


class _RepProxy:
    """Stands in for the Report inside validate_group while groups are validated concurrently; the recorded
    calls are replayed on the real Report in submission order."""

    def __init__(self):
        self.calls = []

    def add_traces(self, n, steps):
        self.calls.append(("add_traces", (n, steps)))

    def violation(self, signature, what, replay):
        self.calls.append(("violation", (signature, what, replay)))
        return "recorded"

    def replay(self, rep):
        for name, args in self.calls:
            getattr(rep, name)(*args)


def validate_all(rep, module, items, classify, what_prefix="", dfs=False, jvms=2):
    """items = [(trace, meta), ...] with trace = {"cfg": {...}, "steps": [...]}: all configurations are validated
    by the same trace specification (the configuration is part of the trace); the items are dealt round-robin
    to `jvms` TLC runs that execute side by side."""
    cfg = _cfg(module + ".cfg.tmpl")
    parts = [items[k::jvms] for k in range(jvms)]
    parts = [p for p in parts if p]
    proxies = [_RepProxy() for _ in parts]

    def job(proxy, part):
        return lambda: validate_group(proxy, SPEC_DIR, module, cfg, part, classify=classify,
                                      steps_of=lambda t: len(t["steps"]), what_prefix=what_prefix, dfs=dfs)
    accepted = run_parallel([job(p, part) for p, part in zip(proxies, parts)])
    for p in proxies:
        p.replay(rep)
    return sum(accepted)


def _render(template_name, subst):
    """render_cfg, with Python lists rendered as TLA+ *sets* (cfg files have no sequences)"""
    sub = {k: ("{" + ", ".join(str(x) for x in v) + "}" if isinstance(v, list) else v) for k, v in subst.items()}
    return tlc.render_cfg(_cfg(template_name), sub)


def split_tag(status):
    """'clause@kf_xyz' -> ('clause', 'kf_xyz'); 'clause' -> ('clause', None)"""
    if "@" in status:
        a, b = status.split("@", 1)
        return a, b
    return status, None


# ==========================================================================================================
# Common: a real USBDevice with one endpoint under test, driven by the UTMI host model
# ==========================================================================================================

class ProbedHost(utmi.UTMIHost):
    """UTMIHost with a hook that runs *before* the bus is sampled in each cycle (to drive stream-side inputs);
    `extra_probe` (inherited) runs after all inputs of the cycle are set, before the clock edge.

    For systematic one-cycle alignments: `at(d, fn)` runs fn(ctx) at the start of the cycle d cycles from now
    (before pre_probe), and `stall_at(offsets)` makes the PHY refuse a byte (tx_ready = 0) in exactly those cycles."""

    pre_probe = None

    def __init__(self, *a, **kw):
        super().__init__(*a, **kw)
        self.timed = {}
        self.forced_stalls = set()

    def at(self, d, fn):
        self.timed.setdefault(self.cycle_no + d, []).append(fn)

    def stall_at(self, offsets):
        self.forced_stalls |= {self.cycle_no + d for d in offsets}

    async def cycle(self, ctx, active=0, valid=0, data=0):
        for fn in self.timed.pop(self.cycle_no, ()):
            fn(ctx)
        if self.pre_probe is not None:
            self.pre_probe(ctx, self)
        if self.cycle_no in self.forced_stalls:
            self.forced_stalls.discard(self.cycle_no)
            saved = (self.stall_prob, self.max_stall, self._stalls)
            self.stall_prob, self.max_stall, self._stalls = 2.0, 1 << 30, 0
            await super().cycle(ctx, active, valid, data)
            self.stall_prob, self.max_stall, self._stalls = saved
        else:
            await super().cycle(ctx, active, valid, data)

    async def response(self, ctx, timeout=14):
        """The device's answer to what was just sent, normalised for the trace."""
        r = await self.wait_response(ctx, timeout)
        out = {"kind": r.get("kind", "none")}
        if out["kind"] == "data":
            out.update(pid=r["pid"], payload=list(r["payload"]), crc_ok=bool(r["crc_ok"]))
        elif out["kind"] == "hs":
            out.update(pid=r["pid"])
        elif out["kind"] == "bad":
            out.update(why=r.get("why", "?"))
        return out


class DeviceRig:
    """One elaboration of USBDevice + endpoint serves many scenarios (sim.reset() in between)."""

    def __init__(self, make_endpoint, make_others=None, extra_clocks=None):
        use_repo()
        from amaranth.sim import Simulator
        from luna.gateware.usb.usb2.device import USBDevice
        from luna.gateware.interface.utmi import UTMIInterface
        self.dev = USBDevice(bus=UTMIInterface())
        self.ep = make_endpoint()
        self.dev.add_endpoint(self.ep)
        self.others = make_others() if make_others else []      # further endpoints of the same device
        for o in self.others:
            self.dev.add_endpoint(o)
        self.sim = Simulator(self.dev)
        self.sim.add_clock(1 / 12e6, domain="usb")
        for dom, period in (extra_clocks or {}).items():
            self.sim.add_clock(period, domain=dom, if_exists=True)
        self.sim.add_testbench(self._bench)
        self._first = True
        self._scenario = None
        self._host_kw = {}
        self._rng = None
        self.cycles = 0
        self.result = None

    async def _bench(self, ctx):
        utmi.prime_device(ctx, self.dev)
        host = ProbedHost(self.dev.utmi, self._rng, **self._host_kw)
        self.result = await self._scenario(ctx, host, self)
        self.cycles += host.cycle_no

    def run(self, scenario, rng, **host_kw):
        """scenario: async fn(ctx, host, rig) -> result"""
        self._scenario = scenario
        self._rng = rng
        self._host_kw = host_kw
        self.result = None
        if not self._first:
            self.sim.reset()
        self._first = False
        self.sim.run()
        return self.result


def foreign_token(kind, ep_num, rng):
    """A token (pid, addr, ep) that is not an IN token for endpoint `ep_num` of device address 0."""
    if kind == "in_other_ep":
        return ("IN", 0, rng.choice([e for e in range(1, 16) if e != ep_num]))
    if kind == "in_other_addr":
        return ("IN", rng.randint(1, 127), ep_num)
    if kind == "out_this_ep":
        return ("OUT", 0, ep_num)
    if kind == "setup_this_ep":
        return ("SETUP", 0, ep_num)
    raise ValueError(kind)


FOREIGN_KINDS = ("in_other_ep", "in_other_addr", "out_this_ep", "setup_this_ep")


# ==========================================================================================================
# C15 — isochronous IN
# ==========================================================================================================

def iso_src(k):
    """k-th byte (k >= 1) offered by the stream producer; must equal Src(k) of IsoIn.tla."""
    return ((37 * k + 11) % 251) + 1


def make_iso_in_rig(max_pkt, ep_num):
    def mk():
        from luna.gateware.usb.usb2.endpoints.isochronous_stream_in import USBIsochronousStreamInEndpoint
        return USBIsochronousStreamInEndpoint(endpoint_number=ep_num, max_packet_size=max_pkt)
    return DeviceRig(mk)


def iso_in_scenario(ops, ep_num, valid_rng):
    """ops: list of
         ("bif", n) | ("sof",) | ("badsof",) | ("idle", n)
         ("in", sv)         IN token for the endpoint; sv = list of bools, one per byte slot (missing slots: True)
         ("in", ("p", p))   ... stream valid drawn per cycle with probability p
         ("in", ("lowat", offs)) / ("in", ("highat", offs))   ... stream valid high except / only in the cycles
                            `offs` (counted from the end of the token)
         ("in", mode, stall_offs)   ... and the PHY stalls (tx_ready = 0) exactly in the cycles stall_offs
         ("tok", pid, addr, ep)   any other token
    Returns the steps (list of records for IsoInTrace)."""

    async def run(ctx, host, rig):
        ep = rig.ep
        tx = ep.interface.tx
        st = {"ptr": 0, "mode": ("p", 1.0), "slot": 0, "slots": [], "stray": 0, "cur_valid": 0, "cur_byte": 0,
              "base": None}

        def pre(ctx, host):
            mode = st["mode"]
            if mode[0] == "p":
                v = 1 if valid_rng.random() < mode[1] else 0
            elif mode[0] in ("lowat", "highat"):
                hit = st["base"] is not None and (host.cycle_no - st["base"]) in mode[1]
                v = int(hit) if mode[0] == "highat" else int(not hit)
            else:
                sv = mode[1]
                v = int(sv[st["slot"]]) if st["slot"] < len(sv) else 1
            st["cur_valid"] = v
            st["cur_byte"] = iso_src(st["ptr"] + 1) if v else valid_rng.randint(1, 255)
            ctx.set(ep.stream.valid, v)
            ctx.set(ep.stream.payload, st["cur_byte"])

        def post(ctx, host):
            taken = bool(st["cur_valid"] and ctx.get(ep.stream.ready))
            accepted = bool(ctx.get(tx.valid) and ctx.get(tx.ready))
            if accepted:
                st["slots"].append({"v": bool(st["cur_valid"]), "t": taken, "b": st["cur_byte"] if st["cur_valid"] else 0})
                st["slot"] += 1
            elif taken:
                st["stray"] += 1
            if taken:
                st["ptr"] += 1

        host.pre_probe = pre
        host.extra_probe = post
        steps = []
        frame = 0
        await host.idle(ctx, 4)
        for op in ops:
            k = op[0]
            if k == "bif":
                ctx.set(ep.bytes_in_frame, op[1])
                steps.append({"e": "bif", "n": op[1]})
            elif k == "idle":
                await host.idle(ctx, op[1])
            elif k in ("sof", "badsof"):
                frame = (frame + 1) % 2048
                await host.sof(ctx, frame, corrupt_crc=(k == "badsof"))
                await host.idle(ctx, 2)          # Env assumption: bytes_in_frame stable until here
                steps.append({"e": k})
            elif k in ("in", "tok"):
                st["slots"] = []
                st["slot"] = 0
                st["base"] = None
                if k == "in":
                    st["mode"] = op[1] if isinstance(op[1], tuple) else ("sv", list(op[1]))
                    tok = ("IN", 0, ep_num)
                else:
                    tok = op[1:4]
                await host.token(ctx, tok[0], tok[1], tok[2])
                st["base"] = host.cycle_no
                if k == "in" and len(op) > 2:
                    host.stall_at(op[2])
                resp = await host.response(ctx)
                await host.idle(ctx, 2)
                # stray = stream bytes taken since the previous record in cycles in which no byte was handed over
                steps.append({"e": "tok", "pid": tok[0], "addr": tok[1], "ep": tok[2],
                              "slots": st["slots"], "stray": st["stray"], "resp": resp})
                st["stray"] = 0
                st["mode"] = ("p", 1.0)
            else:
                raise ValueError(op)
        await host.idle(ctx, 12)
        steps.append({"e": "end", "stray": st["stray"]})
        return steps
    return run


def iso_in_random_ops(rng, max_pkt, ep_num, n_frames):
    """Frames with the interesting byte counts, 0..5 IN tokens at arbitrary positions, mid-frame changes of
    bytes_in_frame, foreign tokens, damaged SOFs, and stream-valid moods."""
    m = max_pkt
    interesting = sorted({0, 1, m - 1, m, m + 1, 2 * m - 1, 2 * m, 2 * m + 1, 3 * m - 1, 3 * m} & set(range(0, 3 * m + 1)))
    ops = []
    if rng.random() < 0.3:                      # IN tokens before the first frame
        for _ in range(rng.randint(1, 2)):
            ops.append(("in", ("p", 1.0)))
    for _ in range(n_frames):
        n = rng.choice(interesting) if rng.random() < 0.8 else rng.randint(0, 3 * m)
        ops.append(("bif", n))
        if rng.random() < 0.15:
            ops.append(("idle", rng.randint(1, 5)))
        ops.append(("sof",))
        need = max(1, -(-n // m))
        n_in = rng.choice([0, 1, need - 1, need, need, need, need + 1, need + 2, rng.randint(0, 5)])
        n_in = max(0, min(5, n_in))
        mood = rng.choice(["all", "all", "none", "half", "sparse", "dense", "slots"])
        body = []
        for _ in range(n_in):
            if mood == "all":
                body.append(("in", ("p", 1.0)))
            elif mood == "none":
                body.append(("in", ("p", 0.0)))
            elif mood == "half":
                body.append(("in", ("p", 0.5)))
            elif mood == "sparse":
                body.append(("in", ("p", 0.15)))
            elif mood == "dense":
                body.append(("in", ("p", 0.85)))
            else:
                body.append(("in", [rng.random() < 0.6 for _ in range(m)]))
        extras = []
        if rng.random() < 0.5:
            extras.append(("bif", rng.randint(0, 3 * m)))     # must not take effect before the next SOF
        if rng.random() < 0.35:
            extras.append(("tok",) + foreign_token(rng.choice(FOREIGN_KINDS), ep_num, rng))
        if rng.random() < 0.15:
            extras.append(("badsof",))
        if rng.random() < 0.3:
            extras.append(("idle", rng.randint(1, 12)))
        for x in extras:
            body.insert(rng.randint(0, len(body)), x)
        ops += body
    return ops


def iso_in_sweep_traces(max_pkt):
    """Systematic one-cycle alignments (no randomness): for frames of 1, MaxPkt and MaxPkt+1 bytes, at every cycle
    offset d = 0..15 after the IN token the stream's valid drops for one / two cycles (or is high for that one cycle
    only), the PHY stalls for one / two cycles, both coincide, or the valid drop follows the stall; plus the
    SOF-to-IN gap and the instant at which bytes_in_frame changes around the SOF.  Returns [(ops, origin)]."""
    m = max_pkt
    out = []
    for n in (1, m, m + 1):
        need = -(-n // m)
        for kind in ("low1", "low2", "high1", "stall1", "stall2", "low_and_stall", "low_after_stall"):
            ops = []
            for d in range(0, 16):
                low = {"low1": [d], "low2": [d, d + 1], "low_and_stall": [d], "low_after_stall": [d + 1]}.get(kind, [])
                stall = {"stall1": [d], "stall2": [d, d + 1], "low_and_stall": [d], "low_after_stall": [d]}.get(kind, [])
                mode = ("highat", [d]) if kind == "high1" else ("lowat", low)
                ops += [("bif", n), ("sof",), ("in", mode, stall)]
                ops += [("in", ("p", 1.0))] * (need - 1 + (1 if d % 4 == 0 else 0))
            out.append((ops, "sweep/%s/bytes=%d" % (kind, n)))
    ops = []
    for d in range(0, 14):          # IN token d+2 cycles after the SOF; bytes_in_frame changes d % 4 cycles before it
        ops += [("bif", 2 * m), ("idle", d % 4), ("sof",), ("idle", d), ("bif", 1),
                ("in", ("p", 1.0)), ("in", ("p", 1.0)), ("in", ("p", 1.0))]
    for d in range(0, 14):          # ... and d+2 cycles after the SOF (must wait for the next frame)
        ops += [("bif", m + 1), ("sof",), ("idle", d), ("bif", 3 * m), ("idle", 13 - d), ("in", ("p", 1.0)), ("in", ("p", 1.0))]
    out.append((ops, "sweep/sof-gap-and-bif-timing"))
    return out


def iso_in_ops_from_behaviour(beh):
    """(config, ops) of a behaviour generated by TLC from MCIsoIn"""
    conf = beh[0][1]["conf"]
    ops = []
    for _, st in beh[1:]:
        ev = st["ev"]
        e = ev["e"]
        if e == "bif":
            ops.append(("bif", ev["n"]))
        elif e in ("sof", "badsof"):
            ops.append((e,))
        elif e == "tok":
            if "sv" in ev:
                ops.append(("in", [bool(x) for x in ev["sv"]]))
            else:
                ops.append(("tok", ev["pid"], ev["addr"], ev["ep"]))
    return conf, ops


def classify_iso_in(trace, matched, status, meta):
    steps = trace["steps"]
    rec = steps[matched - 1] if 0 < matched <= len(steps) else {}
    pattern = "other"
    if rec.get("e") == "tok" and rec.get("resp", {}).get("kind") == "data":
        pattern = "len%d_pid%s" % (len(rec["resp"]["payload"]), rec["resp"]["pid"])
    return {"clause": status, "pattern": pattern}


def check_C15(rep):
    quick = rep.tier == "quick"
    rep.rule = ("IN tokens answered by the real endpoint with a data packet and validated against IsoIn.tla; distinct by "
                "(MaxPkt, bytes requested, packet index in frame, payload length, PID, stream-valid class, PHY stalls)")
    rep.assume("legal host: well-formed tokens, no SOF inside a transaction, isochronous IN data is never handshaken")
    rep.assume("bytes_in_frame in 0..3*MaxPkt and stable from the SOF packet until 2 cycles after it; it may change "
               "at any other time")
    rep.assume("PID of a zero-length packet beyond the packets the frame needs, and of packets before the first SOF, "
               "is not constrained")
    rep.assume("stream producer offers the byte sequence Src(k); valid may be high or low in any cycle")

    # 1. exhaustive exploration of the specification + TLC-simulated behaviours (JVMs side by side)
    bounds = [{"MaxPkts": [2], "MaxFrames": 2, "MaxPos": 3, "MaxNpk": 4}] if quick else \
        [{"MaxPkts": [2, 3], "MaxFrames": 2, "MaxPos": 5, "MaxNpk": 4}, {"MaxPkts": [2], "MaxFrames": 3, "MaxPos": 4, "MaxNpk": 4}]
    thunks = [(lambda b=b: tlc.model_check(SPEC_DIR, "MCIsoIn", _render("MCIsoIn.cfg.tmpl", b),
                                           workers=6 if quick else None, timeout=3000)) for b in bounds]
    thunks.append(lambda: tlc.simulate(SPEC_DIR, "MCIsoIn", _render("MCIsoIn_sim.cfg.tmpl", {"MaxPkts": [2, 3] if quick else [1, 2, 3, 4]}),
                                       num=50 if quick else 500, depth=30, seed=rep.seed * 11 + 3))
    results = run_parallel(thunks)
    for b, res in zip(bounds, results):
        rep.add_mc("MCIsoIn %s" % b, res, b)

    # 2. stimuli
    jobs = []        # (max_pkt, ep_num, ops, origin, host_kw)
    for i, beh in enumerate(results[-1]):
        conf, ops = iso_in_ops_from_behaviour(beh)
        jobs.append((conf["maxPkt"], conf["epNum"], ops, "tlc-simulate", {"stall_prob": 0.0 if i % 2 == 0 else 0.3}))
    rnd = [(1, 2), (2, 1), (3, 1), (4, 7), (8, 15), (16, 1)] if quick else \
        [(1, 2), (2, 1), (3, 1), (4, 7), (5, 4), (8, 15), (16, 1), (32, 9), (64, 1)]
    for mp, epn in rnd:
        n_tr = (6 if mp <= 8 else 3) if quick else (40 if mp <= 16 else 10)
        for i in range(n_tr):
            kw = {"stall_prob": [0.0, 0.25, 0.6][i % 3], "gap_prob": [0.0, 0.3][i % 2]}
            jobs.append((mp, epn, iso_in_random_ops(rep.rng, mp, epn, 8 if quick else 14), "random", kw))

    for mp, epn in ([(3, 1)] if quick else [(3, 1), (2, 1), (8, 15)]):
        for ops, origin in iso_in_sweep_traces(mp):
            jobs.append((mp, epn, ops, origin, {}))

    # 3. run on the real device
    rigs = {}
    items = []
    sampled = set()
    for mp, epn, ops, origin, kw in jobs:
        key = (mp, epn)
        if key not in rigs:
            rigs[key] = make_iso_in_rig(mp, epn)
        rig = rigs[key]
        c0 = rig.cycles
        steps = rig.run(iso_in_scenario(ops, epn, _random.Random(rep.rng.random())), _random.Random(rep.rng.random()), **kw)
        rep.add_eval(rig.cycles - c0)
        req = None
        idx = 0
        bif = 0
        for r in steps:
            if r["e"] == "bif":
                bif = r["n"]
            elif r["e"] == "sof":
                req, idx = bif, 0
            elif r["e"] == "tok" and (r["pid"], r["addr"], r["ep"]) == ("IN", 0, epn):
                if r["resp"].get("kind") == "data":
                    vs = [x["v"] for x in r["slots"]]
                    cls = "none" if not any(vs) else ("all" if all(vs) else "mixed")
                    rep.nontriv((mp, req, idx, len(r["resp"]["payload"]), r["resp"]["pid"], cls, kw.get("stall_prob", 0) > 0))
                idx += 1
        trace = {"cfg": {"maxPkt": mp, "epNum": epn, "devAddr": 0}, "steps": steps}
        items.append((trace, {"dut": "USBIsochronousStreamInEndpoint", "max_packet_size": mp, "endpoint": epn,
                              "origin": origin, "host": kw}))
        if key not in sampled:
            sampled.add(key)
            rep.sample({"max_packet_size": mp, "origin": origin, "first_events": steps[:5]})

    # 4. validate with TLC (the configuration travels with each trace)
    validate_all(rep, "IsoInTrace", items, classify_iso_in, what_prefix="C15 ")


# ==========================================================================================================
# C16 — isochronous OUT
# ==========================================================================================================

DATA_PIDS = ("DATA0", "DATA1", "DATA2", "MDATA")


def make_iso_out_rig(max_pkt, buf, ep_num):
    def mk():
        from luna.gateware.usb.usb2.endpoints.isochronous_stream_out import USBIsochronousStreamOutEndpoint
        return USBIsochronousStreamOutEndpoint(endpoint_number=ep_num, max_packet_size=max_pkt, buffer_size=buf)
    rig = DeviceRig(mk)
    rig.ep_num, rig.max_pkt, rig.buf = ep_num, max_pkt, buf
    return rig


class _IsoOutBench:
    """Shared machinery of the C16 scenarios: consumer model (pre), stream-beat recorder (post), packet sender."""

    def __init__(self, ctx, host, rig, rng):
        self.ctx, self.host, self.rig, self.rng = ctx, host, rig, rng
        self.trace = []
        self.ready_p = 0.0          # probability that the consumer is ready in a cycle
        self.reads = 0              # stream beats seen so far
        self.quiet = 0              # consecutive cycles with ready = 1 and valid = 0
        self.next_byte = 1
        ep = rig.ep
        host.pre_probe = self._pre
        host.extra_probe = self._post
        self._ep = ep

    def ready_for(self, d, n, level=1.0):
        """d cycles from now the consumer's ready level becomes `level` for n cycles (n = None: for good)"""
        def on(ctx):
            self._saved_p = self.ready_p
            self.ready_p = level

        def off(ctx):
            self.ready_p = self._saved_p
        self.host.at(d, on)
        if n is not None:
            self.host.at(d + n, off)

    def _pre(self, ctx, host):
        r = 1 if (self.ready_p >= 1.0 or (self.ready_p > 0.0 and self.rng.random() < self.ready_p)) else 0
        self._r = r
        ctx.set(self._ep.stream.ready, r)

    def _post(self, ctx, host):
        s = self._ep.stream
        v = ctx.get(s.valid)
        if v and self._r:
            self.trace.append({"e": "rd", "d": ctx.get(s.p.data), "f": bool(ctx.get(s.p.first)), "l": bool(ctx.get(s.p.last))})
            self.reads += 1
        self.quiet = self.quiet + 1 if (self._r and not v) else 0

    def payload(self, n):
        out = []
        for _ in range(n):
            out.append(self.next_byte)
            self.next_byte = self.next_byte % 255 + 1
        return out

    async def token(self, pid, addr, ep):
        await self.host.token(self.ctx, pid, addr, ep)
        self.trace.append({"e": "tok", "pid": pid, "addr": addr, "ep": ep})

    async def data(self, pid, payload, corrupt=0, gaps=None):
        n0 = len(self.host.device_packets)
        octets = utmi.data_bytes(pid, payload, corrupt_crc=corrupt)
        await self.host.send_raw(self.ctx, octets, gaps=gaps)
        self.trace.append({"e": "data", "pid": pid, "payload": list(payload), "crc": octets[-2:]})
        return n0

    async def drain_and_end(self):
        self.ready_p = 1.0
        self.quiet = 0
        for _ in range(4000):
            await self.host.idle(self.ctx, 1)
            if self.quiet >= 14:
                break
        self.trace.append({"e": "end"})


def iso_out_ops_scenario(ops, rng):
    """Scripted scenario (TLC behaviours, witnesses, alignment sweeps): ops =
       ("tok", pid, addr, ep[, timed]) | ("data", pid, payload, corrupt[, timed[, gaps]]) | ("pulse", n) |
       ("idle", n) | ("ready", p) | ("drain",)
       timed = [(d, n, level)]: d cycles after the end of that packet the consumer's ready level becomes `level`
       for n cycles (None: for good); gaps[i] = rx_valid-low cycles before byte i of the packet (PID = byte 0)."""
    async def run(ctx, host, rig):
        b = _IsoOutBench(ctx, host, rig, rng)
        await host.idle(ctx, 4)
        for op in ops:
            k = op[0]
            if k == "tok":
                await b.token(op[1], op[2], op[3])
                for d, n, level in (op[4] if len(op) > 4 else ()):
                    b.ready_for(d, n, level)
                await host.idle(ctx, 2)
            elif k == "data":
                await b.data(op[1], op[2], op[3], gaps=op[5] if len(op) > 5 else None)
                for d, n, level in (op[4] if len(op) > 4 else ()):
                    b.ready_for(d, n, level)
                await host.idle(ctx, 2)
            elif k == "drain":
                b.ready_p = 1.0
                b.quiet = 0
                for _ in range(2000):
                    await host.idle(ctx, 1)
                    if b.quiet >= 10:
                        break
            elif k == "pulse":
                old = b.ready_p
                b.ready_p = 1.0
                await host.idle(ctx, op[1])
                b.ready_p = old
            elif k == "ready":
                b.ready_p = op[1]
            elif k == "idle":
                await host.idle(ctx, op[1])
        await b.drain_and_end()
        return b.trace, len(host.device_packets)
    return run


def iso_out_random_scenario(rng, n_packets, clean):
    """Random host/consumer behaviour.  With clean=True every good packet for the endpoint is sent only when
    either all of its bytes or none of them find MaxPkt free bytes (steered by a running estimate `occ` of the
    buffer occupancy: bytes of packets expected to be delivered minus stream beats observed); with clean=False
    there is no steering (witness class of finding C16-space-checked-per-byte)."""
    async def run(ctx, host, rig):
        b = _IsoOutBench(ctx, host, rig, rng)
        mp, buf, epn = rig.max_pkt, rig.buf, rig.ep_num
        delivered = 0                      # bytes of packets expected in the output stream (steering only)
        await host.idle(ctx, 4)
        mood = "stalled"
        for _ in range(n_packets):
            # consumer mood for the time around this packet
            if rng.random() < 0.4:
                mood = rng.choice(["stalled", "stalled", "slow", "fast", "always"])
            b.ready_p = {"stalled": 0.0, "slow": 0.15, "fast": 0.6, "always": 1.0}[mood]
            if rng.random() < 0.5:
                await host.idle(ctx, rng.randint(1, 20))
            if rng.random() < 0.15:          # let the consumer catch up for a while
                old = b.ready_p
                b.ready_p = 1.0
                await host.idle(ctx, rng.randint(1, 2 * buf))
                b.ready_p = old
            kind = rng.choice(["good"] * 6 + ["bad", "bad", "foreign", "zlp"])
            n = rng.choice([1, mp, mp, mp - 1 if mp > 1 else 1, rng.randint(1, mp)])
            pid = rng.choice(DATA_PIDS)
            if kind == "foreign":
                fk = rng.choice(["out_other_ep", "out_other_addr", "setup_this_ep", "in_this_ep"])
                if fk == "out_other_ep":
                    await b.token("OUT", 0, rng.choice([e for e in range(0, 16) if e != epn]))
                elif fk == "out_other_addr":
                    await b.token("OUT", rng.randint(1, 127), epn)
                elif fk == "setup_this_ep":
                    await b.token("SETUP", 0, epn)
                else:
                    await b.token("IN", 0, epn)
                    await host.idle(ctx, rng.randint(8, 14))
                    continue
                await host.idle(ctx, rng.randint(1, 3))
                await b.data("DATA0" if fk == "setup_this_ep" else pid, b.payload(8 if fk == "setup_this_ep" and mp >= 8 else n))
                await host.idle(ctx, rng.randint(2, 6))
                continue
            if kind == "zlp":
                n = 0
            if clean and kind == "good":
                space = buf - (delivered - b.reads)
                if space >= mp + n - 1:
                    fits = True                               # every byte sees >= MaxPkt free: must be delivered
                elif space >= mp:
                    n = space - mp + 1                        # shorten the packet so that it fits the rule
                    fits = True
                else:
                    fits = False                              # no byte may see MaxPkt free: consumer must not read
                    b.ready_p = 0.0
            await b.token("OUT", 0, epn)
            await host.idle(ctx, rng.randint(1, 3))
            corrupt = rng.randint(1, 16) if kind == "bad" else 0
            await b.data(pid, b.payload(n), corrupt)
            await host.idle(ctx, rng.randint(4, 8))           # commit / discard happens in here
            if clean and kind == "good" and fits:
                delivered += n
            if not clean and kind == "good":
                delivered += 0
        await b.drain_and_end()
        return b.trace, len(host.device_packets)
    return run


def iso_out_sweep_traces(mp, epn):
    """Systematic one-cycle alignments between the consumer and the bus (no randomness), always from a buffer
    holding at most one byte, so that every good packet must be delivered whole: the consumer opens / opens for one
    cycle / closes at every offset d = 0..15 after the end of a data packet (its commit lies in that range) or of
    its OUT token, for a 1-byte and a full-size packet, with the CRC right or damaged; and an rx_valid gap of one
    or two cycles before every byte position of a short packet.  Returns [(ops, origin)]."""
    out = []
    nb = [0]

    def pl(n):
        v = [(nb[0] + i) % 255 + 1 for i in range(n)]
        nb[0] += n
        return v
    tok = ("tok", "OUT", 0, epn)
    for ln in (1, mp):
        for kind in ("open_after_data", "pulse_after_data", "close_after_data", "second_packet_open_after_data",
                     "pulse_after_token", "bad_crc_close_after_data", "bad_crc_pulse_after_token"):
            ops = []
            for d in range(0, 16):
                if kind == "open_after_data":
                    ops += [("ready", 0.0), tok, ("data", "DATA0", pl(ln), 0, [(d, None, 1.0)]), ("idle", 24)]
                elif kind == "pulse_after_data":
                    ops += [("ready", 0.0), tok, ("data", "DATA0", pl(ln), 0, [(d, 1, 1.0)]), ("idle", 22)]
                elif kind == "close_after_data":
                    ops += [("ready", 1.0), tok, ("data", "DATA1", pl(ln), 0, [(d, 3, 0.0)]), ("idle", 24)]
                elif kind == "second_packet_open_after_data":
                    ops += [("ready", 0.0), tok, ("data", "DATA0", pl(1), 0), tok,
                            ("data", "DATA0", pl(ln), 0, [(d, None, 1.0)]), ("idle", 24)]
                elif kind == "pulse_after_token":
                    ops += [("ready", 0.0), tok, ("data", "DATA0", pl(1), 0), ("idle", 6),
                            ("tok", "OUT", 0, epn, [(d, 1, 1.0)]), ("data", "MDATA", pl(ln), 0), ("idle", 8)]
                elif kind == "bad_crc_close_after_data":
                    ops += [("ready", 1.0), tok, ("data", "DATA0", pl(ln), 1 + d, [(d, 2, 0.0)]), ("idle", 20)]
                elif kind == "bad_crc_pulse_after_token":
                    ops += [("ready", 0.0), tok, ("data", "DATA0", pl(1), 0), ("idle", 6),
                            ("tok", "OUT", 0, epn, [(d, 1, 1.0)]), ("data", "DATA2", pl(ln), 16 - d), ("idle", 8)]
                ops += [("drain",)]
            out.append((ops, "sweep/%s/len=%d" % (kind, ln)))
    for ln in (1, 2):
        ops = []
        for stalled in (False, True):
            for width in (1, 2):
                for pos in range(0, ln + 3):                 # PID, payload bytes, CRC lo, CRC hi
                    gaps = [0] * (ln + 3)
                    gaps[pos] = width
                    if pos + 1 < ln + 3 and width == 2:
                        gaps[pos + 1] = 1                    # "two in a row"
                    ops += [("ready", 0.0 if stalled else 1.0), tok, ("data", "DATA0", pl(ln), 0, [], gaps), ("idle", 8), ("drain",)]
        out.append((ops, "sweep/rx-gap-positions/len=%d" % ln))
    return out


def iso_out_space_gap_sweeps(mp, buf, epn, full):
    """Systematic sweep of  free space at the OUT token  x  rx_valid gap position/length  x  consumer drain inside
    the packet (no randomness).  Every case starts from an empty buffer with the consumer stalled; fill packets
    (each finding >= MaxPkt free, hence delivered) leave exactly F free bytes, F in {MaxPkt-1, MaxPkt, MaxPkt+1,
    2*MaxPkt-1}; then a max-size or short packet is sent with a gap of 1..3 idle cycles after its byte k (k = 1, 2,
    last; the PHY always leaves such gaps at full speed) and, in the drain cases, the consumer takes n = 1 or MaxPkt
    entries starting at every offset d after the token.  At F = MaxPkt-1 the endpoint may deliver or drop, but the
    whole packet; from F = MaxPkt on it must deliver it.  Returns [(ops, origin)]."""
    out = []
    nb = [0]

    def pl(n):
        v = [(nb[0] + i) % 255 + 1 for i in range(n)]
        nb[0] += n
        return v
    tok = ("tok", "OUT", 0, epn)

    def case(F, ln, gaps, timed):
        ops = [("drain",), ("ready", 0.0)]
        fill = buf - F
        while fill > 0:
            n = min(mp, fill)
            ops += [tok, ("data", "DATA0", pl(n), 0)]
            fill -= n
        ops += [("idle", 4), ("tok", "OUT", 0, epn, timed), ("data", "DATA1", pl(ln), 0, [], gaps), ("idle", 10)]
        return ops
    spaces = [F for F in sorted({mp - 1, mp, mp + 1, 2 * mp - 1}) if 0 <= F <= buf]
    lens = sorted({mp, min(2, mp)})
    for F in spaces:
        ops = []
        for ln in lens:
            for k in sorted({1, min(2, ln), ln}):
                for g in (1, 2, 3):
                    gaps = [0] * (ln + 3)
                    gaps[k + 1] = g                      # idle cycles after payload byte k (before byte k+1 / the CRC)
                    ops += case(F, ln, gaps, [])
        ops += [("drain",)]
        out.append((ops, "sweep/space=%d/gap-after-byte" % F))
        for ln in lens:
            for n in (1, mp):
                ops = []
                for d in (range(0, 14) if full else range(0, 14, 2)):
                    gaps = [0] * (ln + 3)
                    gaps[2] = 2                          # two idle cycles right after the first byte
                    if ln > 1:
                        gaps[ln + 1] = 1
                    ops += case(F, ln, gaps, [(d, n, 1.0)])
                ops += [("drain",)]
                out.append((ops, "sweep/space=%d/len=%d/drain-%d-at-offset" % (F, ln, n)))
    return out


def iso_out_ops_from_behaviour(beh, rng):
    """(config, ops) of a behaviour generated by TLC from MCIsoOut"""
    conf = beh[0][1]["conf"]
    ops = []
    for _, st in beh[1:]:
        ev = st["ev"]
        if ev["e"] == "tok":
            ops.append(("tok", ev["pid"], ev["addr"], ev["ep"]))
        elif ev["e"] == "data":
            ops.append(("data", rng.choice(DATA_PIDS), [x % 256 for x in ev["payload"]], 0 if ev["good"] else rng.randint(1, 16)))
        elif ev["e"] == "rd":
            ops.append(("pulse", 1))
    return conf, ops


def iso_out_witness_ops(mp, buf, epn, variant):
    """The scenario of DESIGN Appendix A, scaled to (MaxPkt, BufSize): with the consumer stalled, packets are
    sent until one arrives with  MaxPkt <= free < MaxPkt + len - 1."""
    ops = [("ready", 0.0)]
    nb = [1]

    def pl(n):
        out = list(range(nb[0], nb[0] + n))
        nb[0] += n
        return [x % 255 + 1 for x in out]
    first = max(1, min(mp, buf - 2 * mp + 2)) if variant == 0 else 1
    # first packet leaves  MaxPkt <= free < 2*MaxPkt - 1  (possible whenever BufSize allows it)
    free = buf
    seq = []
    while free - first >= 2 * mp - 1 and len(seq) < 64:
        seq.append(first)
        free -= first
    if free >= 2 * mp - 1:
        seq.append(free - (2 * mp - 2))
    for n in seq:
        ops += [("tok", "OUT", 0, epn), ("data", "DATA0", pl(n), 0)]
    ops += [("tok", "OUT", 0, epn), ("data", "DATA0", pl(mp), 0)]          # the packet that gets truncated
    ops += [("tok", "OUT", 0, epn), ("data", "DATA0", pl(mp), 0)]
    if variant == 1:
        ops += [("pulse", 2), ("tok", "OUT", 0, epn), ("data", "DATA1", pl(mp), 0)]
    return ops


def classify_iso_out(trace, matched, status, meta):
    clause, tag = split_tag(status)
    if tag:
        return {"clause": "partial_delivery", "pattern": tag, "first_clause": clause}
    return {"clause": clause, "pattern": meta.get("class", "other")}


def check_C16(rep):
    quick = rep.tier == "quick"
    rep.rule = ("data packets sent to the real endpoint and output-stream beats validated against IsoOut.tla; distinct by "
                "(MaxPkt, BufSize, packet class, payload length, free space at the token, consumer reading during the packet)")
    rep.assume("legal host: well-formed tokens, exactly one data packet after a token, payload <= MaxPkt")
    rep.assume("CRC validity of every data packet is decided by the specification (bit-serial CRC16), not by the host model")
    rep.assume("a packet that found >= MaxPkt free bytes at its token must be delivered; below that the endpoint may "
               "deliver or drop, but always the whole packet")
    rep.assume("clean stimuli satisfy ~KfPerByteSpace for every good packet (IsoOutTrace.tla); witness stimuli do not")

    bounds = [{"Sizes": [204], "MaxPackets": 3}] if quick else \
        [{"Sizes": [204, 305], "MaxPackets": 4}, {"Sizes": [206], "MaxPackets": 4}]
    sim_sizes = [204, 305] if quick else [204, 305, 306, 205]
    thunks = [(lambda b=b: tlc.model_check(SPEC_DIR, "MCIsoOut", _render("MCIsoOut.cfg.tmpl", b),
                                           workers=6 if quick else None, timeout=3000)) for b in bounds]
    thunks.append(lambda: tlc.simulate(SPEC_DIR, "MCIsoOut", _render("MCIsoOut_sim.cfg.tmpl", {"Sizes": sim_sizes}),
                                       num=40 if quick else 400, depth=22, seed=rep.seed * 13 + 5))
    results = run_parallel(thunks)
    for b, res in zip(bounds, results):
        rep.add_mc("MCIsoOut %s (Sizes coded 100*MaxPkt+BufSize)" % b, res, b)

    rigs = {}

    def rig_for(mp, buf, epn):
        key = (mp, buf, epn)
        if key not in rigs:
            rigs[key] = make_iso_out_rig(mp, buf, epn)
        return rigs[key]

    items = []
    sampled = set()

    def run(mp, buf, epn, scenario, origin, cls, kw):
        rig = rig_for(mp, buf, epn)
        c0 = rig.cycles
        steps, ndev = rig.run(scenario, _random.Random(rep.rng.random()), **kw)
        rep.add_eval(rig.cycles - c0)
        if ndev:
            rep.drift.append("isochronous OUT endpoint device transmitted %d packet(s) (%s)" % (ndev, origin))
        space = buf
        tok_space = None
        reads_in_pkt = False
        for r in steps:                      # coverage accounting only (free space = BufSize - unread beats seen so far)
            if r["e"] == "tok":
                tok_space, reads_in_pkt = space, False
            elif r["e"] == "rd":
                space += 1
                reads_in_pkt = True
            elif r["e"] == "data":
                rep.nontriv((mp, buf, cls, len(r["payload"]), min(tok_space if tok_space is not None else buf, 2 * mp), reads_in_pkt))
        trace = {"cfg": {"maxPkt": mp, "bufSize": buf, "epNum": epn, "devAddr": 0}, "steps": steps}
        items.append((trace, {"dut": "USBIsochronousStreamOutEndpoint", "max_packet_size": mp, "buffer_size": buf,
                              "endpoint": epn, "origin": origin, "class": cls, "host": kw}))
        if (mp, buf, cls) not in sampled:
            sampled.add((mp, buf, cls))
            rep.sample({"max_packet_size": mp, "buffer_size": buf, "origin": origin, "first_events": steps[:6]})

    # (a) TLC-simulated behaviours (the kf tag computed by the trace spec tells clean from witness)
    for i, beh in enumerate(results[-1]):
        conf, ops = iso_out_ops_from_behaviour(beh, rep.rng)
        run(conf["maxPkt"], conf["bufSize"], conf["epNum"], iso_out_ops_scenario(ops, _random.Random(rep.rng.random())),
            "tlc-simulate", "simulated", {"gap_prob": [0.0, 0.3][i % 2]})
    # (b) clean random stimuli
    rnd = [(2, 4, 1), (3, 5, 1), (4, 8, 3), (4, 11, 1), (8, 16, 15), (8, 20, 5)] if quick else \
        [(1, 2, 1), (2, 4, 1), (3, 5, 1), (3, 7, 4), (4, 8, 3), (4, 11, 1), (8, 16, 15), (8, 20, 5), (16, 32, 2), (64, 128, 1), (64, 150, 9)]
    for mp, buf, epn in rnd:
        for i in range((5 if mp <= 8 else 2) if quick else (30 if mp <= 16 else 6)):
            run(mp, buf, epn, iso_out_random_scenario(_random.Random(rep.rng.random()), 14 if quick else 30, clean=True),
                "random-clean", "clean", {"gap_prob": [0.0, 0.3, 0.0][i % 3]})
    # (b') systematic alignment sweeps (clean by construction)
    for mp, buf, epn in ([(4, 8, 3)] if quick else [(4, 8, 3), (8, 20, 5), (2, 4, 1)]):
        for ops, origin in iso_out_sweep_traces(mp, epn):
            run(mp, buf, epn, iso_out_ops_scenario(ops, _random.Random(1)), origin, "clean", {})
    # (b'') free space at the token x rx_valid gap x consumer drain inside the packet
    for mp, buf, epn, full in ([(4, 8, 3, True), (3, 5, 1, False)] if quick else
                               [(4, 8, 3, True), (3, 5, 1, True), (8, 20, 5, False), (2, 4, 1, True), (4, 11, 1, True)]):
        for ops, origin in iso_out_space_gap_sweeps(mp, buf, epn, full):
            run(mp, buf, epn, iso_out_ops_scenario(ops, _random.Random(1)), origin, "space-gap-sweep", {})
    # (c) witness stimuli for finding C16-space-checked-per-byte
    for mp, buf, epn in ([(4, 8, 3), (3, 5, 1), (8, 20, 5)] if quick else [(4, 8, 3), (3, 5, 1), (8, 20, 5), (2, 4, 1), (16, 32, 2)]):
        for variant in (0, 1):
            run(mp, buf, epn, iso_out_ops_scenario(iso_out_witness_ops(mp, buf, epn, variant), _random.Random(1)),
                "witness-appendix-A", "witness", {"gap_prob": [0.0, 0.5][variant]})
        for i in range(2 if quick else 8):
            run(mp, buf, epn, iso_out_random_scenario(_random.Random(rep.rng.random()), 14, clean=False),
                "random-unsteered", "witness", {"gap_prob": [0.4, 0.0][i % 2]})

    validate_all(rep, "IsoOutTrace", items, classify_iso_out, what_prefix="C16 ", dfs=True)
    n_w = sum(1 for _, m in items if m["class"] == "witness")
    rep.notes.append("%d witness traces for finding C16-space-checked-per-byte were driven; %s" % (
        n_w, "rejected with its signature (see known_findings)" if rep.known else
        "all accepted (the defect is not present in this tree)"))


# ==========================================================================================================
# C17 — status (signal) IN
# ==========================================================================================================

SYNC_CYCLES = 3      # look-back of the sampling window for a signal from another clock domain (2-flop synchroniser + 1)


def make_signal_rig(width, big, ep_num, domain="usb", domain_period=1 / 12e6):
    def mk():
        from luna.gateware.usb.usb2.endpoints.status import USBSignalInEndpoint
        return USBSignalInEndpoint(width=width, endpoint_number=ep_num, endianness="big" if big else "little",
                                   signal_domain=domain)
    other_ep = ep_num % 15 + 1

    def mk_others():
        # a second IN endpoint of the same device that always has data: its acknowledged IN transactions are
        # bus traffic the status endpoint must ignore
        from luna.gateware.usb.usb2.endpoints.stream import USBStreamInEndpoint
        return [USBStreamInEndpoint(endpoint_number=other_ep, max_packet_size=8)]
    rig = DeviceRig(mk, mk_others, extra_clocks=None if domain == "usb" else {domain: domain_period})
    rig.ep_num, rig.width, rig.big, rig.other_ep = ep_num, width, big, other_ep
    rig.domain = domain
    rig.sync_cycles = 0 if domain == "usb" else SYNC_CYCLES
    rig.cfg = {"width": width, "bigEndian": bool(big), "epNum": ep_num, "devAddr": 0, "signalDomain": domain,
               "syncCycles": rig.sync_cycles}
    return rig


def limbs(v, width):
    """integer -> 16-bit limbs, least significant first (what SignalIn.tla calls a value of the signal)"""
    return [(v >> (16 * i)) & 0xFFFF for i in range((width + 15) // 16)]


def signal_scenario(ops, rng):
    """ops: ("sig", v) | ("idle", n[, busy]) | ("sof",) |
            ("poll", ack, racy, busy[, extras])   IN token for the endpoint; ack: the host acknowledges the answer;
                                            racy: the signal may change while the request arrives;
                                            busy: probability per cycle of a signal change outside the window;
                                            extras (alignment sweeps): {"sig_at": [(d, v)]} the signal becomes v
                                            d cycles after the first cycle of the token, {"stall": [offs]} the PHY
                                            stalls exactly offs cycles after the end of the token, {"ack_delay": n}
                                            idle cycles between the answer and the ACK
            ("tok", pid, addr, ep, ack[, hd[, extras]])   any other token; ack: it is an IN transaction of another
                                            endpoint of this device (rig.other_ep answers with data) or of another
                                            device (its data is not visible to us), which the host acknowledges;
                                            hd: the host sends a data packet after the OUT/SETUP token"""
    async def run(ctx, host, rig):
        ep = rig.ep
        width = rig.width
        st = {"win_open": False, "win": [], "p": 0.0, "racy": False, "own": False, "ob": 1, "hist": []}
        other = rig.others[0]

        def pre(ctx, host):
            ctx.set(other.stream.valid, 1)             # the other IN endpoint: one-byte transfers, always available
            ctx.set(other.stream.last, 1)
            ctx.set(other.stream.first, 1)
            ctx.set(other.stream.payload, st["ob"])
            p = st["p"]
            if st["win_open"]:
                p = 0.25 if st["racy"] else 0.0
            if p and rng.random() < p:
                ctx.set(ep.signal, rng.getrandbits(width))

        def post(ctx, host):
            if ctx.get(other.stream.ready):
                st["ob"] = st["ob"] % 255 + 1
            if ctx.get(ep.interface.tx.valid):
                st["own"] = True
            if rig.sync_cycles:                          # values of the last sync_cycles cycles (foreign clock domain)
                st["hist"] = (st["hist"] + [ctx.get(ep.signal)])[-rig.sync_cycles:]
            if st["win_open"]:
                if ctx.get(rig.dev.utmi.tx_valid):
                    st["win_open"] = False
                else:
                    v = ctx.get(ep.signal)
                    if not st["win"] or st["win"][-1] != v:
                        st["win"].append(v)

        host.pre_probe = pre
        host.extra_probe = post
        steps = []
        frame = 0
        ctx.set(ep.signal, rng.getrandbits(width))
        await host.idle(ctx, 4)
        for op in ops:
            k = op[0]
            if k == "sig":
                ctx.set(ep.signal, op[1] & ((1 << width) - 1))
            elif k == "idle":
                st["p"] = op[2] if len(op) > 2 else 0.0
                await host.idle(ctx, op[1])
                st["p"] = 0.0
            elif k == "sof":
                frame = (frame + 1) % 2048
                await host.sof(ctx, frame)
                steps.append({"e": "sof"})
            elif k in ("poll", "tok"):
                extras = {}
                hd = False
                if k == "poll":
                    ack, racy, busy = op[1:4]
                    extras = op[4] if len(op) > 4 else {}
                    tok = ("IN", 0, rig.ep_num)
                else:
                    tok, ack, racy, busy = op[1:4], op[4], False, 0.0
                    hd = bool(op[5]) if len(op) > 5 else False
                    extras = op[6] if len(op) > 6 else {}
                    if tok[2] == "other":
                        tok = (tok[0], tok[1], rig.other_ep)
                    busy = extras.get("busy", 0.0)
                st["own"] = False
                if rig.sync_cycles and not racy and not extras.get("no_settle"):
                    await host.idle(ctx, rig.sync_cycles)     # clean stimuli: the signal is stable around the request
                st["win"] = []
                for v in st["hist"] + [ctx.get(ep.signal)]:
                    if not st["win"] or st["win"][-1] != v:
                        st["win"].append(v)
                st["racy"] = racy
                st["win_open"] = True
                st["p"] = busy
                for d, v in extras.get("sig_at", ()):
                    host.at(d, lambda ctx, v=v: ctx.set(ep.signal, v & ((1 << width) - 1)))
                await host.token(ctx, tok[0], tok[1], tok[2])
                host.stall_at(extras.get("stall", ()))
                if hd:
                    await host.idle(ctx, 2)
                    await host.data(ctx, "DATA0", [rng.randrange(256) for _ in range(8 if tok[0] == "SETUP" else rng.randint(0, 4))])
                resp = await host.response(ctx, timeout=12)
                st["win_open"] = False
                rec = {"e": "tok", "pid": tok[0], "addr": tok[1], "ep": tok[2], "win": [limbs(v, width) for v in st["win"]], "ack": False,
                       "hd": hd, "resp": resp}
                same_dev_foreign = (k == "tok" and tok[1] == 0)
                if ack and (resp["kind"] == "data" if (k == "poll" or same_dev_foreign) else True):
                    await host.idle(ctx, extras["ack_delay"] if "ack_delay" in extras else rng.randint(1, 3))
                    await host.handshake(ctx, "ACK")
                    rec["ack"] = True
                await host.idle(ctx, rng.randint(1, 4))
                st["p"] = 0.0
                rec["own"] = st["own"]
                steps.append(rec)
            else:
                raise ValueError(op)
        return steps
    return run


def signal_random_ops(rng, n_polls, ep_num, clean):
    """ACK / no-ACK / intervening traffic patterns; the signal changes between polls, during the answer and (racy
    polls) while the request arrives.  clean=True never puts another device's acknowledged IN transaction between an
    unacknowledged answer and its retry (trigger KfForeignAck of SignalInTrace.tla); clean=False does."""
    ops = []
    pending = False                        # steering only: last answer not acknowledged
    for _ in range(n_polls):
        if rng.random() < 0.35:
            kind = rng.choice(FOREIGN_KINDS + ("sof", "other_device_acked", "other_ep_acked", "other_ep_acked", "out_other_ep_data"))
            if not clean and pending and rng.random() < 0.6:
                kind = "other_device_acked"
            if kind == "other_ep_acked":        # 1..2 complete, acknowledged IN transactions of another endpoint of this device
                for _ in range(rng.randint(1, 2)):
                    ops.append(("tok", "IN", 0, "other", rng.random() < 0.85, False, {"busy": rng.choice([0.0, 0.3])}))
            elif kind == "out_other_ep_data":   # OUT / SETUP transaction (token + data) on another endpoint
                ops.append(("tok", rng.choice(["OUT", "SETUP"]), 0, rng.choice([0, "other"]), False, True))
            elif kind == "sof":
                ops.append(("sof",))
            elif kind == "other_device_acked":
                if pending != clean:                 # clean: only while nothing is pending; witness: only while pending
                    ops.append(("tok", "IN", rng.randint(1, 127), rng.randint(0, 15), True))
            else:
                ops.append(("tok",) + foreign_token(kind, ep_num, rng) + (False,))
        if rng.random() < 0.4:
            ops.append(("idle", rng.randint(1, 12), rng.choice([0.0, 0.1, 0.4])))
        ack = rng.random() < 0.6
        ops.append(("poll", ack, rng.random() < 0.12, rng.choice([0.0, 0.15, 0.4, 0.4])))
        pending = not ack
    return ops


def signal_sweep_traces(width):
    """Systematic one-cycle alignments (no randomness in the timing): one change of the signal at every cycle from
    3 cycles before the IN token to well after the answer; the ACK after 0..14 idle cycles; the retry token 0..14
    cycles after an unacknowledged answer (the signal having changed in between); a PHY stall of one / two cycles
    at every offset 0..15 after the token.  Returns [(ops, origin)]."""
    top = (1 << width) - 1
    a, b = 0x965A3CC3A55A3C96 & top, 0x69A5C33C5AA5C369 & top
    if a == b:
        b = a ^ 1
    out = []
    ops = []
    for d in range(-8, 26):
        x, y = (a, b) if d % 2 else (b, a)
        if d < 0:      # the signal changes -d cycles before the request (inside / outside a synchroniser's look-back)
            ops += [("sig", x), ("idle", 6), ("sig", y), ("idle", -d), ("poll", True, False, 0.0, {"no_settle": True})]
        else:
            ops += [("sig", x), ("idle", 6), ("poll", True, False, 0.0, {"sig_at": [(d, y)], "no_settle": True})]
        ops += [("idle", 3), ("poll", d % 3 != 0, False, 0.0), ("poll", True, False, 0.0)]
    out.append((ops, "sweep/signal-change-offset"))
    ops = []
    for d in range(0, 15):
        x, y = (a, b) if d % 2 else (b, a)
        ops += [("sig", x), ("poll", True, False, 0.0, {"ack_delay": d}), ("sig", y), ("poll", True, False, 0.0, {"ack_delay": 14 - d})]
    out.append((ops, "sweep/ack-delay"))
    ops = []
    for d in range(0, 15):
        x, y = (a, b) if d % 2 else (b, a)
        ops += [("sig", x), ("idle", 4), ("poll", False, False, 0.0), ("sig", y), ("idle", d), ("poll", d % 2 == 0, False, 0.0),
                ("poll", True, False, 0.0), ("poll", True, False, 0.0)]
    out.append((ops, "sweep/retry-token-offset"))
    for n_other in (1, 2):          # lost ACK; n acknowledged IN transactions of another endpoint d cycles later; retry
        ops = []
        for d in range(0, 15):
            x, y = (a, b) if d % 2 else (b, a)
            ops += [("sig", x), ("idle", 4), ("poll", False, False, 0.0), ("sig", y), ("idle", d)]
            for i in range(n_other):
                ops += [("tok", "IN", 0, "other", True, False, {"ack_delay": (d + 5 * i) % 15})]
            if d % 3 == 0:
                ops += [("tok", "OUT", 0, "other", False, True)]
            ops += [("idle", 14 - d), ("poll", d % 2 == 0, False, 0.0), ("poll", True, False, 0.0), ("poll", True, False, 0.0)]
        out.append((ops, "sweep/lost-ack-then-%d-acked-in-on-other-endpoint" % n_other))
    for n in (1, 2):
        ops = []
        for d in range(0, 16):
            x, y = (a, b) if d % 2 else (b, a)
            ops += [("sig", x), ("idle", 4), ("poll", True, False, 0.0, {"stall": list(range(d, d + n)), "sig_at": [(10 + d % 5, y)]}),
                    ("poll", True, False, 0.0)]
        out.append((ops, "sweep/phy-stall-%d" % n))
    return out


def signal_ops_from_behaviour(beh):
    """(config, ops) of a behaviour generated by TLC from MCSignalIn"""
    conf = beh[0][1]["conf"]
    ops = []
    for _, st in beh[1:]:
        ev = st["ev"]
        if ev["e"] == "sig":
            ops.append(("sig", sum(x << (16 * i) for i, x in enumerate(ev["v"]))))
        elif ev["e"] == "sof":
            ops.append(("sof",))
        elif ev["e"] == "tok":
            if "win" in ev:
                ops.append(("poll", bool(ev["ack"]), len(ev["win"]) > 1, 0.3 if len(ev["win"]) > 1 else 0.0))
            else:
                ops.append(("tok", ev["pid"], ev["addr"], ev["ep"], bool(ev["ack"]), bool(ev["hd"])))
    return conf, ops


def classify_signal(trace, matched, status, meta):
    clause, tag = split_tag(status)
    if tag:
        return {"clause": "toggle_or_value_after_foreign_ack", "pattern": tag, "first_clause": clause}
    return {"clause": clause, "pattern": meta.get("class", "other")}


def check_C17(rep):
    quick = rep.tier == "quick"
    rep.rule = ("polls answered by the real endpoint and validated against SignalIn.tla; distinct by (width, endianness, "
                "fresh/retry, toggle, acked, signal changed in the sampling window, PHY stalls)")
    rep.assume("legal host: well-formed tokens and handshakes; an ACK is sent only after a data packet")
    rep.assume("sampling instant free between the first byte of the IN token and the first byte of the answer")
    rep.assume("clean stimuli satisfy ~KfForeignAck (SignalInTrace.tla): no acknowledged IN transaction of another "
               "device between an unacknowledged answer and its retry; witness stimuli contain one")

    # Widths are coded 2*width + bigEndian
    bounds = [{"Widths": [19], "Values": [0, 171, 427], "MaxPolls": 3}] if quick else \
        [{"Widths": [19, 32, 3], "Values": [1, 258, 427], "MaxPolls": 4}, {"Widths": [18], "Values": [0, 171, 427, 300], "MaxPolls": 4}]
    thunks = [(lambda b=b: tlc.model_check(SPEC_DIR, "MCSignalIn", _render("MCSignalIn.cfg.tmpl", b),
                                           workers=6 if quick else None, timeout=3000)) for b in bounds]
    thunks.append(lambda: tlc.simulate(SPEC_DIR, "MCSignalIn",
                                       _render("MCSignalIn_sim.cfg.tmpl", {"Widths": [19, 48], "Values": [0, 171, 427, 300, 66051, 16777215, 4660]}),
                                       num=40 if quick else 300, depth=30, seed=rep.seed * 17 + 9))
    results = run_parallel(thunks)
    for b, res in zip(bounds, results):
        rep.add_mc("MCSignalIn %s (Widths coded 2*width+bigEndian)" % b, res, b)

    rigs = {}
    items = []
    sampled = set()

    def run(width, big, epn, ops, origin, cls, kw, domain="usb", period=1 / 12e6):
        key = (width, big, epn, domain, period)
        if key not in rigs:
            rigs[key] = make_signal_rig(width, big, epn, domain, period)
        rig = rigs[key]
        c0 = rig.cycles
        steps = rig.run(signal_scenario(ops, _random.Random(rep.rng.random())), _random.Random(rep.rng.random()), **kw)
        rep.add_eval(rig.cycles - c0)
        pend = False
        for r in steps:
            if r["e"] == "tok" and (r["pid"], r["addr"], r["ep"]) == ("IN", 0, epn) and r["resp"].get("kind") == "data":
                rep.nontriv((width, big, domain, "retry" if pend else "fresh", r["resp"]["pid"], r["ack"], len(r["win"]) > 1,
                             kw.get("stall_prob", 0) > 0))
                pend = not r["ack"]
        items.append(({"cfg": dict(rig.cfg), "steps": steps},
                      {"dut": "USBSignalInEndpoint", "width": width, "endianness": "big" if big else "little",
                       "signal_domain": domain, "endpoint": epn, "origin": origin, "class": cls, "host": kw}))
        if (width, big, domain) not in sampled:
            sampled.add((width, big, domain))
            rep.sample({"width": width, "endianness": "big" if big else "little", "signal_domain": domain,
                        "origin": origin, "first_events": steps[:2]})

    # TLC's Env contains the foreign acknowledged transaction at any point: the kf tag classifies those traces
    for i, beh in enumerate(results[-1]):
        conf, ops = signal_ops_from_behaviour(beh)
        run(conf["width"], conf["bigEndian"], conf["epNum"], ops, "tlc-simulate", "simulated", {"stall_prob": [0.0, 0.3][i % 2]})
    # DUT configurations: signal_domain x width x endianness.  A foreign domain gets its own clock in the simulation
    # (same frequency as "usb", and a different one); the signal itself is driven by the test bench.
    widths = (1, 8, 9, 12, 16, 24, 32, 40, 64)
    if quick:       # every width in both domains, endianness alternating so that each (width, endianness) occurs once per pair
        cfgs = [(w, bool(k % 2), "usb", 1 / 12e6) for k, w in enumerate(widths)] + \
               [(w, not bool(k % 2), "sync", [1 / 12e6, 1 / 19e6][k % 2]) for k, w in enumerate(widths)]
    else:
        cfgs = [(w, big, dom, per) for w in widths + (5, 17, 30) for big in (False, True)
                for dom, per in (("usb", 1 / 12e6), ("sync", 1 / 12e6), ("fast", 1 / 31e6))]
    ep_of = lambda w, big: 1 if (w, big) in ((9, True), (24, False)) else 1 + (w % 15)
    for width, big, dom, per in cfgs:
        epn = ep_of(width, big)
        for i in range(2 if quick else 12):
            kw = {"stall_prob": [0.0, 0.3][i % 2], "gap_prob": [0.0, 0.0, 0.3][i % 3]}
            run(width, big, epn, signal_random_ops(rep.rng, 12 if quick else 25, epn, clean=True), "random-clean", "clean", kw, dom, per)
    sweeps = [(16, True, "usb", 1 / 12e6), (9, False, "usb", 1 / 12e6), (40, True, "sync", 1 / 12e6)] if quick else \
        [(16, True, "usb", 1 / 12e6), (9, False, "usb", 1 / 12e6), (40, True, "sync", 1 / 12e6), (12, False, "sync", 1 / 19e6),
         (64, False, "usb", 1 / 12e6), (1, False, "usb", 1 / 12e6), (24, True, "fast", 1 / 31e6)]
    for width, big, dom, per in sweeps:
        for ops, origin in signal_sweep_traces(width):
            run(width, big, ep_of(width, big), ops, origin, "clean", {}, dom, per)
    for width, big, epn in ([(9, True, 1), (24, False, 1)] if quick else [(9, True, 1), (24, False, 1), (1, False, 2), (16, True, 2)]):
        for i in range(3 if quick else 10):
            run(width, big, epn, signal_random_ops(rep.rng, 12, epn, clean=False), "random-foreign-ack", "witness", {})

    validate_all(rep, "SignalInTrace", items, classify_signal, what_prefix="C17 ")
    n_w = sum(1 for _, m in items if m["class"] == "witness")
    rep.notes.append("%d witness traces for finding C17-foreign-ack-advances-toggle were driven; %s" % (
        n_w, "rejected with its signature (see known_findings)" if rep.known else
        "all accepted (the defect is not present in this tree)"))


# ==========================================================================================================
# C29 — multi-byte IN
# ==========================================================================================================

class _patched_inner_endpoint:
    """While active, `USBStreamInEndpoint` as seen by USBMultibyteStreamInEndpoint.elaborate() is replaced by
    `factory`; every instance created is appended to `created`.  Nothing in /repo is modified."""

    def __init__(self, factory_of):
        self.factory_of = factory_of
        self.created = []

    def __enter__(self):
        import luna.gateware.usb.usb2.endpoints.stream as S
        self.S = S
        self.orig = S.USBStreamInEndpoint
        S.USBStreamInEndpoint = self.factory_of(self.orig, self.created)
        return self

    def __exit__(self, *a):
        self.S.USBStreamInEndpoint = self.orig


def make_multibyte_unit(byte_width):
    """The real serialiser with the inner byte endpoint replaced by a bare stream whose `ready` the testbench drives."""
    use_repo()
    from amaranth import Elaboratable, Module
    from luna.gateware.stream import StreamInterface
    from luna.gateware.usb.usb2.endpoint import EndpointInterface
    import luna.gateware.usb.usb2.endpoints.stream as S
    from ..sim import CycleDriver

    def factory_of(orig, created):
        class StubByteEndpoint(Elaboratable):
            def __init__(self, *, endpoint_number, max_packet_size):
                self.stream = StreamInterface()
                self.interface = EndpointInterface()
                created.append(self)

            def elaborate(self, platform):
                return Module()
        return StubByteEndpoint

    with _patched_inner_endpoint(factory_of) as pt:
        dut = S.USBMultibyteStreamInEndpoint(byte_width=byte_width, endpoint_number=1, max_packet_size=64)
        ws = dut.stream
        # CycleDriver builds the Simulator, which elaborates the design: the stub is created in there
        drv = CycleDriver(dut, {"wv": ws.valid, "wp": ws.payload, "wf": ws.first, "wl": ws.last},
                          {"wr": ws.ready}, domain="usb", clocks={"usb": 1 / 60e6})
        if len(pt.created) != 1:
            raise RuntimeError("expected exactly one inner byte endpoint, got %d" % len(pt.created))
        stub = pt.created[0]
    drv.inputs["br"] = stub.stream.ready
    drv.outputs.update({"bv": stub.stream.valid, "bd": stub.stream.payload, "bf": stub.stream.first, "bl": stub.stream.last})
    return drv


def multibyte_records(raw):
    """Per-cycle samples -> trace records; cycles in which neither handshake completes are stuttering steps of the
    specification and are left out."""
    out = []
    for r in raw:
        if not ((r["wv"] and r["wr"]) or (r["bv"] and r["br"])):
            continue
        out.append({"e": "c", "wv": bool(r["wv"]), "lo": r["wp"] & 0xFFFF, "hi": (r["wp"] >> 16) & 0xFFFF,
                    "wf": bool(r["wf"]), "wl": bool(r["wl"]), "wr": bool(r["wr"]),
                    "bv": bool(r["bv"]), "bd": r["bd"], "bf": bool(r["bf"]), "bl": bool(r["bl"]), "br": bool(r["br"])})
    return out


def multibyte_random_stimulus(rng, n, byte_width):
    """Word producer (valid may drop, payload/first/last change freely while not accepted) and byte-endpoint ready
    pattern, in moods; closed by a drain phase."""
    stim = []
    left = 0
    mood_w = mood_b = None
    top = (1 << (8 * byte_width)) - 1
    for _ in range(n):
        if left == 0:
            mood_w = rng.choice([0.0, 0.2, 0.5, 0.9, 1.0, 1.0])
            mood_b = rng.choice([0.0, 0.1, 0.5, 0.5, 0.9, 1.0, 1.0])
            left = rng.randint(1, 14)
        left -= 1
        stim.append({"wv": rng.random() < mood_w, "wp": rng.randint(0, top), "wf": rng.random() < 0.3,
                     "wl": rng.random() < 0.3, "br": rng.random() < mood_b})
    for _ in range(byte_width + 6):
        stim.append({"wv": 0, "wp": rng.randint(0, top), "wf": rng.random() < 0.5, "wl": rng.random() < 0.5, "br": 1})
    return stim


def multibyte_sweep_stimuli(bw):
    """Systematic one-cycle alignments for the stub assembly (no randomness in the timing).  One case = word 1
    offered at cycle 0; the byte endpoint not ready before cycle b; word 2 offered at cycle a (for one cycle only, or
    held for the rest of the case); one extra not-ready cycle at c (around a, or none); for all a, b in 0..bw+2 and
    first/last flags cycling through their four combinations; every case ends with a drain phase.  Cases with equal
    (variant, a) are concatenated into one stimulus.  Returns [(stimulus, origin)]."""
    top = (1 << (8 * bw)) - 1
    span = 2 * bw + 8
    out = []
    n = 0
    for variant in ("pulse", "hold"):
        for a in range(0, bw + 3):
            stim = []
            for b in range(0, bw + 3):
                for c in (None, a - 1, a, a + 1):
                    n += 1
                    w1 = (0x04030201 + 0x11111111 * (n % 13)) & top
                    w2 = (0xA0B0C0D0 + 0x01010101 * (n % 11)) & top
                    f1, l1, f2, l2 = n & 1, (n >> 1) & 1, (n >> 2) & 1, (n >> 3) & 1
                    for t in range(span):
                        wv2 = (t == a) if variant == "pulse" else (a <= t < span - bw - 3)
                        if t == 0:
                            rec = {"wv": 1, "wp": w1, "wf": f1, "wl": l1}
                        elif wv2 and t > 0:
                            rec = {"wv": 1, "wp": w2, "wf": f2, "wl": l2}
                        else:
                            rec = {"wv": 0, "wp": (w1 ^ w2) & top, "wf": 1 - f2, "wl": 1 - l2}
                        rec["br"] = int(t >= b and t != c) if t < span - bw - 3 else 1
                        stim.append(rec)
            out.append((stim, "sweep/%s/second-word-at-%d" % (variant, a)))
    return out


def multibyte_stimulus_from_behaviour(beh):
    """(byte width, stimulus) of a behaviour generated by TLC from MCMultibyteIn"""
    byte_width = beh[0][1]["conf"]["byteWidth"]
    stim = []
    for _, st in beh[1:]:
        io = st["io"]
        if io.get("e") != "c":
            continue
        w = io["w"]
        stim.append({"wv": bool(io["wv"]), "wp": w["lo"] + (w["hi"] << 16), "wf": bool(w["f"]), "wl": bool(w["l"]),
                     "br": bool(io["br"])})
    for _ in range(byte_width + 6):
        stim.append({"wv": 0, "wp": 0, "wf": 0, "wl": 0, "br": 1})
    return byte_width, stim


def make_multibyte_device_rig(byte_width, max_pkt, ep_num):
    """The real endpoint (with its real inner USBStreamInEndpoint, captured as it is created) in a real device."""
    use_repo()

    def factory_of(orig, created):
        class Spy(orig):
            def __init__(self, **kw):
                super().__init__(**kw)
                created.append(self)
        Spy.__name__ = orig.__name__
        return Spy

    def mk():
        from luna.gateware.usb.usb2.endpoints.stream import USBMultibyteStreamInEndpoint
        return USBMultibyteStreamInEndpoint(byte_width=byte_width, endpoint_number=ep_num, max_packet_size=max_pkt)
    with _patched_inner_endpoint(factory_of) as pt:
        rig = DeviceRig(mk)
        rig.inner = pt.created[-1]
    rig.ep_num, rig.byte_width, rig.max_pkt = ep_num, byte_width, max_pkt
    return rig


def multibyte_device_scenario(rng, n_words):
    """Word producer with moods; the host polls the endpoint (ACK mostly, sometimes not) so that the real byte
    endpoint's ready pattern comes from its real buffers.  Only cycles in which a handshake completes are logged
    (all other cycles are stuttering steps of the specification)."""
    async def run(ctx, host, rig):
        ep, inner = rig.ep, rig.inner
        ws, bs = ep.stream, inner.stream
        top = (1 << (8 * rig.byte_width)) - 1
        st = {"p": 0.0, "offered": 0, "accepted": 0}
        trace = []
        wire = []

        def pre(ctx, host):
            v = st["accepted"] < n_words and rng.random() < st["p"]
            ctx.set(ws.valid, int(v))
            ctx.set(ws.payload, rng.randint(0, top))
            ctx.set(ws.first, int(rng.random() < 0.3))
            ctx.set(ws.last, int(rng.random() < 0.25))

        def post(ctx, host):
            wv, wr = ctx.get(ws.valid), ctx.get(ws.ready)
            bv, br = ctx.get(bs.valid), ctx.get(bs.ready)
            if (wv and wr) or (bv and br):
                wp = ctx.get(ws.payload)
                trace.append({"e": "c", "wv": bool(wv), "lo": wp & 0xFFFF, "hi": (wp >> 16) & 0xFFFF,
                              "wf": bool(ctx.get(ws.first)), "wl": bool(ctx.get(ws.last)), "wr": bool(wr),
                              "bv": bool(bv), "bd": ctx.get(bs.payload), "bf": bool(ctx.get(bs.first)),
                              "bl": bool(ctx.get(bs.last)), "br": bool(br)})
                if wv and wr:
                    st["accepted"] += 1

        host.pre_probe = pre
        host.extra_probe = post
        await host.idle(ctx, 4)
        toggle = None
        naks = 0
        stopped = False
        for _ in range(40 * n_words + 200):
            if rng.random() < 0.3:
                st["p"] = rng.choice([0.0, 0.1, 0.5, 1.0, 1.0])
            if rng.random() < 0.3:
                await host.idle(ctx, rng.randint(1, 30))
            ack = rng.random() < 0.85
            r = await host.in_transaction(ctx, 0, rig.ep_num, ack=ack, timeout=14)
            if r.get("kind") == "data":
                naks = 0
                if ack and r.get("crc_ok") and r["pid"] != toggle:
                    toggle = r["pid"]
                    wire += list(r["payload"])
            else:
                naks += 1
                await host.idle(ctx, 3)
            if st["accepted"] >= n_words and not stopped:
                stopped = True               # the producer has just gone silent: the drain phase starts here
                naks = 0
            if stopped and naks >= 3:
                break
        await host.idle(ctx, 12)
        trace.append({"e": "end"})
        sent = [r["bd"] for r in trace if r.get("bv") and r.get("br")]
        return trace, (wire == sent)
    return run


def multibyte_device_sweep_scenario():
    """Device assembly, systematic alignment: with the real inner endpoint's buffers full (it has stopped taking
    bytes, possibly in the middle of a word), the host reads and acknowledges one packet; exactly d = 0..15 cycles
    after the end of that ACK a word marked `last` is offered (and held until accepted).  Then the host drains."""
    async def run(ctx, host, rig):
        ep, inner = rig.ep, rig.inner
        ws, bs = ep.stream, inner.stream
        top = (1 << (8 * rig.byte_width)) - 1
        st = {"offer": None, "n": 0}
        trace = []
        wire = []

        def word(n):
            return (0x44332211 * (1 + n % 3) + 0x01010101 * n) & top

        def pre(ctx, host):
            o = st["offer"]
            ctx.set(ws.valid, int(o is not None))
            ctx.set(ws.payload, o["p"] if o else 0)
            ctx.set(ws.first, o["f"] if o else 1)
            ctx.set(ws.last, o["l"] if o else 1)

        def post(ctx, host):
            wv, wr = ctx.get(ws.valid), ctx.get(ws.ready)
            bv, br = ctx.get(bs.valid), ctx.get(bs.ready)
            if (wv and wr) or (bv and br):
                wp = ctx.get(ws.payload)
                trace.append({"e": "c", "wv": bool(wv), "lo": wp & 0xFFFF, "hi": (wp >> 16) & 0xFFFF,
                              "wf": bool(ctx.get(ws.first)), "wl": bool(ctx.get(ws.last)), "wr": bool(wr),
                              "bv": bool(bv), "bd": ctx.get(bs.payload), "bf": bool(ctx.get(bs.first)),
                              "bl": bool(ctx.get(bs.last)), "br": bool(br)})
            if wv and wr:
                st["n"] += 1
                o = st["offer"]
                st["offer"] = {"p": word(st["n"]), "f": 0, "l": 0} if o and o.get("more") else None
                if st["offer"] is not None:
                    st["offer"]["more"] = True
            st["stuck"] = st.get("stuck", 0) + 1 if (bv and not br) else 0

        host.pre_probe = pre
        host.extra_probe = post
        toggle = [None]

        async def read(ack=True):
            r = await host.in_transaction(ctx, 0, rig.ep_num, ack=False, timeout=14)
            if r.get("kind") == "data" and ack:
                await host.idle(ctx, 2)
                await host.handshake(ctx, "ACK")
                if r.get("crc_ok") and r["pid"] != toggle[0]:
                    toggle[0] = r["pid"]
                    wire.extend(r["payload"])
            return r

        await host.idle(ctx, 4)
        for d in range(0, 16):
            # fill until the byte endpoint has refused a byte for 8 cycles in a row
            st["offer"] = {"p": word(st["n"]), "f": int(d % 2 == 0), "l": 0, "more": True}
            st["stuck"] = 0
            for _ in range(40 * rig.max_pkt):
                await host.idle(ctx, 1)
                if st["stuck"] >= 8:
                    break
            if st["offer"] is not None:
                st["offer"]["more"] = False       # the word on offer right now is the last of the burst
            for _ in range(200):
                if st["offer"] is None or st["stuck"] >= 8:
                    break
                await host.idle(ctx, 1)
            pending_offer = st["offer"]
            st["offer"] = None                    # producer goes silent (a word not yet accepted is withdrawn)
            await read(ack=True)                  # frees one buffer: the byte endpoint becomes ready again
            host.at(d, lambda ctx: st.__setitem__("offer", {"p": word(st["n"] + 7), "f": 0, "l": 1}))
            await host.idle(ctx, 30)
            naks = 0
            for _ in range(60):
                r = await read(ack=True)
                naks = naks + 1 if r.get("kind") != "data" else 0
                if naks >= 3 and st["offer"] is None:
                    break
                await host.idle(ctx, 3)
        trace.append({"e": "end"})
        sent = [r["bd"] for r in trace if r.get("bv") and r.get("br")]
        return trace, (wire == sent)
    return run


def classify_multibyte(trace, matched, status, meta):
    return {"clause": status, "pattern": "byte_width_%d" % trace["cfg"]["byteWidth"]}


def check_C29(rep):
    quick = rep.tier == "quick"
    rep.rule = ("cycles of the real serialiser in which a word is accepted or a byte is handed over, validated against "
                "MultibyteIn.tla; distinct by (byte_width, DUT assembly, word accepted, first, last, byte index handed "
                "over, byte endpoint ready in the previous cycle, back-to-back accept)")
    rep.assume("word producer unconstrained (valid may drop; payload, first, last may change while not accepted)")
    rep.assume("byte endpoint ready pattern arbitrary (stub assembly) or as produced by the real USBStreamInEndpoint "
               "under host polling (device assembly)")
    rep.assume("first/last/payload of the byte stream are constrained in the cycles in which the byte is taken")

    bounds = [{"ByteWidths": [2, 3], "Los": [513], "His": [5], "MaxWords": 2}] if quick else \
        [{"ByteWidths": [1, 2], "Los": [513, 1027], "His": [0], "MaxWords": 3},
         {"ByteWidths": [3, 4], "Los": [513], "His": [1541], "MaxWords": 3}]
    thunks = [(lambda b=b: tlc.model_check(SPEC_DIR, "MCMultibyteIn", _render("MCMultibyteIn.cfg.tmpl", b),
                                           workers=6 if quick else None, timeout=3000)) for b in bounds]
    thunks.append(lambda: tlc.simulate(SPEC_DIR, "MCMultibyteIn",
                                       _render("MCMultibyteIn_sim.cfg.tmpl",
                                               {"ByteWidths": [1, 2, 3, 4], "Los": [513, 1027, 65535], "His": [5, 255]}),
                                       num=40 if quick else 400, depth=40, seed=rep.seed * 19 + 2))
    results = run_parallel(thunks)
    for b, res in zip(bounds, results):
        rep.add_mc("MCMultibyteIn %s" % b, res, b)

    items = []
    sampled = set()

    def add(bw, assembly, steps, meta):
        idx = 0
        prev_br = None
        for r in steps:
            if r.get("e") != "c":
                continue
            acc = r["wv"] and r["wr"]
            take = r["bv"] and r["br"]
            if acc or take:
                rep.nontriv((bw, assembly, acc, r["wf"] if acc else None, r["wl"] if acc else None,
                             idx if take else None, prev_br, acc and take))
            if take:
                idx = (idx + 1) % bw
            prev_br = r["br"]
        items.append(({"cfg": {"byteWidth": bw}, "steps": steps}, meta))
        if (bw, assembly) not in sampled:
            sampled.add((bw, assembly))
            rep.sample({"byte_width": bw, "assembly": assembly, "origin": meta["origin"],
                        "first_active_cycles": [r for r in steps if r.get("wv") or r.get("bv")][:3]})

    # (a) stub assembly: arbitrary ready patterns
    units = {bw: make_multibyte_unit(bw) for bw in (1, 2, 3, 4)}
    for beh in results[-1]:
        bw, stim = multibyte_stimulus_from_behaviour(beh)
        if bw < 3:
            for x in stim:
                x["wp"] &= (1 << (8 * bw)) - 1          # the high limb does not exist for narrow words
        raw = units[bw].run(stim)
        rep.add_eval(len(raw))
        add(bw, "stub", multibyte_records(raw) + [{"e": "end"}],
            {"dut": "USBMultibyteStreamInEndpoint", "assembly": "inner endpoint stubbed", "origin": "tlc-simulate"})
    for bw in (1, 2, 3, 4):
        for _ in range(8 if quick else 60):
            raw = units[bw].run(multibyte_random_stimulus(rep.rng, 160 if quick else 400, bw))
            rep.add_eval(len(raw))
            add(bw, "stub", multibyte_records(raw) + [{"e": "end"}],
                {"dut": "USBMultibyteStreamInEndpoint", "assembly": "inner endpoint stubbed", "origin": "random"})
        for stim, origin in multibyte_sweep_stimuli(bw):
            raw = units[bw].run(stim)
            rep.add_eval(len(raw))
            add(bw, "stub", multibyte_records(raw) + [{"e": "end"}],
                {"dut": "USBMultibyteStreamInEndpoint", "assembly": "inner endpoint stubbed", "origin": origin})
    # (b) device assembly: real inner endpoint, host polling over UTMI
    for bw, mp, epn in ([(2, 8, 1), (3, 8, 2), (4, 16, 3)] if quick else [(1, 8, 1), (2, 8, 1), (3, 8, 2), (4, 16, 3), (4, 64, 5), (3, 64, 9)]):
        rig = make_multibyte_device_rig(bw, mp, epn)
        for i in range(2 if quick else 10):
            c0 = rig.cycles
            steps, wire_ok = rig.run(multibyte_device_scenario(_random.Random(rep.rng.random()), 12 if quick else 40),
                                     _random.Random(rep.rng.random()), stall_prob=[0.0, 0.3][i % 2])
            rep.add_eval(rig.cycles - c0)
            if not wire_ok:
                rep.drift.append("byte_width=%d max_packet_size=%d: bytes accepted by the host differ from the bytes handed "
                                 "to the inner endpoint (USBStreamInEndpoint behaviour, property C11 — not judged here)" % (bw, mp))
            add(bw, "device", steps, {"dut": "USBMultibyteStreamInEndpoint in USBDevice", "max_packet_size": mp,
                                      "assembly": "real inner endpoint, UTMI host", "origin": "random-device"})
        c0 = rig.cycles
        steps, wire_ok = rig.run(multibyte_device_sweep_scenario(), _random.Random(1))
        rep.add_eval(rig.cycles - c0)
        if not wire_ok:
            rep.drift.append("byte_width=%d max_packet_size=%d (sweep): bytes accepted by the host differ from the bytes "
                             "handed to the inner endpoint (property C11 — not judged here)" % (bw, mp))
        add(bw, "device", steps, {"dut": "USBMultibyteStreamInEndpoint in USBDevice", "max_packet_size": mp,
                                  "assembly": "real inner endpoint, UTMI host", "origin": "sweep/word-offset-after-host-ack"})

    validate_all(rep, "MultibyteInTrace", items, classify_multibyte, what_prefix="C29 ", jvms=2)


CHECKS = {"C15": check_C15, "C16": check_C16, "C17": check_C17, "C29": check_C29}
