"""Common tail of every check: validate recorded real-gateware traces with TLC and turn verdicts into
accepted-trace counts, KNOWN-FINDING matches or VIOLATIONs."""
from . import tlc


def default_classify(trace, matched, status, meta):
    return {"clause": status, "pattern": "other"}


def validate_group(rep, spec_dir, module, cfg_text, items, classify=None, steps_of=None, what_prefix="",
                   dfs=False, timeout=900, chunk=400, env=None):
    """items: list of (trace, meta) — `trace` is what the trace module expects as Logs[tid]
    (normally a list of per-step records); `meta` is a JSON-able dict describing DUT/config/origin.

    Verdict per trace = (matched, status): accepted iff status == "ok" and matched == number of steps.
    `classify(trace, matched, status, meta)` -> signature dict {clause, pattern, ...} for findings matching.
    Returns the number of accepted traces.
    """
    classify = classify or default_classify
    steps_of = steps_of or (lambda t: len(t))
    accepted = 0
    for i in range(0, len(items), chunk):
        part = items[i:i + chunk]
        verdicts, res = tlc.validate_traces(spec_dir, module, cfg_text, [t for t, _ in part],
                                            timeout=timeout, dfs=dfs, env=env)
        ok = 0
        steps = 0
        for (trace, meta), (matched, status) in zip(part, verdicts):
            n = steps_of(trace)
            if status == "ok" and matched == n:
                ok += 1
                steps += n
                continue
            sig = classify(trace, matched, status, meta)
            recs = trace if isinstance(trace, list) else trace.get("steps", [])
            k = matched if status != "ok" else matched + 1     # 1-based index of the failing record
            ctx = recs[max(0, k - 3):k] if isinstance(recs, list) else None
            what = "%s%s: real-gateware trace rejected by %s at step %d/%d, clause '%s' (%s); last records: %s" % (
                what_prefix, meta, module, k, n, status, sig.get("pattern"), ctx)
            rep.violation(sig, what, {"meta": meta, "failing_step": k, "clause": status,
                                      "trace_prefix": recs[:k + 1] if isinstance(recs, list) else trace})
        rep.add_traces(ok, steps)
        accepted += ok
    return accepted
