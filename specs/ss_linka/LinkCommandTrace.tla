-------------------------- MODULE LinkCommandTrace --------------------------
(***************************************************************************)
(* Trace validation for LinkCommand (C35).  A trace is the list of cycle   *)
(* records of the composition  real LinkCommandGenerator -> channel kept   *)
(* by the harness (corruption / gaps / injected words) -> real             *)
(* LinkCommandDetector; record fields as in LinkCommand!CompFailing, plus  *)
(* `last` on the final record (the harness ends every trace with quiet     *)
(* cycles: everything owed must have been shown by then).                  *)
(***************************************************************************)
EXTENDS LinkCommand, TLC, TLCExt, Json, IOUtils

Logs == JsonDeserialize(IOEnv.TRACE_FILE)

VARIABLES s, tid, l, status
tvars == <<s, tid, l, status>>

ASSUME \A i \in 1..Len(Logs) : TLCSet(i, <<0, "ok">>)
ASSUME Crc5TableOk

Quiescent(x) == x.g.st = "idle" /\ x.t.pend = <<>> /\ x.chan = <<>>

TInit == /\ s = CompInit
         /\ tid \in 1..Len(Logs)
         /\ l = 1
         /\ status = "ok"

TNext == /\ status = "ok"
         /\ l <= Len(Logs[tid])
         /\ LET r  == Logs[tid][l]
                cf == CompFailing(s, r)
                n  == CompNext(s, r)
            IN /\ status' = IF cf # "ok" THEN cf
                            ELSE IF r.last /\ ~Quiescent(n) THEN "end_not_quiescent" ELSE "ok"
               /\ s' = n
         /\ l' = l + 1
         /\ UNCHANGED tid

TSpec == TInit /\ [][TNext]_tvars

Verdict == IF status # "ok" THEN status ELSE IF RoundTrip(s) THEN "ok" ELSE "prop_round_trip"
Progress == TLCSet(tid, <<l - 1, Verdict>>) /\ Verdict = "ok"

Verdicts == JsonSerialize(IOEnv.VERDICT_FILE, [i \in 1..Len(Logs) |-> TLCGet(i)])
=============================================================================
