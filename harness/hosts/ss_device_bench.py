"""Bench for the composition engine `ss_device`: the real `USBSuperSpeedDevice` (luna/gateware/usb/usb3/device.py) above the
physical layer -- real USB3LinkLayer + real USB3ProtocolLayer + real SuperSpeedEndpointMultiplexer + real USB3ControlEndpoint
(standard request handler, descriptors) + one real SuperSpeedStreamInEndpoint, wired by the unedited `elaborate` of device.py.

What is real and what is a model
  real    everything `USBSuperSpeedDevice.elaborate` builds except the physical layer.
  stub    `USB3PhysicalLayer` is replaced *in the namespace of device.py while the design is elaborated* by `StubPhysicalLayer`
          = the bare signals of ss_linklayer_bench.PhyStub (imported, not copied); `USB3LinkLayer` is wrapped only to pass the
          scaled `ss_clock_frequency`, `USB3ProtocolLayer` only to remember the instance (ports are observed, nothing driven).
  scaled  ss clock (10 us keep-alive = FREQ * 1e-5 cycles ...) and the Polling.RxEQ TSEQ burst (65536 -> 4 sets), exactly as
          ss_linklayer_bench does (same wrapper of TSEmitter, same memoised Operator.shape during compilation).
  model   a SuperSpeed host + link partner at word level below and at header-packet / data-packet / link-command grain
          above: trains the link (receiver detection, LFPS, TS1/TS2, idle; recovery, hot reset, warm reset -- the
          cooperative training partner follows ss_linklayer_bench.train), keeps U0 alive (advertisement, LGOOD / LCRD for
          the device's headers, keep-alives, LRTY + retransmission after the device's LBAD, LBAD for a device header it
          pretends to have received corrupted) and performs the host's side of control / bulk-IN / timestamp traffic.

The recorded trace contains only what the specification SsDevice.tla speaks about: headers / data packets *delivered* to the
device (CRC-good, in sequence, while the device's receiver listens), every header / data packet the device put on the wire
that the partner accepted (raw words; TLC decodes them and checks all CRCs), the protocol-level request strobes at the
transaction packet generator, the data-packet verdict strobes, stream words accepted by the IN endpoint, bus-interval
samples, and link up / down / reset.  Link-level retries, keep-alives and credits are stuttering.
"""
import random

from .. import sim as _sim          # noqa: F401
from . import ss_partner as P
from .ss_linklayer_bench import PhyStub, TxStreamParser, ts_set, TSEQ_SETS

QUIET_CYCLES = 40
END_WORD = (P._word(P.END, P.END, P.END, P.EPF), 0xF)


# ---- host-side packet builders (stimulus only; every CRC is re-checked by TLC) ---------------------------------------
def crc32_bytes(payload):
    bits = []
    for b in payload:
        bits += [(b >> i) & 1 for i in range(8)]
    v = P._crc_bits(bits, 0x04C11DB7, 32)
    return [(v >> (8 * i)) & 0xFF for i in range(4)]


def dpp_words(payload, bad_crc32=False):
    """DPSTART, payload bytes, CRC-32, END padding, END END END EPF  [USB3.2 7.2.1.2]."""
    crc = crc32_bytes(payload)
    if bad_crc32:
        crc[1] ^= 0x10
    by = [(b, 0) for b in list(payload) + crc]
    while len(by) % 4:
        by.append((P.END, 1))
    out = [P.DPSTART]
    for i in range(0, len(by), 4):
        out.append((sum(b << (8 * j) for j, (b, _) in enumerate(by[i:i + 4])),
                    sum(k << j for j, (_, k) in enumerate(by[i:i + 4]))))
    out.append(END_WORD)
    return out, crc


def dph_dw(addr, ep, seq, length, setup=0, direction=0):
    return [8 | (addr << 25), seq | (direction << 7) | (ep << 8) | (setup << 15) | (length << 16), 0]


def tp_dw(addr, sub, ep, seq=0, nump=0, rty=0, direction=0, he=0, pp=0):
    dw1 = sub | (direction << 7) | (ep << 8)
    if sub == 1:
        dw1 |= (rty << 6) | (he << 15) | (nump << 16) | (seq << 21)
    return [4 | (addr << 25), dw1, pp << 27]


def itp_dw(cnt, delta, junk1=0, junk2=0):
    return [12 | ((cnt & 0x3FFF) << 5) | ((delta & 0x1FFF) << 19), junk1, junk2]


def lmp_port_config_dw(speed=1):
    return [0 | (5 << 5) | (speed << 9), 0, 0]


def lmp_port_capability_dw():
    return [0 | (4 << 5) | (1 << 9), 4 | (1 << 16), 0]


def limbs_of(dws):
    out = []
    for w in dws:
        out += P.limbs(w)
    return out


class _Abort(Exception):
    pass


class DeviceBench:
    """One elaboration of the device; `run(script, seed)` replays a script from power-on."""

    def __init__(self, descriptors, freq=1e6, ep_in=1, max_packet=32, tseq_sets=TSEQ_SETS):
        from ..core import use_repo
        use_repo()
        from amaranth import Elaboratable, Module, Signal
        from amaranth.sim import Simulator
        from luna.gateware.usb.stream import USBRawSuperSpeedStream
        from luna.gateware.usb.usb3 import device as devmod
        from luna.gateware.usb.usb3.link import ordered_sets as osets
        from luna.gateware.usb.usb3.endpoints.stream import SuperSpeedStreamInEndpoint

        self.freq, self.ep_in, self.max_packet = freq, ep_in, max_packet
        cap = {}

        class StubPhysicalLayer(Elaboratable):
            def __init__(self, *, phy, sync_frequency):
                PhyStub.__init__(self, Signal, USBRawSuperSpeedStream)
                cap["phy"] = self

            def elaborate(self, platform):
                return Module()

        class ScaledLink(devmod.USB3LinkLayer):
            def __init__(self, *, physical_layer):
                super().__init__(physical_layer=physical_layer, ss_clock_frequency=freq)
                cap["link"] = self

        class SeenProtocol(devmod.USB3ProtocolLayer):
            def __init__(self, *, link_layer):
                super().__init__(link_layer=link_layer)
                cap["proto"] = self

        orig_ts = osets.TSEmitter

        class ScaledTSEmitter(orig_ts):
            def __init__(self, *a, transmit_burst_length=1, **kw):
                if transmit_burst_length >= 1024:
                    transmit_burst_length = tseq_sets
                super().__init__(*a, transmit_burst_length=transmit_burst_length, **kw)

        dev = devmod.USBSuperSpeedDevice(phy=None, sync_frequency=freq)
        self.control = dev.add_standard_control_endpoint(descriptors)
        self.ep = SuperSpeedStreamInEndpoint(endpoint_number=ep_in, max_packet_size=max_packet)
        dev.add_endpoint(self.ep)

        from amaranth.hdl import _ast
        orig_shape = _ast.Operator.shape
        memo = {}

        def shape(op):
            r = memo.get(id(op))
            if r is None or r[0] is not op:
                r = (op, orig_shape(op))
                memo[id(op)] = r
            return r[1]

        saved = (devmod.USB3PhysicalLayer, devmod.USB3LinkLayer, devmod.USB3ProtocolLayer)
        devmod.USB3PhysicalLayer, devmod.USB3LinkLayer, devmod.USB3ProtocolLayer = StubPhysicalLayer, ScaledLink, SeenProtocol
        osets.TSEmitter = ScaledTSEmitter
        _ast.Operator.shape = shape
        try:
            self.sim = Simulator(dev)
        finally:
            devmod.USB3PhysicalLayer, devmod.USB3LinkLayer, devmod.USB3ProtocolLayer = saved
            osets.TSEmitter = orig_ts
            _ast.Operator.shape = orig_shape
            memo.clear()
        self.dev, self.phy, self.link, self.proto = dev, cap["phy"], cap["link"], cap["proto"]
        self.sim.add_clock(1.0 / freq, domain="ss")
        self._first = True
        self._job = None
        self._out = None
        self.cycles = 0
        self.sim.add_testbench(self._bench)

    def run(self, script, seed, max_cycles=40000):
        self._job = (script, random.Random(seed), max_cycles)
        if not self._first:
            self.sim.reset()
        self._first = False
        self.sim.run()
        return self._out

    # -----------------------------------------------------------------------------------------------------------------
    async def _bench(self, ctx):
        script, rng, max_cycles = self._job
        phy, link, proto, ep = self.phy, self.link, self.proto, self.ep
        hs = proto.endpoint_interface.handshakes_out
        eif = proto.endpoint_interface
        hin = eif.handshakes_in
        ev = []
        info = {"skipped": 0, "ups": 0, "downs": 0, "marks": {}}
        parser = TxStreamParser()
        st = dict(
            cycle=0, last_act=0, ei_prev=1, up=False, rst=False, ph=None, phhot=False, idlerun=0, dts=[None, 0],
            lfps_sent=0, det_wait=0,
            # partner -> device direction
            p_seq=0, credits=0, unacked=[], ignore=False, lbad_seen=False, addr=0,
            # device -> partner direction
            bringup=False, exp=0, letter=0, ackq=[], hold_ack=0, lbad_next=0, dropping=False, adv_due=None,
            auto_ack=3, auto_ka=150, crd_delay=0, last_prx=0, hold_auto=False, hot_pending=False,
            # device traffic as accepted by the partner
            dev_hdrs=0, dev_dps=0, dph=None, dpp=None, reqs=0, tp_seen=0, devlog=[], served=0,
            # IN endpoint stream feeder
            feed=[], feed_gap=0, feed_wait=0,
            # timestamp sampling
            bi_due=None,
        )
        words = []
        cache = {}

        def setsig(sig, v):
            if cache.get(id(sig)) != v:
                cache[id(sig)] = v
                ctx.set(sig, v)

        def log(rec, act=True):
            rec["t"] = st["cycle"]
            ev.append(rec)
            if act:
                st["last_act"] = st["cycle"]

        # ---- partner word builders ----------------------------------------------------------------------------------
        def q_lc(cmd, sub):
            lc = P.link_command(cmd, sub)
            words.append((lc[0][0], lc[0][1], None))
            words.append((lc[1][0], lc[1][1], ("lc", cmd, sub)))

        def q_ts(kind, nsets, hot=0):
            for _ in range(nsets):
                for j, (w, c) in enumerate(ts_set(kind, hot=hot)):
                    words.append((w, c, ("ts", kind, hot, j == 3)))

        def q_packet(dws, rec, payload=None, corrupt=None, delayed=0, sep=1, retransmission=False):
            """A header packet (and, for a data packet header, its payload) towards the device.  rec = the trace record
            logged when the last word of a *good* packet has been presented (None: nothing is logged)."""
            seq = st["p_seq"]
            pkt = P.header_packet(dws[0], dws[1], dws[2], seq, delayed=delayed,
                                  bad_crc5=(corrupt == "bad5"), bad_crc16=(corrupt == "bad16"),
                                  crc5_xor=1 << rng.randrange(5), crc16_xor=1 << rng.randrange(16))
            allw = list(pkt)
            crc = None
            if payload is not None:
                pw, crc = dpp_words(payload, bad_crc32=(corrupt == "bad32"))
                allw += pw
            for _ in range(sep):
                words.append((0, 0, None))
            hdr_bad = corrupt in ("bad5", "bad16")
            for i, (w, c) in enumerate(allw):
                tag = None
                if i == 4:
                    tag = ("hdr_sent", hdr_bad)
                # (a data packet counts as delivered with the word that completes its CRC-32: the verdict follows it)
                if i == (len(allw) - 2 if payload is not None else len(allw) - 1) and not hdr_bad and rec is not None:
                    r2 = dict(rec)
                    if payload is not None:
                        r2["b"], r2["crc"] = list(payload), crc
                    tag = ("deliver", r2, tag)
                words.append((w, c, tag))
            if not hdr_bad:
                st["unacked"].append(dict(seq=seq, dws=dws, payload=payload, corrupt=corrupt if corrupt == "bad32" else None))
                st["p_seq"] = (seq + 1) % 8
                st["credits"] -= 1
            else:
                st["pending_retry"] = dict(dws=dws, rec=rec, payload=payload)

        def link_lost():
            st.update(credits=0, unacked=[], ignore=False, lbad_seen=False, bringup=False, letter=0, ackq=[],
                      dropping=False, adv_due=None, dph=None, dpp=None)
            st.pop("pending_retry", None)

        # ---- device header / data packet accepted by the partner ------------------------------------------------------
        def dev_header(ws, ctrl):
            dw3 = ws[3]
            f = P.parse_dw3(dw3)
            good = ctrl == 0 and dw3 == P.header_dw3(ws[0], ws[1], ws[2], f["seq"], delayed=f["dl"], deferred=f["deferred"],
                                                     hub_depth=f["hub_depth"], reserved=(dw3 >> 19) & 7)
            if not st["up"] or not st["bringup"]:
                log({"e": "dhp_down", "w": limbs_of(ws)})
                return
            if st["dropping"]:
                return                                     # between our LBAD and the device's LRTY: not received
            is_dph = (ws[0] & 0x1F) == 8
            if st["lbad_next"] > 0 and good and not is_dph and f["seq"] == st["exp"]:
                # the partner pretends this header arrived corrupted: LBAD, the device must send it again
                st["lbad_next"] -= 1
                st["dropping"] = True
                q_lc(P.LBAD, 0)
                info["lbad_sent"] = info.get("lbad_sent", 0) + 1
                return
            if good and f["seq"] != st["exp"]:
                log({"e": "dhp_seq", "w": limbs_of(ws), "exp": st["exp"]})
                return
            # (a header with bad CRCs is logged as well: the specification rejects it -- the wire is error free)
            st["exp"] = (st["exp"] + 1) % 8
            st["dev_hdrs"] += 1
            # (stimulus side only: what kind of answer the host has just received, for the reactive host of `serve_in`)
            typ, sub, epn = ws[0] & 0x1F, ws[1] & 0xF, (ws[1] >> 8) & 0xF
            st["devlog"].append((epn, "dp" if typ == 8 else {1: "ack", 2: "nrdy", 3: "erdy", 5: "stall"}.get(sub, "?")
                                 if typ == 4 else "other"))
            log({"e": "dhp", "w": limbs_of(ws), "c": ctrl})
            st["ackq"].append([st["cycle"] + st["auto_ack"] + st["hold_ack"], "ack", f["seq"]])
            if is_dph:
                st["dph"] = ws

        def dev_payload(pw):
            """pw = words between DPSTART and the END-END-END-EPF word."""
            data, fr, trail_nz, seen = [], [], 0, False
            for w, c in pw:
                for i in range(4):
                    b = (w >> (8 * i)) & 0xFF
                    if (c >> i) & 1:
                        fr.append(b)
                        seen = True
                    elif seen:
                        trail_nz += 1 if b else 0          # after the framing only logical idle may follow in the word
                    else:
                        data.append(b)
            if len(data) > 256 + 4:
                # far longer than anything this device configuration sends (descriptors <= 31, MaxPkt 32 bytes): by size only (rejected by the specification as
                # an unexpected event; keeps the CRC-32 work of the trace check bounded)
                st["dph"] = None
                log({"e": "ddp_runaway", "n": len(data)})
                return
            if st["dph"] is None:
                log({"e": "ddp_orphan", "n": len(data)})
                return
            st["dph"] = None
            st["dev_dps"] += 1
            log({"e": "ddp", "b": data[:-4] if len(data) >= 4 else [], "crc": data[-4:] if len(data) >= 4 else data,
                 "fr": fr, "tnz": trail_nz})

        # ---- one clock cycle ----------------------------------------------------------------------------------------
        async def cycle():
            c = st["cycle"]
            if c >= max_cycles:
                raise _Abort()
            # receiver detection / LFPS (reactive, as ss_linklayer_bench)
            if ctx.get(phy.perform_rx_detection) and not st["rst"]:
                if st["det_wait"] <= 0:
                    setsig(phy.link_partner_detected, 1)
                    st["det_wait"] = 3
                else:
                    st["det_wait"] -= 1
                    setsig(phy.link_partner_detected, 0)
            else:
                setsig(phy.link_partner_detected, 0)
            lf = 0
            if ctx.get(phy.send_lfps_polling):
                st["lfps_sent"] += 1
                setsig(phy.lfps_cycles_sent, st["lfps_sent"] & 0xFFFF)
                if st["lfps_sent"] % 3 == 0:
                    lf = 1
            setsig(phy.lfps_polling_detected, lf)
            # partner word
            tag = None
            if words:
                data, ctrl, tag = words.pop(0)
            else:
                data, ctrl = 0, 0
            for s in (phy.source, phy.raw_source):
                setsig(s.valid, 1)
                setsig(s.data, data)
                setsig(s.ctrl, ctrl)
            if ctrl or data:
                st["last_prx"] = c
            # PHY ready (as USB3PhysicalLayer: a word is taken every cycle except in electrical idle)
            rdy = 0 if st["ei_prev"] else 1
            setsig(phy.sink.ready, rdy)
            # IN endpoint stream feeder
            fd = st["feed"]
            offered = None
            if fd and st["feed_wait"] <= 0:
                offered = fd[0]
                setsig(ep.stream.valid, (1 << len(offered[0])) - 1)
                setsig(ep.stream.data, sum(b << (8 * i) for i, b in enumerate(offered[0])))
                setsig(ep.stream.last, 1 if offered[1] else 0)
                setsig(ep.stream.first, 1 if offered[2] else 0)
            else:
                setsig(ep.stream.valid, 0)
                setsig(ep.stream.last, 0)
                if st["feed_wait"] > 0:
                    st["feed_wait"] -= 1
            # ---- what was presented to the device in this cycle
            while tag is not None:
                nxt = None
                if tag[0] == "deliver":
                    r = tag[1]
                    nxt = tag[2]
                    if st["up"] and not st["ignore"]:
                        log(dict(r))
                        if r["e"] == "itp":
                            st["bi_due"] = c + 6
                elif tag[0] == "hdr_sent":
                    if tag[1] and st["up"] and not st["ignore"]:
                        st["ignore"] = True               # the device will answer LBAD and ignore headers until LRTY
                elif tag[0] == "lc":
                    if tag[1] == P.LRTY:
                        st["ignore"] = False
                tag = nxt
            # ---- device outputs: link state
            tr = ctx.get(link.trained)
            if tr and not st["up"]:
                st["up"] = True
                info["ups"] += 1
                log({"e": "up"})
                st["adv_due"] = c + 2
                st["last_prx"] = c
            elif not tr and st["up"]:
                st["up"] = False
                info["downs"] += 1
                log({"e": "down"})
                link_lost()
                if st.pop("reset_nums", False):
                    st.update(p_seq=0, exp=0)
                words[:] = [x for x in words if isinstance(x[2], tuple) and x[2][0] == "ts"]
            # ---- device outputs: transmit stream
            ei = ctx.get(phy.tx_electrical_idle)
            st["ei_prev"] = ei
            if ei:
                if parser.state != "idle":
                    parser.state = "idle"
                    st["dpp"] = None
                st["ph"] = "EI"
                st["idlerun"] = 0
            elif rdy and ctx.get(phy.sink.valid):
                d, k = ctx.get(phy.sink.data), ctx.get(phy.sink.ctrl)
                was_dpp = parser.state == "dpp"
                cls, x = parser.feed(d, k, st["up"])
                if cls == "idle":
                    st["idlerun"] += 1
                    if st["idlerun"] == 3:
                        st["ph"] = "LI"
                else:
                    st["idlerun"] = 0
                if was_dpp and st["dpp"] is not None:
                    st["dpp"].append((d, k))
                if x is not None:
                    kind = x[0]
                    if kind == "ts_first":
                        st["ph"] = {"tseq": "TSEQ", "ts1": "TS1", "ts2": "TS2", "tsx": "TSX"}[x[1]]
                        hot = bool(x[2]) and x[1] == "ts2"
                        if hot and not st["phhot"]:
                            log({"e": "hot"})                # the device echoes the Hot Reset bit: it is being reset
                            st["p_seq"] = 0
                            st["exp"] = 0
                            st["addr"] = 0
                        st["phhot"] = hot
                    elif kind == "ts_set":
                        if st["dts"][0] == x[1]:
                            st["dts"][1] += 1
                        else:
                            st["dts"] = [x[1], 1]
                    elif kind == "lc":
                        pc = P.parse_link_command_word(x[1])
                        if st["up"] and pc["ok"] and x[2] == 0:
                            cmd = pc["cmd"]
                            if cmd == P.LCRD:
                                st["credits"] += 1
                            elif cmd == P.LGOOD:
                                if not st.get("dev_adv"):
                                    st["dev_adv"] = True
                                elif st["unacked"] and st["unacked"][0]["seq"] == pc["sub"]:
                                    st["unacked"].pop(0)
                            elif cmd == P.LBAD:
                                st["lbad_seen"] = True
                            elif cmd == P.LRTY:
                                st["dropping"] = False
                    elif kind == "hp":
                        dev_header(x[1], max(x[2]))
                    elif kind == "dpp_first":
                        st["dpp"] = []
                    elif kind == "dpp_end":
                        pw, st["dpp"] = st["dpp"] or [], None
                        if st["up"] and not st["dropping"]:
                            dev_payload(pw)
                    elif kind == "other" and st["up"]:
                        log({"e": "tx_other", "lo": x[1] & 0xFFFF, "hi": x[1] >> 16, "ctrl": x[2]})
            # ---- protocol-level ports of the composition
            # (a transaction packet is an event of the specification when the protocol layer *reports* it to the endpoints:
            # `tpd` = delivered on the wire, `tp` = reported, with the fields shown at the port; inputs before their effects)
            if ctx.get(hin.ack_received):
                st["tp_seen"] += 1
                log({"e": "tp", "sub": 1, "ep": ctx.get(hin.endpoint_number) & 15, "seq": ctx.get(hin.next_sequence),
                     "nump": ctx.get(hin.number_of_packets), "rty": ctx.get(hin.retry_required)})
            if ctx.get(hin.status_received):
                st["tp_seen"] += 1
                log({"e": "tp", "sub": 4, "ep": ctx.get(hin.endpoint_number) & 15, "seq": 0, "nump": 0, "rty": 0})
            if ctx.get(hs.ready):
                for kname, sig in (("ack", hs.send_ack), ("stall", hs.send_stall), ("nrdy", hs.send_nrdy),
                                   ("erdy", hs.send_erdy)):
                    if ctx.get(sig):
                        st["reqs"] += 1
                        log({"e": "req", "k": kname, "ep": ctx.get(hs.endpoint_number) & 15,
                             "seq": ctx.get(hs.next_sequence), "rty": ctx.get(hs.retry_required)})
            if ctx.get(eif.rx_complete):
                log({"e": "rxv", "good": True})
            if ctx.get(eif.rx_invalid):
                log({"e": "rxv", "good": False})
            if offered is not None and ctx.get(ep.stream.ready):
                log({"e": "w", "b": list(offered[0]), "last": bool(offered[1])})
                fd.pop(0)
                st["feed_wait"] = st["feed_gap"]
            if st["bi_due"] is not None and c >= st["bi_due"]:
                st["bi_due"] = None
                log({"e": "bi", "v": ctx.get(proto.bus_interval)})
            await ctx.tick("ss")
            st["cycle"] = c + 1
            # ---- partner automatic behaviour in U0 (acts in the following cycles)
            if st["up"] and not words and not st["hold_auto"]:
                if st["adv_due"] is not None and st["cycle"] >= st["adv_due"]:
                    st["adv_due"] = None
                    st["dev_adv"] = False
                    q_lc(P.LGOOD, (st["exp"] - 1) % 8)
                    for x in range(st.get("adv_credits", 4)):
                        q_lc(P.LCRD, x)
                    st["letter"] = st.get("adv_credits", 4) % 4
                    st["bringup"] = True
                elif st["lbad_seen"] and st.get("pending_retry") is not None:
                    # the device rejected our corrupted header: LRTY, then the packet again (Delayed set)
                    st["lbad_seen"] = False
                    pr = st.pop("pending_retry")
                    q_lc(P.LRTY, 0)
                    q_packet(pr["dws"], pr["rec"], payload=pr["payload"], delayed=1)
                elif st["ackq"] and st["ackq"][0][0] <= st["cycle"]:
                    _, what, n = st["ackq"].pop(0)
                    if what == "ack":
                        q_lc(P.LGOOD, n)
                        st["ackq"].insert(0, [st["cycle"] + 3 + st["crd_delay"], "crd", 0])
                    else:
                        q_lc(P.LCRD, st["letter"])
                        st["letter"] = (st["letter"] + 1) % 4
                elif st["auto_ka"] is not None and st["cycle"] - st["last_prx"] >= st["auto_ka"]:
                    q_lc(P.LDN, 0)
                    st["last_prx"] = st["cycle"]

        # ---- helpers for the script interpreter -----------------------------------------------------------------------
        async def wait_until(pred, limit):
            n = 0
            while not pred() and n < limit:
                await cycle()
                n += 1
            return pred()

        async def train(opts, stage="wait"):
            """Cooperative training partner (same policy as ss_linklayer_bench.train)."""
            limit = opts.get("limit", 2500)
            n, sent_ts2 = 0, 0
            hot_left = opts.get("hot", 0)
            extra_ts2 = opts.get("ts2_extra", 0)
            st["dts"] = [None, 0]
            while n < limit and not st["up"]:
                if not words:
                    ph = st["ph"]
                    if stage == "wait" and (ph in ("TS1", "TS2") or opts.get("initiate")):
                        stage = "ts1"
                    if stage == "ts1":
                        if st["dts"][0] in ("ts1", "ts2") and st["dts"][1] >= 8 or ph == "TS2":
                            stage = "ts2"
                        else:
                            q_ts("ts1", 8)
                    if stage == "ts2":
                        dut_ts2 = st["dts"][0] == "ts2" and st["dts"][1] >= 8
                        if hot_left > 0:
                            q_ts("ts2", 8, hot=1)
                            if st["phhot"] and st["ph"] == "TS2":
                                hot_left -= 1
                        elif (dut_ts2 or ph == "LI") and sent_ts2 >= 2 and extra_ts2 <= 0:
                            stage = "idle"
                        else:
                            q_ts("ts2", 8)
                            sent_ts2 += 1
                            if dut_ts2 or ph == "LI":
                                extra_ts2 -= 1
                await cycle()
                n += 1
            return st["up"]

        async def settle_partner_tx(limit=300):
            """Wait until everything the partner queued has been sent and acknowledged (link-level)."""
            await wait_until(lambda: not words and not st["unacked"] and st.get("pending_retry") is None
                             and not st["lbad_seen"] or not st["up"], limit)

        async def send_packet(dws, rec, payload=None, opts=None):
            opts = opts or {}
            if not st["up"]:
                info["skipped"] += 1
                return False
            # a header is only sent with a credit, and never while a corrupted one is being repaired
            ok = await wait_until(lambda: (st["credits"] > 0 and st.get("pending_retry") is None and not st["ignore"]
                                           and st.get("dev_adv")) or not st["up"], 400)
            if not ok or not st["up"]:
                info["skipped"] += 1
                return False
            q_packet(dws, rec, payload=payload, corrupt=opts.get("corrupt"), sep=opts.get("sep", 1))
            if not opts.get("nowait"):
                await wait_until(lambda: not words or not st["up"], 400)
                if opts.get("corrupt") in ("bad5", "bad16"):
                    await settle_partner_tx()
            return True

        async def run_ops(ops):
            for op in ops:
                k = op[0]
                if k == "power_on":
                    setsig(phy.ready, 1)
                    setsig(phy.vbus_present, 1)
                    for _ in range(2):
                        await cycle()
                elif k == "config":
                    st.update(op[1])
                elif k == "train":
                    await train(op[1] if len(op) > 1 else {})
                elif k == "wait_ready":
                    await wait_until(lambda: bool(ctx.get(link.ready)) and st.get("dev_adv"), op[1] if len(op) > 1 else 120)
                elif k == "recover":
                    o2 = dict(op[1] if len(op) > 1 else {})
                    o2["initiate"] = True
                    st["hold_auto"] = True
                    if not o2.get("abrupt"):
                        while words:
                            await cycle()
                    else:
                        words[:] = []
                    n = 0
                    while st["up"] and n < 80:
                        if not words:
                            q_ts("ts1", 8)
                        await cycle()
                        n += 1
                    st["hold_auto"] = False
                    if st["up"]:
                        info["skipped"] += 1
                    else:
                        await train(o2)
                elif k == "warm_reset":
                    st["hold_auto"] = True
                    while words:
                        await cycle()
                    for _ in range(9):
                        await cycle()
                    st["hold_auto"] = False
                    setsig(phy.lfps_reset_detected, 1)
                    st["rst"] = True
                    log({"e": "warm"})
                    # (the partner restarts its header numbering when the link has dropped: a device header that completes in
                    # the very cycle the reset begins still belongs to the old epoch)
                    st.update(lfps_sent=0, addr=0, reset_nums=True)
                    for _ in range(max(1, op[1])):
                        await cycle()
                    setsig(phy.lfps_reset_detected, 0)
                    st["rst"] = False
                    await cycle()
                elif k == "wait":
                    for _ in range(op[1]):
                        await cycle()
                elif k == "wait_up":
                    await wait_until(lambda: st["up"], op[1])
                elif k == "wait_dev":
                    # wait until the device has put op[1] more header packets (transaction packets, data headers, LMPs)
                    # on the wire (accepted by the partner) -- or op[2] cycles
                    target = st["dev_hdrs"] + op[1]
                    await wait_until(lambda: st["dev_hdrs"] >= target and st["dph"] is None or not st["up"],
                                     op[2] if len(op) > 2 else 150)
                elif k == "serve_in":
                    # reactive host for one IN packet of endpoint op[1] with sequence number op[2]: polls after an ERDY (if no
                    # request of its own is outstanding: op[3] = requests already outstanding), waits after an NRDY,
                    # acknowledges the data packet (NumP 0) and returns; gives up after op[4] cycles
                    epn, seq, out_req = op[1], op[2], op[3]
                    limit = op[4] if len(op) > 4 else 200
                    n = 0
                    done = False
                    while n < limit and not done and st["up"]:
                        while st["served"] < len(st["devlog"]) and not done:
                            e_ep, kind = st["devlog"][st["served"]]
                            if e_ep != epn:
                                st["served"] += 1
                                continue
                            if kind == "dp":
                                if st["dph"] is not None:
                                    break                       # payload still on the wire
                                st["served"] += 1
                                await send_packet(tp_dw(st["addr"], 1, epn, (seq + 1) % 32, 0, 0),
                                                  {"e": "tpd", "sub": 1, "ep": epn, "seq": (seq + 1) % 32, "nump": 0, "rty": 0})
                                done = True
                            elif kind == "nrdy":
                                st["served"] += 1
                                out_req = max(0, out_req - 1)
                            elif kind == "erdy":
                                st["served"] += 1
                                if out_req == 0:
                                    out_req = 1
                                    await send_packet(tp_dw(st["addr"], 1, epn, seq, 1, 0),
                                                      {"e": "tpd", "sub": 1, "ep": epn, "seq": seq, "nump": 1, "rty": 0})
                            else:
                                st["served"] += 1
                        if not done:
                            await cycle()
                            n += 1
                    if not done:
                        info["unserved"] = info.get("unserved", 0) + 1
                elif k == "mark_served":
                    st["served"] = len(st["devlog"])        # answers received so far are history for `serve_in`
                elif k == "wait_seen":
                    target = st["tp_seen"] + (op[1] if len(op) > 1 else 1)
                    await wait_until(lambda: st["tp_seen"] >= target, op[2] if len(op) > 2 else 60)
                elif k == "wait_req":
                    target = st["reqs"] + 1
                    await wait_until(lambda: st["reqs"] >= target, op[1] if len(op) > 1 else 60)
                elif k == "quiet":
                    n = 0
                    while (st["cycle"] - st["last_act"] < QUIET_CYCLES or words or st["ackq"] or st["unacked"]
                           or st["feed"] or parser.state != "idle") and n < 900:
                        await cycle()
                        n += 1
                    log({"e": "quiet", "up": st["up"]})
                elif k == "set_addr":
                    st["addr"] = op[1]                  # the address the host uses from now on
                elif k == "setup":
                    by = list(op[1])
                    o = op[2] if len(op) > 2 else {}
                    flag = o.get("flag", 1)
                    await send_packet(dph_dw(st["addr"], o.get("ep", 0), 0, len(by), setup=flag),
                                      {"e": "dp_rx", "ep": o.get("ep", 0), "setup": bool(flag), "len": len(by),
                                       "cor": o.get("corrupt") == "bad32"},
                                      payload=by, opts=o)
                elif k == "tp":
                    f = op[1]
                    o = op[2] if len(op) > 2 else {}
                    sub = {"ack": 1, "status": 4}[f["sub"]]
                    dws = tp_dw(f.get("addr", st["addr"]), sub, f["ep"], f.get("seq", 0), f.get("nump", 0), f.get("rty", 0),
                                direction=f.get("dir", 0), he=f.get("he", 0), pp=f.get("pp", 0))
                    rec = {"e": "tpd", "sub": sub, "ep": f["ep"], "seq": f.get("seq", 0), "nump": f.get("nump", 0),
                           "rty": f.get("rty", 0)}
                    await send_packet(dws, rec, opts=o)
                elif k == "itp":
                    o = op[3] if len(op) > 3 else {}
                    await send_packet(itp_dw(op[1], op[2], rng.getrandbits(32), rng.getrandbits(32)),
                                      {"e": "itp", "cnt": op[1] & 0x3FFF, "delta": op[2] & 0x1FFF}, opts=o)
                elif k == "lmp":
                    dws = lmp_port_capability_dw() if op[1] == "capability" else lmp_port_config_dw(op[2] if len(op) > 2 else 1)
                    await send_packet(dws, {"e": "lmp", "sub": 4 if op[1] == "capability" else 5})
                elif k == "feed":
                    # stream bytes into the IN endpoint: op[1] = bytes, op[2] = last, op[3] = gap between words
                    by = list(op[1])
                    chunks = [by[i:i + 4] for i in range(0, len(by), 4)]
                    for i, ch in enumerate(chunks):
                        st["feed"].append((ch, bool(op[2]) and i == len(chunks) - 1, i == 0))
                    st["feed_gap"] = op[3] if len(op) > 3 else 0
                elif k == "wait_feed":
                    await wait_until(lambda: not st["feed"], op[1] if len(op) > 1 else 400)
                elif k == "mark":
                    info["marks"][op[1]] = st["cycle"]
                else:
                    raise ValueError("unknown op %r" % (op,))

        for s in (phy.ready, phy.vbus_present, phy.lfps_reset_detected, phy.link_partner_detected,
                  phy.no_link_partner_detected, phy.lfps_polling_detected, phy.lfps_ping_detected):
            setsig(s, 0)
        try:
            await run_ops(script)
        except _Abort:
            info["aborted"] = True
        self.cycles += st["cycle"]
        info["cycles"] = st["cycle"]
        info["dev_hdrs"], info["dev_dps"] = st["dev_hdrs"], st["dev_dps"]
        self._out = (ev, info)
