------------------------------ MODULE MCSsDesc ------------------------------
(* Bounded instance of SsDesc: a 3-descriptor table with a sparse string index; every request  *)
(* value / wLength / ready schedule against every allowed timing of an abstract handler.        *)
EXTENDS SsDesc, TLC

CONSTANTS Values,      \* wValue values requested
          Lengths,     \* wLength values requested
          MaxReqs      \* requests per behaviour
VARIABLE nreq
mvars == <<dvars, nreq>>

MCTable == << [key |-> 256,     bytes |-> <<18, 1, 32, 3, 0, 0, 0, 9>>],      \* device (cut to 8 bytes)
              [key |-> 512,     bytes |-> <<9, 2, 5, 0, 1>>],                  \* configuration, 5 bytes
              [key |-> 768 + 2, bytes |-> <<4, 3, 76>>] >>                     \* string index 2 (index 1 absent)

Word(b) == LET x(k) == IF k <= Len(b) THEN b[k] ELSE 0 IN [lo |-> x(1) + 256 * x(2), hi |-> x(3) + 256 * x(4)]

\* the (only) beat the relation allows in the current state, for the response ra
BeatOf(ra, st) == LET n == Min(4, Len(ra.rem)) w == Word(SubSeq(ra.rem, 1, n)) IN
                  [n |-> n, first |-> ~ra.started, last |-> Len(ra.rem) <= 4, lo |-> w.lo, hi |-> w.hi,
                   txlen |-> ra.total, stall |-> st]
QuietOut(st) == [n |-> 0, first |-> FALSE, last |-> FALSE, lo |-> 0, hi |-> 0, txlen |-> 0, stall |-> st]
Outs(i) == {QuietOut(st) : st \in BOOLEAN}
           \cup (IF RespA(i).kind = "data" THEN {BeatOf(RespA(i), st) : st \in BOOLEAN} ELSE {})
Resp(i, o) == Failing(i, o) = "ok" /\ Step(i, o) /\ nreq' = nreq + (IF i.start THEN 1 ELSE 0)

Request == \E v \in Values, L \in Lengths, q \in BOOLEAN : resp.kind = "none" /\
              LET i == [start |-> TRUE, value |-> v, length |-> L, rdy |-> q] IN \E o \in Outs(i) : Resp(i, o)
Wait    == \E q \in BOOLEAN :
              LET i == [start |-> FALSE, value |-> resp.value, length |-> resp.length, rdy |-> q] IN
              \E o \in Outs(i) : Resp(i, o)

Next == Request \/ Wait
Spec == InitWith(MCTable) /\ nreq = 0 /\ [][Next]_mvars
BoundedRun == nreq <= MaxReqs
CoreView == <<resp, got, nUnknown, nStall, nreq>>
=============================================================================
