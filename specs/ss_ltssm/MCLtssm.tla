------------------------------ MODULE MCLtssm ------------------------------
(***************************************************************************)
(* Instances of Ltssm:                                                     *)
(*  - Spec     : exhaustive exploration, one cycle per step, scaled        *)
(*               constants, input alphabet MCInputs; every Prop clause is  *)
(*               an invariant, plus design-level theorems about Ref.       *)
(*  - SimSpec  : behaviour generation at the constants of the real         *)
(*               (scaled-clock) controller: arbitrary cycles, explicit     *)
(*               time leaps, and a cooperative link partner.  SimClean     *)
(*               additionally stays outside the triggers of the open       *)
(*               findings (the named Env predicates KF_Reset...).                     *)
(***************************************************************************)
EXTENDS Ltssm, FiniteSets

CONSTANTS LoosenVals,    \* values of loosen_requirements to explore
          StrobeSets,    \* sets of strobes that may be asserted together in one cycle
          SentVals,      \* values the LFPS burst counter may take
          InitSent,      \* ... and its initial value
          Toggles,       \* level inputs that may change: subset of {"phy", "dscr"}
          AgeCap,        \* cap of the monitors' run-length ghosts (model finiteness only)
          NEdges         \* expected number of edges of the reference FSM graph (cross-check with the binding)

VARIABLES ref,           \* reference machine
          g,             \* monitor ghosts
          in,            \* Env: input vector of the step that led to this state
          n,             \* Env: number of cycles of that step (1 = a single cycle; > 1: followed by quiet cycles)
          w              \* work variable: <<ref, g>> computed once per step (TLC evaluation cost only)

vars == <<ref, g, in, n, w>>

-----------------------------------------------------------------------------
(* input alphabets *)

WithStrobes(base, S, rst) ==
    [f \in DOMAIN base |-> IF f \in Strobes THEN f \in S ELSE IF f = "rst" THEN rst ELSE base[f]]

StrobeVecs == {WithStrobes(NoInput, S, FALSE) : S \in StrobeSets}

\* Either strobes (levels as before) or a change of one level input; the reset level is free in both.
InputsAfter(prev) ==
    {[v EXCEPT !.rst = r, !.phy = prev.phy, !.dscr = prev.dscr, !.sent = prev.sent] : v \in StrobeVecs, r \in BOOLEAN}
    \cup (IF "phy" \in Toggles THEN {[Quieten(prev) EXCEPT !.rst = r, !.phy = ~prev.phy] : r \in BOOLEAN} ELSE {})
    \cup (IF "dscr" \in Toggles THEN {[Quieten(prev) EXCEPT !.rst = r, !.dscr = ~prev.dscr] : r \in BOOLEAN} ELSE {})
    \cup {[Quieten(prev) EXCEPT !.rst = r, !.sent = c] : r \in BOOLEAN, c \in SentVals \ {prev.sent}}
    \cup {[Quieten(prev) EXCEPT !.drst = TRUE]}

-----------------------------------------------------------------------------
(* named Env predicates of the open findings (see known_findings.d/ss_ltssm.json) *)

\* C41-warm-reset-loses-to-coincident-transition: the reset level is sampled in a cycle in which the
\* controller has another transition enabled (an input event or a time-out).
KF_ResetRace(s, i) == i.rst /\ s.st # RDR /\ Target(s, [i EXCEPT !.rst = FALSE]) # STAY

\* C41-warm-reset-ignored-before-rxeq: the reset level is asserted while the controller is in
\* Rx.Detect.Active, Rx.Detect.Quiet or Polling.LFPS.
KF_ResetEarly(s, i) == i.rst /\ s.st \in {RDA, RDQ, PLF}

Clean(s, i) == ~KF_ResetRace(s, i) /\ ~KF_ResetEarly(s, i)

-----------------------------------------------------------------------------
Init == \E lo \in LoosenVals :
           /\ ref = RefInit(lo) /\ g = [GInit(lo) EXCEPT !.pi.sent = InitSent]
           /\ in = [NoInput EXCEPT !.sent = InitSent] /\ n = 1 /\ w = <<ref, g>>

\* Of the last input vector only the levels influence the future (the rest is in ref and g).
MCView == <<ref, g, in.phy, in.dscr, in.sent>>

\* n cycles: the first with inputs i, the others quiet.
Do(i, k) ==
    /\ LegalInput(i)
    /\ in' = i /\ n' = k
    /\ w' = Run(Step1(ref, i), G1(g, i, Out(ref, i), AgeCap), Quieten(i), k - 1, AgeCap)
    /\ ref' = w'[1] /\ g' = w'[2]

Cycle == \E i \in InputsAfter(in) : Do(i, 1)

Next == Cycle
Spec == Init /\ [][Next]_vars

-----------------------------------------------------------------------------
(* behaviour generation *)

Obs == Out(ref, NoInput)

\* Time leaps: short ones, and up to / just past the next time-out of the current substate.
Leaps == LET t == TimeoutOf(ref.st) IN
         {1, 2, 3, 7} \cup (IF t > 0 /\ ref.cyc < t THEN {t - ref.cyc - 1, t - ref.cyc, t - ref.cyc + 1, t - ref.cyc + 3} \ {0}
                            ELSE {T2, T12 + 5})

\* What a cooperative link partner / PHY would present next, given what the controller is visibly doing.
HelpSets == LET ph == Phase(Obs) IN
            CASE ph = "OFF"    -> {{}}
              [] ph = "DETECT" -> {{"pd"}}
              [] ph = "LFPS"   -> {{"lfps"}, {"ts1"}}
              [] ph = "TSEQ"   -> {{"burst"}}
              [] ph = "TS1"    -> {{"burst"}, {"ts1"}, {"ts2"}, {"its1"}}
              [] ph = "TS2"    -> {{"burst"}, {"ts2"}, {"burst", "ts2"}}
              [] ph = "IDLE"   -> {{"idle"}}
              [] OTHER         -> {{}}

HelpBase == [Quieten(in) EXCEPT !.phy = TRUE,
                                !.sent = IF Phase(Obs) = "LFPS" THEN Min(MaxSent, Max(in.sent + 7, LfpsMin + 1)) ELSE 0]

\* input events without reset / a reset cycle (alone or together with events) / the reset level held on
SimEvent        == \E i \in InputsAfter(in) : ~i.rst /\ Do(i, 1)
SimReset(clean) == \E i \in InputsAfter(in) : i.rst /\ (clean => Clean(ref, i)) /\ Do(i, 1)
SimResetHold    == in.rst /\ Do([Quieten(in) EXCEPT !.rst = TRUE], 1)
SimDomainReset  == Do([Quieten(in) EXCEPT !.drst = TRUE], 1)
SimLeap         == \E k \in Leaps : Do(Quieten(in), k)
SimHelp         == \E S \in HelpSets : Do(WithStrobes(HelpBase, S, FALSE), 1)
SimHelp2        == SimHelp          \* (weights: TLC's simulator first picks an action, then a successor)
SimHelp3        == SimHelp
SimHelp4        == SimHelp
SimEvent2       == SimEvent

SimNextClean == SimEvent \/ SimEvent2 \/ SimReset(TRUE) \/ SimResetHold \/ SimDomainReset \/ SimLeap \/ SimHelp \/ SimHelp2 \/ SimHelp3 \/ SimHelp4
SimNextAny   == SimEvent \/ SimEvent2 \/ SimReset(FALSE) \/ SimResetHold \/ SimDomainReset \/ SimLeap \/ SimHelp \/ SimHelp2 \/ SimHelp3 \/ SimHelp4
SimClean == Init /\ [][SimNextClean]_vars
SimAny   == Init /\ [][SimNextAny]_vars

-----------------------------------------------------------------------------
(* Prop on the reference machine: every clause of Viol, one invariant each *)

TypeOK == /\ ref.st \in States
          /\ ref.cyc \in 0..Max(T360, T12)
          /\ (TimeoutOf(ref.st) = 0 => ref.cyc = 0)
          /\ ref.cyc <= TimeoutOf(ref.st)

PropAll              == Viol(g, Obs) = "ok"
ResetRemovesReady    == ~(g.pi.rst /\ Obs.lr)
ReadyOnlyTrained     == Obs.lr => TrainedSinceReset(g)
ReadyOnlyHandshaken  == Obs.lr => HandshakeSinceEntry(g)
HotResetHonoured     == (Obs.lr /\ ~g.wasReady) => ~g.hotB
ScramblingInU0       == (Obs.lr /\ ~Obs.scr) => (g.lAsk \/ g.pNoScr)
TimedPhasesLeft      == (Phase(Obs) = g.ph /\ PhaseTimeout(g.ph) > 0 /\ ~OverrunExempt(g))
                            => g.age + 1 <= PhaseTimeout(g.ph) + 1 + SlackHi
RecoveryHonoured     == Obs.lr => g.recWait <= SlackHi
LfpsExchanged        == (g.ph = "LFPS" /\ Phase(Obs) = "TSEQ") => LfpsExitOK(g)

\* The reference FSM graph (substate pairs), written out from [USB3.2r1 7.5] as restricted by the module's
\* documentation; every transition of Ref must be one of these and U0 is entered only from the three
\* idle-handshake substates.
WarmResetEdges == {<<s, RDR>> : s \in States \ {RDR}}
FsmEdges == WarmResetEdges \cup
    {<<RDR, RDA>>, <<RDA, RDQ>>, <<RDA, PLF>>, <<RDQ, RDA>>, <<PLF, PRX>>, <<PLF, CMP>>, <<PLF, SDD>>,
     <<PRX, PAC>>, <<PAC, PCF>>, <<PAC, RDA>>, <<PCF, PCX>>, <<PCF, RDA>>, <<PCX, PID>>,
     <<PID, U0>>, <<PID, HRA>>, <<PID, LPB>>, <<PID, RDR>>,
     <<U0, RAC>>, <<HRA, HRX>>, <<HRA, SIQ>>, <<HRX, U0>>, <<HRX, SIQ>>,
     <<RAC, RCF>>, <<RAC, SIQ>>, <<RCF, RCX>>, <<RCF, SIQ>>, <<RCX, RID>>,
     <<RID, U0>>, <<RID, HRA>>, <<RID, LPB>>, <<RID, SIQ>>,
     <<SIQ, SID>>, <<SID, SIQ>>, <<SID, RDQ>>}

ASSUME Cardinality(FsmEdges) = NEdges

EdgeLegal == [][ref'.st # ref.st => <<ref.st, ref'.st>> \in FsmEdges]_vars
U0OnlyFromIdle == [][(ref'.st = U0 /\ ref.st # U0) => (ref.st \in {PID, RID, HRX} /\ in'.idle /\ ~in'.rst /\ ~in'.drst)]_vars
ResetWins == [][((in'.rst \/ in'.drst) /\ ref.st # RDR) => ref'.st = RDR]_vars
DomainResetRestarts == [][in'.drst => ref' = RefInit(ref.lo)]_vars
CounterRestarts == [][ref'.st # ref.st => ref'.cyc = 0]_vars

=============================================================================
