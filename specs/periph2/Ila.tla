-------------------------------- MODULE Ila --------------------------------
(***************************************************************************)
(* Reference specification of luna.gateware.debug.ila.                     *)
(* IntegratedLogicAnalyzer (property C56), written from the class          *)
(* doc-string: a trigger strobe starts sampling; sample_depth samples of   *)
(* the inputs, delayed by samples_pretrigger cycles, are stored; `sampling`*)
(* is high while that is in progress, `complete` afterwards; the buffer is *)
(* read back through captured_sample_number / captured_sample.             *)
(*                                                                         *)
(* Grain: one step = one clock cycle.  Outputs of a cycle are functions of *)
(* the state *before* the cycle's inputs take effect (registered outputs). *)
(*   Env  : trigger (any cycle, also during a capture and after complete), *)
(*          input word d, read address (addresses >= Depth read nothing    *)
(*          defined), rst = synchronous reset of the ILA's clock domain in *)
(*          any cycle (the ILA returns to idle, complete is cleared; the   *)
(*          delay line's contents are unknown afterwards).                 *)
(*   Ref  : a delay line of Pre words, a write index, the buffer `mem`.    *)
(*          The capture cycles are the Depth cycles following an accepted  *)
(*          trigger (a trigger is accepted iff no capture is in progress). *)
(*          `complete` may lag the end of the capture by up to MaxLag      *)
(*          cycles (named freedom; the property only says it is raised).   *)
(*          Read-back is checked once the address has been held for two    *)
(*          cycles with `complete` high (read latency 1 or 2 allowed).     *)
(*   Prop : ghost `hist` (every input word so far) and `trigT` (cycle of   *)
(*          the accepted trigger): after a capture, mem[j] is exactly the  *)
(*          input of cycle trigT+1+j-Pre for j = 0..Depth-1 -- consecutive,*)
(*          nothing skipped or repeated, undisturbed by later triggers.    *)
(***************************************************************************)
EXTENDS Integers, Sequences

CONSTANTS Configs,    \* configurations explored by the exhaustive model, coded 10 * sample_depth + pretrigger
          Data,       \* input alphabet (exhaustive model only)
          MaxLag      \* cycles `complete` may lag behind the last stored sample

VARIABLES Depth,      \* configuration: sample_depth (any value >= 1, also non powers of two); fixed by Init
          Pre,        \* configuration: samples_pretrigger (>= 0); fixed by Init
          capturing,  \* a capture is in progress (this is the `sampling` output)
          n,          \* index of the buffer entry written in the coming cycle (while capturing)
          dl,         \* the last Pre input words, oldest first
          mem,        \* the sample buffer, 0..Depth-1
          done,       \* all Depth samples of the last accepted trigger have been stored
          cmp,        \* `complete` as last observed / produced
          lag,        \* cycles since done became true without complete
          ra, rstab,  \* read address applied in the previous cycle, and for how many cycles it has been
                      \* applied unchanged with complete high
          in,         \* Env: [trigger, d, addr] of the last cycle
          out,        \* outputs of the last cycle [sampling, complete]
          hist,       \* ghost: every input word, hist[k] = d of cycle k
          trigT,      \* ghost: cycle number of the last accepted trigger (0: none yet)
          rstT        \* ghost: cycle number of the last reset (0: none yet)

vars == <<Depth, Pre, capturing, n, dl, mem, done, cmp, lag, ra, rstab, in, out, hist, trigT, rstT>>

Bool == {TRUE, FALSE}
Inputs == [trigger : Bool, d : Data, addr : 0..(Depth - 1), rst : {FALSE}]

ResetWord == 0          \* value of the delay registers / buffer after power-up
Unknown == -1           \* a delay-line word whose value the property does not fix (input from before a reset)

InitWith(depth, pretrig) ==
        /\ Depth = depth /\ Pre = pretrig
        /\ capturing = FALSE /\ n = 0
        /\ dl = [k \in 1..pretrig |-> ResetWord]
        /\ mem = [k \in 0..(depth - 1) |-> ResetWord]
        /\ done = FALSE /\ cmp = FALSE /\ lag = 0
        /\ ra = 0 /\ rstab = 0
        /\ in = [trigger |-> FALSE, d |-> ResetWord, addr |-> 0, rst |-> FALSE]
        /\ out = [sampling |-> FALSE, complete |-> FALSE]
        /\ hist = <<>> /\ trigT = 0 /\ rstT = 0

Init == \E c \in Configs : InitWith(c \div 10, c % 10)

-----------------------------------------------------------------------------
(* Outputs of the coming cycle (functions of the pre-state, or constrained by it) *)
Sampling == capturing

CompleteOK(c) == /\ (c => done)                          \* never before the last sample is stored
                 /\ (cmp /\ done => c)                   \* once raised it stays until the next accepted trigger
                 /\ (done /\ lag >= MaxLag => c)         \* and it is raised

ReadChecked == rstab >= 2 /\ ra < Depth /\ mem[ra] # Unknown    \* address held for two cycles while complete
ReadValue   == mem[ra]

Accepts(i) == i.trigger /\ ~capturing /\ ~i.rst         \* a trigger during a capture (or a reset) is ignored

(* One clock cycle with inputs i; c = `complete` output observed/produced in this cycle. *)
Step(i, c) ==
  LET word == IF Pre = 0 THEN i.d ELSE dl[1]             \* the input of Pre cycles ago
      last == capturing /\ n + 1 = Depth
      done1 == IF Accepts(i) THEN FALSE ELSE IF last THEN TRUE ELSE done
      cmp1  == IF Accepts(i) THEN FALSE ELSE c
  IN /\ UNCHANGED <<Depth, Pre>>
     /\ in' = i
     /\ out' = [sampling |-> Sampling, complete |-> c]
     /\ dl' = IF i.rst THEN [k \in 1..Pre |-> Unknown] ELSE IF Pre = 0 THEN dl ELSE Append(Tail(dl), i.d)
     /\ mem' = IF capturing THEN [mem EXCEPT ![n] = word] ELSE mem
     /\ capturing' = IF i.rst THEN FALSE ELSE IF capturing THEN ~last ELSE i.trigger
     /\ n' = IF i.rst THEN 0 ELSE IF capturing THEN (IF last THEN 0 ELSE n + 1) ELSE 0
     /\ done' = (~i.rst /\ done1)
     /\ cmp' = (~i.rst /\ cmp1)
     /\ lag' = IF ~i.rst /\ done1 /\ ~cmp1 THEN lag + 1 ELSE 0
     /\ ra' = i.addr
     /\ rstab' = IF c /\ ~Accepts(i) /\ ~i.rst THEN (IF i.addr = ra THEN (IF rstab >= 2 THEN 2 ELSE rstab + 1) ELSE 1) ELSE 0
     /\ hist' = Append(hist, i.d)
     /\ trigT' = IF Accepts(i) THEN Len(hist) + 1 ELSE trigT
     /\ rstT' = IF i.rst THEN Len(hist) + 1 ELSE rstT

(* cycles named by what happens in them *)
IdleCycle      == \E i \in Inputs, c \in Bool : ~capturing /\ ~i.trigger /\ CompleteOK(c) /\ Step(i, c)
TriggerCycle   == \E i \in Inputs, c \in Bool : ~capturing /\ i.trigger /\ CompleteOK(c) /\ Step(i, c)
CaptureCycle   == \E i \in Inputs, c \in Bool : capturing /\ ~i.trigger /\ CompleteOK(c) /\ Step(i, c)
IgnoredTrigger == \E i \in Inputs, c \in Bool : capturing /\ i.trigger /\ CompleteOK(c) /\ Step(i, c)

\* (the exhaustive model explores one reset per behaviour, in any cycle, with quiet other inputs)
ResetCycle     == /\ rstT = 0
                  /\ \E i \in Inputs, c \in Bool : ~i.trigger /\ i.addr = 0 /\ CompleteOK(c) /\ Step([i EXCEPT !.rst = TRUE], c)

Next == IdleCycle \/ TriggerCycle \/ CaptureCycle \/ IgnoredTrigger \/ ResetCycle

Spec == Init /\ [][Next]_vars

-----------------------------------------------------------------------------
(* Prop *)
TypeOK == /\ capturing \in Bool /\ n \in 0..(Depth - 1) /\ done \in Bool /\ cmp \in Bool /\ rstT <= Len(hist)
          /\ Len(dl) = Pre /\ lag \in 0..MaxLag

HistAt(k) == IF k > rstT /\ k >= 1 /\ k <= Len(hist) THEN hist[k] ELSE IF rstT = 0 THEN ResetWord ELSE Unknown

\* exactly the Depth consecutive samples following the trigger, delayed by Pre cycles
CapturedWindow == done => \A j \in 0..(Depth - 1) : mem[j] = HistAt(trigT + 1 + j - Pre)
\* while capturing, the part already stored is right as well (nothing is written out of order)
PartialWindow == capturing => \A j \in 0..(n - 1) : mem[j] = HistAt(trigT + 1 + j - Pre)
\* the capture takes exactly Depth cycles after the trigger cycle
CaptureLength == /\ (capturing => Len(hist) = trigT + n /\ trigT > rstT)
                 /\ (done /\ ~capturing => Len(hist) >= trigT + Depth)
CompleteImpliesDone == (cmp => done) /\ ~(capturing /\ done)
\* a trigger during a capture disturbs nothing
TriggerDuringCaptureIgnored ==
    [][(capturing /\ in'.trigger) => (trigT' = trigT /\ (capturing' => n' = n + 1))]_vars
ResetReturnsToIdle == [][in'.rst => (~capturing' /\ ~done' /\ ~cmp')]_vars
\* the buffer only changes in capture cycles
BufferStableOutsideCapture == [][~capturing => mem' = mem]_vars

=============================================================================
