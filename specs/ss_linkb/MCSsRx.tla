------------------------------- MODULE MCSsRx -------------------------------
(* Bounded instance of SsRx: every interleaving of partner events, consumption, link-down /   *)
(* reset / link-up points and (legal) DUT reactions.  Header contents are abstracted to the   *)
(* sequence number the header was accepted with.                                              *)
EXTENDS SsRx, TLC, LinkCrc, CRC

(* The integer-register CRCs used by the trace specifications are the CRCs of the shared library. *)
LB(x) == <<x % 256, x \div 256>>
ASSUME \A v \in 0..2047 : LinkCrc5(v) = Usb3Crc5(v)
ASSUME \A a \in {0, 1, 640, 4660, 43690, 65535} :
          LET M == <<a, 3, (a * 7) % 65536, 65535 - a, 9, a>> IN
          LinkCrc16(M) = Usb3Crc16(LB(M[1]) \o LB(M[2]) \o LB(M[3]) \o LB(M[4]) \o LB(M[5]) \o LB(M[6]))
ASSUME LinkCrc16(<<640, 0, 4, 1, 0, 0>>) = 6213      \* tests/test_usb3_receiver.py: DW3 = 0x10001845

CONSTANTS MaxAcc,       \* bound on accepted headers per U0 epoch (ghost logs)
          MaxEpochs,    \* bound on link-up events
          Deltas,       \* sequence-number offsets tried (0 = expected)
          WithReqs      \* include LRTY / keep-alive requests (BOOLEAN)

VARIABLE epochs
mvars == <<vars, epochs>>

Cmds == {LGOOD, LCRD, LRTY, LBAD, LUP}

MCInit == Init /\ epochs = 0

MHdr      == UNCHANGED epochs /\ \E k \in Kinds, d \in Deltas : HdrArrive(k, d, expSeq)
MLrty     == UNCHANGED epochs /\ PartnerLrty
MConsume  == UNCHANGED epochs /\ Consume
MRetryReq == WithReqs /\ UNCHANGED epochs /\ RetryReq
MKaReq    == WithReqs /\ UNCHANGED epochs /\ KeepaliveReq
MDown     == UNCHANGED epochs /\ \E r \in BOOLEAN : LinkDown(r)
MReset    == UNCHANGED epochs /\ UsbReset
MResetUp  == WithReqs /\ ResetUp /\ epochs' = epochs + 1
MDReset   == WithReqs /\ DomainReset /\ epochs' = epochs + 1
MUp       == LinkUp /\ epochs' = epochs + 1
MTxStart  == UNCHANGED epochs /\ TxStart
MTxEnd    == UNCHANGED epochs /\ \E c \in Cmds, s \in 0..7 : TxEndFresh(c, s)
MTxStale  == UNCHANGED epochs /\ TxEndStale
MQuiet    == UNCHANGED epochs /\ Quiet

MCNext == MHdr \/ MLrty \/ MConsume \/ MRetryReq \/ MKaReq \/ MDown \/ MReset \/ MResetUp \/ MDReset \/ MUp
          \/ MTxStart \/ MTxEnd \/ MTxStale \/ MQuiet

MCSpec == MCInit /\ [][MCNext]_mvars

\* `ev` only labels the last event; it is hidden from the fingerprint (the theorems that mention it
\* are action properties, which TLC evaluates on every generated transition).
MCView == <<rvars, gvars, epochs>>

Bounded == Len(gAcc) <= MaxAcc /\ epochs <= MaxEpochs
=============================================================================
