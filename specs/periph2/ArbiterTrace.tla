---------------------------- MODULE ArbiterTrace ----------------------------
(***************************************************************************)
(* Trace validation for Arbiter.  Each trace recorded from a real          *)
(* StreamArbiter / HeaderQueueArbiter is a sequence of per-cycle records   *)
(*   [valid, data : sequences over the N inputs, ready   -- inputs          *)
(*    ovalid, odata, oready : sequence, idle]            -- observed        *)
(* `data` / `odata` are opaque payload values (compared by equality).      *)
(* A trace is [cfg |-> [n |-> N, comb |-> BOOLEAN], steps |-> <<records>>]; *)
(* every record also has rst (clock-domain reset asserted in this cycle).   *)
(***************************************************************************)
EXTENDS Arbiter, TLC, TLCExt, Json, IOUtils

Logs == JsonDeserialize(IOEnv.TRACE_FILE)

VARIABLES tid, l, status
tvars == <<vars, tid, l, status>>

ASSUME \A i \in 1..Len(Logs) : TLCSet(i, <<0, "ok">>)

Rec == Logs[tid].steps[l]

InputOf(r) == [valid |-> r.valid, data |-> r.data, ready |-> r.ready, rst |-> r.rst]

\* Named clauses of the observation relation (Ref outputs are a function of sel and the inputs).
Failing(r) ==
    LET i == InputOf(r)
        e == Eff(i) IN
    IF ~EnvOK(i) THEN "env_multiplexer_two_inputs_valid"
    ELSE IF r.ovalid # OutValid(e, i) THEN "source_valid"
    ELSE IF OutValid(e, i) /\ r.odata # OutData(e, i) THEN "source_payload"
    ELSE IF \E k \in Idx : k # e /\ r.oready[k] THEN "ready_to_nonselected"
    ELSE IF e # 0 /\ i.valid[e] /\ r.oready[e] # i.ready THEN "ready_to_selected"    \* an offered word sees the output's ready
    ELSE IF e # 0 /\ r.oready[e] /\ ~i.ready THEN "ready_invented"
    ELSE IF ~Comb /\ r.idle # IdleFlag(i) THEN "idle"                                  \* (the multiplexer has no idle output)
    ELSE "ok"

TInit == /\ tid \in 1..Len(Logs)
         /\ InitWith(Logs[tid].cfg.n, Logs[tid].cfg.comb)
         /\ l = 1
         /\ status = "ok"

TNext == /\ status = "ok"
         /\ l <= Len(Logs[tid].steps)
         /\ LET r == Rec IN
              /\ status' = Failing(r)
              /\ Step(InputOf(r))
         /\ l' = l + 1
         /\ UNCHANGED tid

TSpec == TInit /\ [][TNext]_tvars

TraceProp == /\ ForwardsSelectedOnly /\ ReadyOnlyToSelected /\ ExactlyOncePerCycle
             /\ IdleExactlyWhenNothingOffered

\* verdict of the state just reached; a trace is not followed beyond a failed clause or invariant
Verdict == IF status # "ok" THEN status ELSE IF TraceProp THEN "ok" ELSE "prop_invariant"
Progress == TLCSet(tid, <<l - 1, Verdict>>) /\ Verdict = "ok"

Verdicts == JsonSerialize(IOEnv.VERDICT_FILE, [i \in 1..Len(Logs) |-> TLCGet(i)])
=============================================================================
