----------------------------- MODULE FifoTrace -----------------------------
(***************************************************************************)
(* Trace validation for Fifo: every trace recorded from the real           *)
(* TransactionalizedFIFO is a sequence of per-cycle records                *)
(*   [we, wd, wc, wdsc, re, rc, rdsc   -- inputs applied in this cycle      *)
(*    empty, full, space, rdata]       -- outputs observed *before* the     *)
(*                                        clock edge of this cycle          *)
(* Batch recipe: Logs is an array of traces; each trace is its own linear  *)
(* chain (tid); register tid holds <<steps matched, failing clause>>.      *)
(***************************************************************************)
EXTENDS Fifo, TLC, TLCExt, Json, IOUtils

Logs == JsonDeserialize(IOEnv.TRACE_FILE)

VARIABLES tid, l, status
tvars == <<vars, tid, l, status>>

ASSUME \A i \in 1..Len(Logs) : TLCSet(i, <<0, "ok">>)

Rec == Logs[tid][l]

InputOf(r) == [we |-> r.we, wd |-> r.wd, wc |-> r.wc, wdsc |-> r.wdsc,
               re |-> r.re, rc |-> r.rc, rdsc |-> r.rdsc]

\* Named clauses of the observation relation, evaluated in the state *before* the step.
Failing(r) ==
    IF r.empty # Empty THEN "empty"
    ELSE IF r.full # Full THEN "full"
    ELSE IF r.space # Space THEN "space"
    ELSE IF ~Empty /\ r.rdata # HeadEntry THEN "read_data"
    ELSE IF ~LegalInput(InputOf(r)) THEN "env_illegal_input"
    ELSE "ok"

TInit == /\ Init
         /\ tid \in 1..Len(Logs)
         /\ l = 1
         /\ status = "ok"

TNext == /\ status = "ok"
         /\ l <= Len(Logs[tid])
         /\ LET r == Rec IN
              /\ status' = Failing(r)
              /\ Step(InputOf(r))
         /\ l' = l + 1
         /\ UNCHANGED tid

TSpec == TInit /\ [][TNext]_tvars

\* Prop invariants are evaluated on every state of every observed execution.
TraceProp == NoLossNoDupNoReorder /\ FlagsConsistent /\ FinalisedIsPrefix /\ StructOK

\* a clause failure keeps its name; an invariant failure stops the trace there (it is not followed further)
Verdict == IF status # "ok" THEN status ELSE IF TraceProp THEN "ok" ELSE "prop_invariant"
Progress == TLCSet(tid, <<l - 1, Verdict>>) /\ Verdict = "ok"

Verdicts == JsonSerialize(IOEnv.VERDICT_FILE, [i \in 1..Len(Logs) |-> TLCGet(i)])
=============================================================================
