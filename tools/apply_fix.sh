#!/bin/sh
# usage: tools/apply_fix.sh <ID-slug>   — apply fixes/<ID-slug>.diff to /repo as one unguarded "fix:" commit
set -e
N="$1"
cd /repo
test -z "$(git status --porcelain --untracked-files=no)" || { echo "repo dirty"; exit 1; }
git apply --check "/verif/fixes/$N.diff"
git apply "/verif/fixes/$N.diff"
if ! /venv/bin/python -m pytest -q -p no:cacheprovider tests/ 2>&1 | tail -1 | grep -q "93 passed"; then
  echo "TESTS FAILED - reverting"; git checkout -- .; exit 1
fi
head -1 "/verif/fixes/$N.msg" | grep -q '^fix:' || { echo "msg must start with fix:"; git checkout -- .; exit 1; }
git commit -q -a -F "/verif/fixes/$N.msg"
git log --oneline | head -1
