"""Which engine (harness/bindings/<engine>.py) decides which property."""
import importlib
import os
import pkgutil

_HERE = os.path.join(os.path.dirname(os.path.abspath(__file__)), "bindings")

# static map keeps `./check` start-up cheap; tools/gen_manifest.py verifies it against the bindings' META
ENGINES = {
    "fifo": ["C18"],
}


def engine_of(prop):
    for e, props in ENGINES.items():
        if prop in props:
            return e
    return None


def all_meta():
    out = {}
    for e in ENGINES:
        mod = importlib.import_module("harness.bindings." + e)
        for pid, meta in mod.META.items():
            m = dict(meta)
            m["engine"] = e
            out[pid] = m
    return out
