------------------------------- MODULE SpiDev -------------------------------
(***************************************************************************)
(* Reference specification of luna.gateware.interface.spi                  *)
(* .SPIDeviceInterface (property C50), written from the doc-string, the    *)
(* property and the SPI mode conventions (CPOL = idle level of SCK, CPHA =  *)
(* 0: sample on the leading edge / shift out on the trailing edge, CPHA = 1:*)
(* shift out on the leading edge / sample on the trailing edge).           *)
(*                                                                         *)
(* Grain: one step = one clock cycle of the device's (much faster) clock.  *)
(*   Env  : the four inputs of the cycle  i = [cs, sck, sdi, wout]         *)
(*          (cs = chip selected, logical; wout = word_out), restricted to  *)
(*          what an SPI host does (LegalInput below).                      *)
(*   Ref  : rx   = bits sampled so far for the word in progress            *)
(*          txw  = the word presented for transmission for this word       *)
(*          pend = completed words that still await their word_complete    *)
(*                 strobe, oldest first, each with its age in cycles       *)
(*   Prop : every WS consecutive sample edges under one CS assertion form  *)
(*          one word, in the configured bit order; each is reported exactly *)
(*          once; when data changes on the leading edge (CPHA = 1) the host *)
(*          samples the bits of the presented word in the configured order. *)
(*                                                                         *)
(* Freedom left to the implementation: the word_complete strobe (with      *)
(* word_in valid in that cycle) comes 1..MaxLat cycles after the completing *)
(* sample edge; word_in between strobes and SDO outside the host's sample   *)
(* edges (and in CPHA = 0 modes altogether) are not constrained.            *)
(***************************************************************************)
EXTENDS Naturals, Sequences, Bits

CONSTANTS MaxLat        \* a completed word is reported within 1..MaxLat cycles

VARIABLES WS, cpol, cpha, msb,   \* configuration: word size, clock polarity / phase (0/1), MSB first
          in,           \* Env: inputs of the cycle just taken [cs, sck, sdi, wout]
          sckq,         \* Env: sck did not change in the cycle just taken
          csq,          \* Env: cs did not change in the cycle just taken
          wq,           \* Env: wout did not change in the cycle just taken
          cool,         \* Env: cycles since the last word-completing sample edge (saturates at MaxLat)
          rx,           \* Ref: bits of the word in progress, in arrival order
          txw,          \* Ref: word presented for transmission during the word in progress
          pend,         \* Ref: completed, not yet reported words  << [w, age], ... >>
          out,          \* outputs observed / chosen in the cycle just taken [wc, win, sdo]
          allbits,      \* ghost: every bit sampled since CS was asserted
          done,         \* ghost: every word completed since CS was asserted, in order
          nCompleted,   \* ghost: words completed so far (all assertions)
          nReported     \* ghost: word_complete strobes so far

vars == <<WS, cpol, cpha, msb, in, sckq, csq, wq, cool, rx, txw, pend, out, allbits, done, nCompleted, nReported>>

-----------------------------------------------------------------------------
(* bit order *)
WordVal(b) == IF msb THEN ValMSB(b) ELSE ValLSB(b)          \* bits in arrival order -> word value
WordBits(w) == IF msb THEN BitsMSB(w, WS) ELSE BitsLSB(w, WS) \* word value -> bits in wire order
TxBit(w, j) == WordBits(w)[j]                                 \* the j-th bit of w on the wire (j = 1..WS)

RECURSIVE Flatten(_)
Flatten(ws) == IF ws = <<>> THEN <<>> ELSE WordBits(Head(ws)) \o Flatten(Tail(ws))

-----------------------------------------------------------------------------
(* Env: what an SPI host does.  SCK edges are at least two device cycles apart, and so are CS *)
(* changes; a CS change may come in the cycle right after (or before) an SCK edge -- e.g. CS is  *)
(* released one cycle after the last sample edge -- but never in the same cycle.  word_out is    *)
(* only changed away from SCK / CS transitions and not in the MaxLat cycles after a              *)
(* word-completing sample edge (the window in which the device may still be reporting the word   *)
(* and latching the next one).                                                                   *)
IsEdge(i)    == i.sck # in.sck
Leading(i)   == IsEdge(i) /\ i.sck # cpol          \* SCK leaves its idle level
Trailing(i)  == IsEdge(i) /\ i.sck = cpol          \* SCK returns to its idle level
SampleEdge(i) == i.cs /\ (IF cpha = 0 THEN Leading(i) ELSE Trailing(i))

\* Name of the first violated host rule ("ok" if none).
EnvFail(i) ==
    LET csch == i.cs # in.cs
        moved == IsEdge(i) \/ csch
    IN IF IsEdge(i) /\ csch THEN "env_sck_and_cs_change_together"
       ELSE IF IsEdge(i) /\ ~sckq THEN "env_sck_edges_in_consecutive_cycles"
       ELSE IF csch /\ ~csq THEN "env_cs_changes_in_consecutive_cycles"
       ELSE IF i.cs /\ ~in.cs /\ i.sck # cpol THEN "env_cs_asserted_while_sck_not_idle"
       ELSE IF i.sdi # in.sdi /\ IsEdge(i) THEN "env_sdi_changes_on_sck_edge"
       ELSE IF i.wout # in.wout /\ (moved \/ cool < MaxLat) THEN "env_word_out_changes_at_transition_or_before_strobe"
       ELSE IF moved /\ ~wq THEN "env_word_out_changed_just_before_transition"
       ELSE "ok"
LegalInput(i) == EnvFail(i) = "ok"

-----------------------------------------------------------------------------
InitCfg(ws, pol, pha, m) ==
    /\ WS = ws /\ cpol = pol /\ cpha = pha /\ msb = m
    /\ in = [cs |-> FALSE, sck |-> pol, sdi |-> 0, wout |-> 0]
    /\ sckq = TRUE /\ csq = TRUE /\ wq = TRUE /\ cool = MaxLat
    /\ rx = <<>> /\ txw = 0 /\ pend = <<>>
    /\ out = [wc |-> FALSE, win |-> 0, sdo |-> 0]
    /\ allbits = <<>> /\ done = <<>> /\ nCompleted = 0 /\ nReported = 0

Aged(q) == [k \in 1..Len(q) |-> [w |-> q[k].w, age |-> q[k].age + 1]]

\* Everything one cycle decides: i = inputs, o = outputs of the cycle.
Outcome(i, o) ==
    LET p1      == Aged(pend)
        repOK   == p1 # <<>> /\ o.win = p1[1].w
        p2      == IF o.wc /\ p1 # <<>> THEN Tail(p1) ELSE p1
        se      == SampleEdge(i)
        rx1     == IF se THEN Append(rx, i.sdi) ELSE rx
        full    == se /\ Len(rx1) = WS
        sdoOK   == ~(se /\ cpha = 1) \/ o.sdo = TxBit(txw, Len(rx) + 1)
        err     == IF EnvFail(i) # "ok" THEN EnvFail(i)
                   ELSE IF o.wc /\ p1 = <<>> THEN "word_complete_without_completed_word"
                   ELSE IF o.wc /\ ~repOK THEN "word_in"
                   ELSE IF p2 # <<>> /\ p2[1].age >= MaxLat THEN "word_not_reported"
                   ELSE IF ~sdoOK THEN "sdo"
                   ELSE "ok"
    IN [err |-> err, full |-> full,
        rx  |-> IF ~i.cs \/ full THEN <<>> ELSE rx1,
        txw |-> IF ~i.cs \/ full THEN i.wout ELSE txw,
        pend |-> IF full THEN Append(p2, [w |-> WordVal(rx1), age |-> 0]) ELSE p2,
        allbits |-> IF ~i.cs THEN <<>> ELSE IF se THEN Append(allbits, i.sdi) ELSE allbits,
        done |-> IF ~i.cs THEN <<>> ELSE IF full THEN Append(done, WordVal(rx1)) ELSE done,
        nCompleted |-> nCompleted + (IF full THEN 1 ELSE 0),
        nReported |-> nReported + (IF o.wc THEN 1 ELSE 0)]

StepR(i, o, r) ==                      \* r = Outcome(i, o), computed once by the caller
    /\ r.err = "ok"
    /\ in' = i /\ out' = o
    /\ sckq' = (i.sck = in.sck) /\ csq' = (i.cs = in.cs)
    /\ wq' = (i.wout = in.wout)
    /\ cool' = (IF r.full THEN 0 ELSE IF cool < MaxLat THEN cool + 1 ELSE MaxLat)
    /\ rx' = r.rx /\ txw' = r.txw /\ pend' = r.pend
    /\ allbits' = r.allbits /\ done' = r.done /\ nCompleted' = r.nCompleted /\ nReported' = r.nReported
    /\ UNCHANGED <<WS, cpol, cpha, msb>>

Step(i, o) == StepR(i, o, Outcome(i, o))

-----------------------------------------------------------------------------
(* Prop *)
\* Every WS consecutive sample edges of one CS assertion form one word, in the configured order:
\* the completed words followed by the bits in progress are exactly the bits sampled, in order.
WholeWords == /\ Flatten(done) \o rx = allbits
              /\ Len(rx) < WS
              /\ Len(done) = Len(allbits) \div WS

\* Every completed word is reported exactly once (none lost, none reported twice).
ReportedOnce == nReported + Len(pend) = nCompleted
\* ... promptly, and with its own value on word_in in the strobe's cycle.
ReportPrompt == \A k \in 1..Len(pend) : pend[k].age < MaxLat
ReportValue == [][out'.wc => (pend # <<>> /\ out'.win = pend[1].w)]_vars

\* In the modes where data changes on the leading edge, the host samples, at the j-th sample edge of a
\* word, the j-th bit (configured order: most significant first when msb) of the presented word.
SdoIsPresentedWord ==
    [][(SampleEdge(in') /\ cpha = 1) => out'.sdo = TxBit(txw, Len(rx) + 1)]_vars

\* Nothing is assembled while the chip is not selected.
DeselectedIdle == ~in.cs => (rx = <<>> /\ allbits = <<>>)
=============================================================================
