---------------------------- MODULE OutBoundary ----------------------------
(***************************************************************************)
(* C28 -- USBOutStreamBoundaryDetector, written from the property          *)
(* statement and the module doc-string.  Grain: one step = one clock cycle.*)
(*                                                                         *)
(*  Env  : `in` = raw stream (valid v, next n, payload p) and the strobes  *)
(*         complete_in c / invalid_in x, which may fire in any cycle.  A   *)
(*         packet is a run of v; its bytes are the cycles with n (any      *)
(*         gaps); at least one byte per packet (the property's range).     *)
(*         Assumptions: n only inside v; v stays low at least MinGap       *)
(*         cycles between packets.                                         *)
(*  Ref  : bytes = the packet's bytes so far, nout = how many were output. *)
(*         An output beat (valid & next) must carry the next byte, `first` *)
(*         iff it is the first, `last` iff it is the final one (which is   *)
(*         only known once v fell).  All bytes are out at most OutWin      *)
(*         cycles after v fell.  complete_out / invalid_out only strictly  *)
(*         after the beat marked last, at most StrobeWin cycles after v    *)
(*         fell, at most once, and only if the corresponding input strobe  *)
(*         was seen during the packet; it MUST come if that strobe was     *)
(*         seen after the first byte's cycle and not later than the cycle  *)
(*         in which v is first low (earlier/later ones: may, the statement *)
(*         does not say).                                                  *)
(*  Prop : over the ghost log olog of output beats.                        *)
(***************************************************************************)
EXTENDS Naturals, Sequences

CONSTANTS OutWin,      \* all bytes are out by cycle OutWin after v fell (cycle 1 = first cycle with v low)
          StrobeWin,   \* complete_out / invalid_out by cycle StrobeWin (> OutWin)
          MinGap       \* Env: v stays low at least MinGap cycles (> StrobeWin)

VARIABLES in, out,
          bytes,       \* bytes of the current (or last) packet
          nout,        \* number of them output so far
          ph,          \* "idle" / "rx" / "post" (v fell, outputs still owed or allowed)
          age,         \* cycles since v fell (0 while v; saturates at Cap)
          mustC, mayC, doneC,   \* complete: must be reported / may be reported / has been reported
          mustX, mayX, doneX,   \* invalid: same
          olog         \* ghost: output beats of this packet, [p, f, l]

vars == <<in, out, bytes, nout, ph, age, mustC, mayC, doneC, mustX, mayX, doneX, olog>>

Cap == IF MinGap > StrobeWin + 1 THEN MinGap ELSE StrobeWin + 1

Rise(i) == i.v /\ ~in.v
Fall(i) == ~i.v /\ in.v
InPost(i) == Fall(i) \/ (~i.v /\ ph = "post" /\ age < StrobeWin)      \* this cycle lies in the window after the packet
Age1(i)   == IF i.v THEN 0 ELSE IF age < Cap THEN age + 1 ELSE Cap
Ph1(i)    == IF i.v THEN "rx" ELSE IF InPost(i) THEN "post" ELSE "idle"
Bytes0(i) == IF Rise(i) THEN <<>> ELSE bytes
Bytes1(i) == IF i.v /\ i.n THEN Append(Bytes0(i), i.p) ELSE Bytes0(i)
Nout0(i)  == IF Rise(i) THEN 0 ELSE nout
OBeat(o)  == o.v /\ o.n
Nout1(i, o) == Nout0(i) + (IF OBeat(o) THEN 1 ELSE 0)
LastDone0(i) == ~Rise(i) /\ ph = "post" /\ Len(bytes) >= 1 /\ nout = Len(bytes)     \* the last byte went out in an earlier cycle

\* strobe bookkeeping (s = the input strobe of this cycle, must/may = flags before it)
InMust(i) == Len(Bytes0(i)) >= 1 /\ (i.v \/ Fall(i))
InMay(i)  == i.v \/ InPost(i)
Must1(i, s, must) == (IF Rise(i) THEN FALSE ELSE must) \/ (s /\ InMust(i))
May1(i, s, may)   == (IF Rise(i) THEN FALSE ELSE may) \/ (s /\ InMay(i))
Done0(i, done)    == IF Rise(i) THEN FALSE ELSE done

\* Environment assumptions.
Legal(i) == /\ i.n => i.v
            /\ Rise(i) => (ph = "idle" /\ age >= MinGap)
            /\ Fall(i) => Len(bytes) >= 1

StrobeFailing(i, os, s, must, may, done, names) ==
    IF os /\ ~(InPost(i) /\ May1(i, s, may) /\ ~Done0(i, done)) THEN names[1]
    ELSE IF os /\ ~LastDone0(i) THEN names[2]
    ELSE IF ~os /\ Must1(i, s, must) /\ ~Done0(i, done) /\ InPost(i) /\ Age1(i) >= StrobeWin THEN names[3]
    ELSE "ok"

\* The observation relation: name of the first violated clause.
Failing(i, o) ==
    LET k  == Nout0(i) + 1
        b1 == Bytes1(i)
        fc == StrobeFailing(i, o.c, i.c, mustC, mayC, doneC,
                            <<"complete_out_unexpected", "complete_out_before_last_byte", "complete_out_missing">>)
        fx == StrobeFailing(i, o.x, i.x, mustX, mayX, doneX,
                            <<"invalid_out_unexpected", "invalid_out_before_last_byte", "invalid_out_missing">>)
    IN
    IF ~Legal(i) THEN "env_illegal_input"
    ELSE IF Fall(i) /\ nout = Len(bytes) THEN "last_flag_missing"          \* every byte already went out, none marked last
    ELSE IF OBeat(o) /\ ~(i.v \/ InPost(i)) THEN "out_beat_outside_packet"
    ELSE IF OBeat(o) /\ k > Len(b1) THEN "out_beat_without_data"
    ELSE IF OBeat(o) /\ o.p # b1[k] THEN "out_payload_value"
    ELSE IF OBeat(o) /\ o.f # (k = 1) THEN "first_flag"
    ELSE IF OBeat(o) /\ o.l /\ ~(InPost(i) /\ k = Len(b1)) THEN "last_flag_early"
    ELSE IF OBeat(o) /\ ~o.l /\ InPost(i) /\ k = Len(b1) THEN "last_flag_missing"
    ELSE IF InPost(i) /\ Age1(i) >= OutWin /\ Nout1(i, o) < Len(b1) THEN "last_byte_missing"
    ELSE IF fc # "ok" THEN fc
    ELSE IF fx # "ok" THEN fx
    ELSE "ok"

Step(i, o) ==
    /\ in' = i /\ out' = o
    /\ bytes' = Bytes1(i)
    /\ nout' = Nout1(i, o)
    /\ ph' = Ph1(i)
    /\ age' = Age1(i)
    /\ mustC' = Must1(i, i.c, mustC) /\ mayC' = May1(i, i.c, mayC) /\ doneC' = (Done0(i, doneC) \/ o.c)
    /\ mustX' = Must1(i, i.x, mustX) /\ mayX' = May1(i, i.x, mayX) /\ doneX' = (Done0(i, doneX) \/ o.x)
    /\ olog' = LET base == IF Rise(i) THEN <<>> ELSE olog
               IN IF OBeat(o) THEN Append(base, [p |-> o.p, f |-> o.f, l |-> o.l]) ELSE base

\* A reset of the detector's clock domain while the raw stream is quiet (valid low in this and the previous cycle; it
\* may hit the flush window with outputs still owed): the outputs of the cycle are still judged, then everything owed
\* is dropped and the detector must behave like a fresh one.
ResetLegal(i) == ~i.v /\ ~in.v
ResetStep(i, o) ==
    /\ in' = i /\ out' = [o EXCEPT !.c = FALSE, !.x = FALSE, !.n = FALSE]      \* (the log of the packet is gone: keep no beat / strobe)
    /\ bytes' = <<>> /\ nout' = 0 /\ ph' = "idle" /\ age' = Cap
    /\ mustC' = FALSE /\ mayC' = FALSE /\ doneC' = FALSE /\ mustX' = FALSE /\ mayX' = FALSE /\ doneX' = FALSE
    /\ olog' = <<>>

NoIn  == [v |-> FALSE, n |-> FALSE, p |-> 0, c |-> FALSE, x |-> FALSE]
NoOut == [v |-> FALSE, n |-> FALSE, p |-> 0, f |-> FALSE, l |-> FALSE, c |-> FALSE, x |-> FALSE]

Init == /\ in = NoIn /\ out = NoOut /\ bytes = <<>> /\ nout = 0 /\ ph = "idle" /\ age = Cap
        /\ mustC = FALSE /\ mayC = FALSE /\ doneC = FALSE /\ mustX = FALSE /\ mayX = FALSE /\ doneX = FALSE
        /\ olog = <<>>

-----------------------------------------------------------------------------
(* Prop *)
OutBytes == [k \in 1..Len(olog) |-> olog[k].p]

\* same bytes, in order
SameBytesInOrder == Len(olog) <= Len(bytes) /\ OutBytes = SubSeq(bytes, 1, Len(olog))
\* first on the first byte only; last on the final byte only (and only once the packet has ended)
FirstOnFirst == \A k \in 1..Len(olog) : olog[k].f <=> (k = 1)
LastOnLast   == \A k \in 1..Len(olog) : olog[k].l <=> (k = Len(bytes) /\ ~in.v)
\* once the window after a packet has closed, every byte is out and the final one carried `last`
AllOutWhenClosed == (ph = "idle" /\ Len(bytes) >= 1) => (Len(olog) = Len(bytes) /\ olog[Len(olog)].l)
\* the strobes come strictly after the byte marked last
StrobeAfterLast == (out.c \/ out.x) => (/\ Len(olog) >= 1 /\ Len(olog) = Len(bytes) /\ olog[Len(olog)].l
                                        /\ ~OBeat(out) /\ ph = "post")
\* they reflect the strobes seen during the packet
StrobeReflects == /\ (doneC => mayC) /\ (doneX => mayX)
                  /\ ((ph = "idle" /\ mustC) => doneC)
                  /\ ((ph = "idle" /\ mustX) => doneX)
                  /\ (mustC => mayC) /\ (mustX => mayX)
TypeOK == /\ nout = Len(olog) /\ ph \in {"idle", "rx", "post"} /\ age \in 0..Cap
          /\ (in.v <=> ph = "rx") /\ (in.v => age = 0)
=============================================================================
