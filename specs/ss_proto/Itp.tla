-------------------------------- MODULE Itp --------------------------------
(***************************************************************************)
(* C47 -- Isochronous Timestamp Packet reception                           *)
(* (luna.gateware.usb.usb3.protocol.timestamp.TimestampPacketReceiver and  *)
(* its wiring to USB3ProtocolLayer.bus_interval).                          *)
(*                                                                         *)
(* Written from [USB3.2 8.7, Table 8-22/Fig. 8-25]: DW0 of an ITP is       *)
(*    bits  4:0   Type = 01100b (Isochronous Timestamp)                    *)
(*    bits 31:5   Isochronous Timestamp (27 bits):                         *)
(*                  ITS[13:0]  Bus Interval Counter  -> DW0 bits 18:5      *)
(*                  ITS[26:14] Delta                 -> DW0 bits 31:19     *)
(*                                                                         *)
(* Grain: one step = one clock cycle of the header queue feeding the       *)
(* receiver.                                                               *)
(*   Env : each cycle the link layer may present a header (valid) whose    *)
(*         DW0 is given as two 16-bit limbs (TLC integers are 32 bit).     *)
(*   Ref : the queue `pend` of timestamp packets that were taken off the   *)
(*         header queue (valid /\ type = ITP /\ ready) but not reported    *)
(*         yet, and `cur`, the last reported pair.  The property fixes the *)
(*         *values* reported, not the cycle: a packet may be reported in   *)
(*         the cycle it is accepted or up to MaxLat cycles later (named    *)
(*         freedom); it must be reported (bounded liveness), exactly once, *)
(*         in order, and nothing else may be reported.                     *)
(*   Prop: ghost logs `sent` / `reported`: reported is a prefix of sent,   *)
(*         and the unreported rest is exactly `pend`.                      *)
(***************************************************************************)
EXTENDS Naturals, Sequences, Bits

CONSTANTS MaxLat      \* max. cycles from acceptance of an ITP to its report / from offer to acceptance

VARIABLES pend,       \* accepted, unreported ITPs: sequence of [c, d, age]
          cur,        \* last reported [c, d], or NoneYet
          wait,       \* cycles the currently offered ITP has been refused so far
          in,         \* Env: inputs of the cycle that led to this state
          out,        \* the outputs observed/allowed in that cycle
          sent,       \* ghost: every accepted ITP <<c, d>>, in order
          reported    \* ghost: every reported pair <<c, d>>, in order

ivars == <<pend, cur, wait, in, out, sent, reported>>

NoneYet == [c |-> 99999, d |-> 99999]
ItpType == 12                                   \* 01100b

-----------------------------------------------------------------------------
(* Decoding DW0 bit-serially from the field positions of the standard.      *)
Dw0Bits(lo, hi) == BitsLSB(lo, 16) \o BitsLSB(hi, 16)          \* bit k of DW0 is element k+1
TypeOf(lo, hi)    == ValLSB(SubSeq(Dw0Bits(lo, hi), 1, 5))      \* bits  4:0
CounterOf(lo, hi) == ValLSB(SubSeq(Dw0Bits(lo, hi), 6, 19))     \* bits 18:5   (14 bits)
DeltaOf(lo, hi)   == ValLSB(SubSeq(Dw0Bits(lo, hi), 20, 32))    \* bits 31:19  (13 bits)

(* Encoding used by the Env of the bounded model (arithmetic, independent of the decoder).  *)
EncLo(ty, c, d) == (ty + 32 * c) % 65536
EncHi(ty, c, d) == ((ty + 32 * c) \div 65536) + 8 * d

\* The header of a cycle, decoded once: p = [itp, c, d].
Dec(i) == LET b == Dw0Bits(i.lo, i.hi) IN
          [itp |-> i.valid /\ ValLSB(SubSeq(b, 1, 5)) = ItpType,
           c   |-> ValLSB(SubSeq(b, 6, 19)),
           d   |-> ValLSB(SubSeq(b, 20, 32))]

-----------------------------------------------------------------------------
(* Observation relation of one cycle; p = Dec(inputs), o = [ready, upd, bic, delta].  *)
(* `mode` = "rx"    : the receiver alone, all three outputs visible;                  *)
(*          "layer" : USB3ProtocolLayer, only `bus_interval` visible (as o.bic);      *)
(*                    o.upd / o.delta are not observed there.                          *)
Accepted(p, o) == p.itp /\ o.ready
PendA(p, o) == IF Accepted(p, o) THEN Append(pend, [c |-> p.c, d |-> p.d, age |-> 0]) ELSE pend

\* In layer mode the report instant is recognised by the value appearing on bus_interval.
\* (Env assumption there: at most one ITP pending, and its counter differs from the current one.)
Upd(mode, p, o) == IF mode = "rx" THEN o.upd
                   ELSE PendA(p, o) # <<>> /\ o.bic = PendA(p, o)[1].c

Failing(mode, p, o) ==
  LET pa  == PendA(p, o)
      upd == Upd(mode, p, o)
  IN IF mode = "layer" /\ Accepted(p, o) /\ (pend # <<>> \/ p.c = cur.c)
        THEN "env_layer_itp_spacing"
     ELSE IF upd /\ pa = <<>> THEN "update_without_packet"
     ELSE IF upd /\ o.bic # pa[1].c THEN "bus_interval_counter"
     ELSE IF upd /\ mode = "rx" /\ o.delta # pa[1].d THEN "delta"
     ELSE IF ~upd /\ pa # <<>> /\ pa[1].age >= MaxLat THEN "update_missing"
     ELSE IF ~upd /\ pa = <<>> /\ cur # NoneYet /\ o.bic # cur.c THEN "held_bus_interval_counter"
     ELSE IF ~upd /\ pa = <<>> /\ cur # NoneYet /\ mode = "rx" /\ o.delta # cur.d THEN "held_delta"
     ELSE IF ~upd /\ mode = "layer" /\ pa # <<>> /\ cur # NoneYet /\ o.bic # cur.c THEN "bus_interval_counter"
     ELSE IF p.itp /\ ~o.ready /\ wait >= MaxLat THEN "itp_not_accepted"
     ELSE "ok"

Step(mode, i, p, o) ==
  LET pa   == PendA(p, o)
      upd  == Upd(mode, p, o)
      rest == IF upd THEN Tail(pa) ELSE pa
  IN /\ in' = i /\ out' = o
     /\ pend' = [k \in 1..Len(rest) |-> [rest[k] EXCEPT !.age = @ + 1]]
     /\ cur'  = IF upd THEN [c |-> pa[1].c, d |-> pa[1].d] ELSE cur
     /\ wait' = IF p.itp /\ ~o.ready THEN wait + 1 ELSE 0
     /\ sent' = IF Accepted(p, o) THEN Append(sent, <<p.c, p.d>>) ELSE sent
     /\ reported' = IF upd THEN Append(reported, <<o.bic, IF mode = "rx" THEN o.delta ELSE pa[1].d>>)
                    ELSE reported

Init == /\ pend = <<>> /\ cur = NoneYet /\ wait = 0
        /\ in = [valid |-> FALSE, lo |-> 0, hi |-> 0]
        /\ out = [ready |-> FALSE, upd |-> FALSE, bic |-> 0, delta |-> 0]
        /\ sent = <<>> /\ reported = <<>>

-----------------------------------------------------------------------------
(* Prop *)
\* Every report is the oldest unreported timestamp packet, in full; nothing is invented, lost or reordered.
ReportedIsPrefixOfSent ==
    /\ Len(reported) + Len(pend) = Len(sent)
    /\ \A k \in 1..Len(reported) : reported[k] = sent[k]
    /\ \A k \in 1..Len(pend) : <<pend[k].c, pend[k].d>> = sent[Len(reported) + k]
\* No packet waits longer than the latency bound.
BoundedLatency == \A k \in 1..Len(pend) : pend[k].age <= MaxLat
\* The held value is the last report.
HeldIsLastReport == cur # NoneYet => (reported # <<>> /\ <<cur.c, cur.d>> = reported[Len(reported)])
=============================================================================
