---------------------------- MODULE MCLinkTimers ----------------------------
(* Bounded instance of LinkTimers with scaled constants: every input          *)
(* schedule, one cycle per step.  The property is restated over ghost         *)
(* variables computed from the inputs and outputs alone (how long nothing was *)
(* sent / received, whether a request was made since), independently of the   *)
(* Ref's counters and windows.                                                *)
EXTENDS LinkTimers, TLC

VARIABLES t, in,
          txQuiet,   \* ghost: consecutive enabled cycles without a transmitted link command (saturating)
          rxQuiet,   \* ghost: consecutive enabled cycles without anything received (saturating)
          kaSince,   \* ghost: a keepalive was scheduled during the current tx-quiet stretch
          recSince   \* ghost: recovery was requested during the current rx-quiet stretch
vars == <<t, in, txQuiet, rxQuiet, kaSince, recSince>>

Bool == {TRUE, FALSE}
NoRec == [n |-> 1, en |-> FALSE, rx |-> FALSE, pkt |-> FALSE, tx |-> FALSE, ka |-> FALSE, rec |-> FALSE, rst |-> FALSE]
Init == t = TmInit /\ in = NoRec /\ txQuiet = 0 /\ rxQuiet = 0 /\ kaSince = FALSE /\ recSince = FALSE

Sat(x, m) == IF x > m THEN m ELSE x

Cycle(en, rx, pkt, tx) ==
    \E ka \in Bool, rec \in Bool :
       LET r == [n |-> 1, en |-> en, rx |-> rx, pkt |-> pkt, tx |-> tx, ka |-> ka, rec |-> rec, rst |-> FALSE] IN
       /\ TmFailing(t, r) = "ok"
       /\ t' = TmNext(t, r)
       /\ in' = r
       /\ txQuiet' = IF en /\ ~tx THEN Sat(txQuiet + 1, KeepCycles + 2) ELSE 0
       /\ kaSince' = IF en /\ ~tx THEN (kaSince \/ ka) ELSE FALSE
       /\ rxQuiet' = IF en /\ ~rx /\ ~pkt THEN Sat(rxQuiet + 1, RecCycles + 2) ELSE 0
       /\ recSince' = IF en /\ ~rx /\ ~pkt THEN (recSince \/ rec) ELSE FALSE

Disabled == \E rx \in Bool, tx \in Bool : Cycle(FALSE, rx, FALSE, tx)
Silent   == Cycle(TRUE, FALSE, FALSE, FALSE)
Traffic  == \E rx \in Bool, pkt \in Bool, tx \in Bool : (rx \/ pkt \/ tx) /\ Cycle(TRUE, rx, pkt, tx)
Next == Disabled \/ Silent \/ Traffic
Spec == Init /\ [][Next]_vars

Bounded == t.ks <= KeepCycles + 3 /\ t.rs <= RecCycles + 3

-----------------------------------------------------------------------------
(* Prop *)
\* a keepalive is scheduled whenever no link command was sent for the interval (one cycle of slack)
KeepaliveInTime == txQuiet >= KeepCycles + 1 => kaSince
\* it is not scheduled (for the first time) long before the interval has passed
KeepaliveNotEarly == [][(in'.ka /\ ~kaSince /\ in'.en /\ ~in'.tx) => txQuiet + 2 >= KeepCycles]_vars
\* recovery is requested within one cycle of the timeout ...
RecoveryInTime == rxQuiet >= RecCycles + 1 => recSince
\* ... and never earlier: RecCycles - 1 enabled cycles without anything received lie before the first request
RecoveryNeverEarly == [][(in'.rec /\ ~recSince) => rxQuiet + 1 >= RecCycles]_vars
TypeOK == t.ks \in 0..Cap /\ t.rs \in 0..Cap
=============================================================================
