------------------------------- MODULE CrcUnit -------------------------------
(***************************************************************************)
(* Property C30, part 2: the running-CRC *modules* (USBDataPacketCRC,      *)
(* HeaderPacketCRC, DataPacketPayloadCRC): clear / advance / output.       *)
(*                                                                         *)
(* Grain: one step = one clock cycle of the module.                        *)
(*  Env : which module (`unit`, chosen by Init); per cycle a `clear` strobe,*)
(*        at most one advance strobe carrying                               *)
(*        n leading bytes of the data input (n = 1 for the USB2 byte-wide  *)
(*        unit, 4 for the header unit, 4/3/2/1 for the payload unit), and  *)
(*        the data input itself.  clear and advance may coincide (the      *)
(*        USB2 receiver clears on the PID byte): clear wins.               *)
(*  Ref : the shift register of CRC.tla, fed bit by bit.                   *)
(*  Out : crc output = the CRC field (inverted register, first bit on the  *)
(*        wire = bit 0); the payload unit's next_crc_nB outputs = the      *)
(*        field the unit would show after consuming n more bytes.          *)
(*  Prop: the register equals the bit-serial CRC of *everything fed since  *)
(*        the last clear* (ghost msg), whatever the chunking; appending    *)
(*        the shown field to the message leaves the standard residual; a   *)
(*        field with one bit flipped does not.                             *)
(***************************************************************************)
EXTENDS CrcFn

Units == {"usb2_crc16", "usb3_hdr16", "usb3_crc32"}

VARIABLES unit,           \* which module this behaviour is about (chosen by Init, never changes)
          reg,            \* running register (CRC.tla order)
          msg,            \* ghost: all bits fed since the last clear (wire order)
          in              \* Env: the inputs of the cycle that led to this state

uvars == <<unit, reg, msg, in>>

PolyOfUnit(u) == CASE u = "usb2_crc16" -> Poly16 [] u = "usb3_hdr16" -> Poly16H [] u = "usb3_crc32" -> Poly32
UnitPoly  == PolyOfUnit(unit)
W         == Len(UnitPoly)
DataBits  == IF unit = "usb2_crc16" THEN 8 ELSE 32         \* width of the data input
ChunkSizes == CASE unit = "usb2_crc16" -> {1} [] unit = "usb3_hdr16" -> {4} [] unit = "usb3_crc32" -> {1, 2, 3, 4}

\* an input: clear strobe, number of leading bytes advanced (0 = no advance strobe), data input bits
LegalInput(i) == /\ i.clear \in BOOLEAN
                 /\ i.n \in ChunkSizes \cup {0}
                 /\ Len(i.bits) = DataBits /\ \A b \in 1..DataBits : i.bits[b] \in Bit

Consumed(i) == SubSeq(i.bits, 1, 8 * i.n)

-----------------------------------------------------------------------------
(* Outputs: functions of the state (and of the data input, for the look-ahead outputs) *)
FieldOf(r)       == Invert(r)                  \* wire order; as a signal: element i+1 = bit i
CrcOut           == FieldOf(reg)
NextOut(bits, n) == FieldOf(CrcRun(reg, SubSeq(bits, 1, 8 * n), UnitPoly))

-----------------------------------------------------------------------------
UInit == /\ unit \in Units
         /\ reg = Ones(W)                      \* the modules reset to the cleared state
         /\ msg = <<>>
         /\ in = [clear |-> FALSE, n |-> 0, bits |-> ZeroVec(DataBits)]

Step(i) == /\ unit' = unit
           /\ in' = i
           /\ reg' = IF i.clear THEN Ones(W)
                     ELSE IF i.n > 0 THEN CrcRun(reg, Consumed(i), UnitPoly)
                     ELSE reg
           /\ msg' = IF i.clear THEN <<>>
                     ELSE IF i.n > 0 THEN msg \o Consumed(i)
                     ELSE msg

-----------------------------------------------------------------------------
(* Prop *)
UTypeOK == Len(reg) = W /\ \A b \in 1..W : reg[b] \in Bit

\* incremental = whole message: the unit shows the CRC of everything since the last clear
RunningEqualsWhole == reg = CrcRun(Ones(W), msg, UnitPoly)
FieldEqualsWhole   == CrcOut = CrcField(msg, UnitPoly)        \* the same statement about the output (CrcField = Invert o CrcRun)

\* message followed by the shown field is accepted; with one field bit flipped it is not
Res16  == ResidualOf(Poly16)
Res16H == ResidualOf(Poly16H)
Res32  == ResidualOf(Poly32)
UnitResidual == CASE unit = "usb2_crc16" -> Res16 [] unit = "usb3_hdr16" -> Res16H [] unit = "usb3_crc32" -> Res32
ShownFieldAccepted   == CrcRun(reg, CrcOut, UnitPoly) = UnitResidual
FlippedFieldRejected == \A b \in 1..W : CrcRun(reg, Flip(CrcOut, b), UnitPoly) # UnitResidual

\* a clear forgets everything
ClearRestarts == [][in'.clear => (reg' = Ones(W) /\ msg' = <<>>)]_uvars
=============================================================================
