"""Word-level USB3 link-partner model (32-bit words + 4-bit ctrl masks, little-endian symbol order).

Builds what a link partner puts on the wire towards the DUT's `sink`:
  * link commands  (LCSTART word, then the 16-bit link command word twice)  [USB3.2 7.2.2]
  * header packets (HPSTART word, DW0..DW2, DW3 = CRC16 | link control word) [USB3.2 7.2.1]
with optional corruption (bad CRC5 / bad CRC16 / replica mismatch / wrong sequence number),
and parses what the DUT transmits on its `source` (link commands, header packets, other words).

The CRCs here are written bit-serially from the standard's wording, independently of LUNA's
parallel XOR equations; they are only used to *build stimuli* -- the verdict-bearing CRC check of
everything recorded is done by TLC with specs/lib/CRC.tla.
"""

# ---- symbols -------------------------------------------------------------------------------------
SHP, SDP, EDB, END, SLC, EPF = 0xFB, 0x5C, 0x7C, 0xFD, 0xFE, 0xF7


def _word(*syms):
    v = 0
    for i, s in enumerate(syms):
        v |= s << (8 * i)
    return v


HPSTART = (_word(SHP, SHP, SHP, EPF), 0xF)
LCSTART = (_word(SLC, SLC, SLC, EPF), 0xF)
DPSTART = (_word(SDP, SDP, SDP, EPF), 0xF)
DPABORT = (_word(EDB, EDB, EDB, EPF), 0xF)
IDLE_WORD = (0, 0)

# ---- link commands -------------------------------------------------------------------------------
LGOOD, LCRD, LRTY, LBAD, LGO_U, LAU, LXU, LPMA, LUP, LDN = 0, 1, 2, 3, 4, 5, 6, 7, 8, 11
LC_NAMES = {0: "LGOOD", 1: "LCRD", 2: "LRTY", 3: "LBAD", 4: "LGO_U", 5: "LAU", 6: "LXU", 7: "LPMA",
            8: "LUP", 11: "LDN"}


def _crc_bits(bits, poly, width):
    """Shift register preloaded with ones; per wire bit: xor with MSB, shift left, xor poly; field is the
    inverted register sent MSB first -> returned as integer whose bit 0 is the first bit sent."""
    reg = (1 << width) - 1
    for b in bits:
        fb = ((reg >> (width - 1)) & 1) ^ b
        reg = (reg << 1) & ((1 << width) - 1)
        if fb:
            reg ^= poly
    reg ^= (1 << width) - 1
    out = 0
    for i in range(width):          # first bit sent = register MSB
        out |= ((reg >> (width - 1 - i)) & 1) << i
    return out


def crc5(v11):
    return _crc_bits([(v11 >> i) & 1 for i in range(11)], 0b00101, 5)


def crc16_header(bytes12):
    bits = []
    for b in bytes12:
        bits += [(b >> i) & 1 for i in range(8)]
    return _crc_bits(bits, 0x100B, 16)


def link_command_word(cmd, subtype=0, bad_crc=False, reserved=0):
    v11 = (subtype & 0xF) | ((reserved & 7) << 4) | ((cmd & 0xF) << 7)
    c = crc5(v11)
    if bad_crc:
        c ^= 0b00100
    return v11 | (c << 11)


def link_command(cmd, subtype=0, bad_crc=False, replica_mismatch=False, ctrl_in_payload=False):
    """-> [(data, ctrl), (data, ctrl)]"""
    w = link_command_word(cmd, subtype, bad_crc=bad_crc)
    rep = w
    if replica_mismatch:       # keep the replica self-consistent so only the comparison fails
        rep = link_command_word(cmd, subtype ^ 1)
    return [LCSTART, (w | (rep << 16), 0x1 if ctrl_in_payload else 0x0)]


def parse_link_command_word(data):
    """32-bit command word -> dict(cmd, sub, ok) ; ok = replica equal and CRC5 valid."""
    lo, hi = data & 0xFFFF, (data >> 16) & 0xFFFF
    ok = lo == hi and crc5(lo & 0x7FF) == (lo >> 11)
    return {"cmd": (lo >> 7) & 0xF, "sub": lo & 0xF, "ok": ok, "lo": lo, "hi": hi}


# ---- header packets ------------------------------------------------------------------------------
def header_dw3(dw0, dw1, dw2, seq, delayed=0, deferred=0, hub_depth=0, reserved=0,
               bad_crc5=False, bad_crc16=False, crc5_xor=0b00010, crc16_xor=0x0100):
    """DW3 of a header packet; bad_crc5 / bad_crc16 corrupt the field by xor-ing the given mask."""
    by = []
    for w in (dw0, dw1, dw2):
        by += [(w >> (8 * i)) & 0xFF for i in range(4)]
    c16 = crc16_header(by)
    if bad_crc16:
        c16 ^= (crc16_xor & 0xFFFF) or 1
    lcw = (seq & 7) | ((reserved & 7) << 3) | ((hub_depth & 7) << 6) | ((delayed & 1) << 9) | ((deferred & 1) << 10)
    c5 = crc5(lcw)
    if bad_crc5:
        c5 ^= (crc5_xor & 0x1F) or 1
    return c16 | (lcw << 16) | (c5 << 27)


def header_packet(dw0, dw1, dw2, seq, **kw):
    """-> 5 (data, ctrl) words."""
    return [HPSTART, (dw0, 0), (dw1, 0), (dw2, 0), (header_dw3(dw0, dw1, dw2, seq, **kw), 0)]


def parse_dw3(dw3):
    return {"crc16": dw3 & 0xFFFF, "seq": (dw3 >> 16) & 7, "hub_depth": (dw3 >> 22) & 7,
            "dl": (dw3 >> 25) & 1, "deferred": (dw3 >> 26) & 1, "crc5": (dw3 >> 27) & 0x1F}


def limbs(word):
    """32-bit word -> [low16, high16] (TLC integers are 32-bit signed)."""
    return [word & 0xFFFF, (word >> 16) & 0xFFFF]


def word_bytes(word):
    return [(word >> (8 * i)) & 0xFF for i in range(4)]


# ---- parser of a DUT's transmit stream ------------------------------------------------------------
class TxParser:
    """Feed one observation per cycle: (cycle, valid, ready, data, ctrl).  Produces events:
       ("lc_start", cycle)                 LCSTART first *presented* (valid rose with LCSTART data)
       ("lc", cycle, data)                 link command word accepted (valid & ready)
       ("hp_start", cycle)                 HPSTART first presented
       ("hp_first", cycle)                 HPSTART accepted (first word of the header packet on the wire)
       ("hp", cycle, [dw0, dw1, dw2, dw3]) last header word accepted
       ("dpp_start"/"dpp_abort"/"other", cycle, data, ctrl)   anything else accepted
    """

    def __init__(self):
        self.state = "idle"       # idle | lc | hp
        self.words = []
        self.presented = False    # current word already reported as presented
        self.events = []

    def reset(self):
        """The DUT's clock domain was reset: whatever was in flight is cut off."""
        self.state = "idle"
        self.words = []
        self.presented = False

    def feed(self, cycle, valid, ready, data, ctrl):
        ev = []
        if not valid:
            self.presented = False
            return ev
        if self.state == "idle" and not self.presented:
            if (data, ctrl) == LCSTART:
                ev.append(("lc_start", cycle))
            elif (data, ctrl) == HPSTART:
                ev.append(("hp_start", cycle))
        self.presented = True
        if ready:
            self.presented = False
            if self.state == "idle":
                if (data, ctrl) == LCSTART:
                    self.state = "lc"
                elif (data, ctrl) == HPSTART:
                    self.state = "hp"
                    self.words = []
                    ev.append(("hp_first", cycle))
                elif (data, ctrl) == DPSTART:
                    ev.append(("dpp_start", cycle, data, ctrl))
                elif (data, ctrl) == DPABORT:
                    ev.append(("dpp_abort", cycle, data, ctrl))
                else:
                    ev.append(("other", cycle, data, ctrl))
            elif self.state == "lc":
                ev.append(("lc", cycle, data, ctrl))
                self.state = "idle"
            elif self.state == "hp":
                self.words.append((data, ctrl))
                if len(self.words) == 4:
                    ev.append(("hp", cycle, [w for w, _ in self.words], [c for _, c in self.words]))
                    self.state = "idle"
        self.events += ev
        return ev
