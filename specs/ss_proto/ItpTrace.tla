------------------------------ MODULE ItpTrace ------------------------------
(***************************************************************************)
(* Trace validation for Itp.  A trace is a record                          *)
(*   [cfg |-> [mode |-> "rx" | "layer"], steps |-> <<per-cycle records>>]  *)
(* with per-cycle records [valid, lo, hi  -- header queue inputs            *)
(*                         ready, upd, bic, delta] -- outputs observed in   *)
(*                                                   the same cycle         *)
(* (layer mode: bic = USB3ProtocolLayer.bus_interval; upd/delta = FALSE/0). *)
(***************************************************************************)
EXTENDS Itp, TLC, TLCExt, Json, IOUtils

Logs == JsonDeserialize(IOEnv.TRACE_FILE)

VARIABLES tid, l, status
tvars == <<ivars, tid, l, status>>

ASSUME \A i \in 1..Len(Logs) : TLCSet(i, <<0, "ok">>)

Steps == Logs[tid].steps
ModeOf == Logs[tid].cfg.mode

InOf(r)  == [valid |-> r.valid, lo |-> r.lo, hi |-> r.hi]
OutOf(r) == [ready |-> r.ready, upd |-> r.upd, bic |-> r.bic, delta |-> r.delta]

TInit == Init /\ tid \in 1..Len(Logs) /\ l = 1 /\ status = "ok"

TNext == /\ status = "ok"
         /\ l <= Len(Steps)
         /\ LET r == Steps[l]
                p == Dec(InOf(r))
                f == Failing(ModeOf, p, OutOf(r)) IN
              /\ status' = f
              /\ IF f = "ok" THEN Step(ModeOf, InOf(r), p, OutOf(r)) ELSE UNCHANGED ivars
         /\ l' = l + 1
         /\ UNCHANGED tid

TSpec == TInit /\ [][TNext]_tvars

TraceProp == ReportedIsPrefixOfSent /\ BoundedLatency /\ HeldIsLastReport

\* A rejected record leaves the Ref state unchanged (Step is applied only to accepted records).
Verdict == IF status # "ok" THEN status ELSE IF TraceProp THEN "ok" ELSE "prop_invariant"
\* (an invariant failure stops the trace there, so that later steps cannot overwrite it)
Progress == TLCSet(tid, <<l - 1, Verdict>>) /\ Verdict = "ok"

Verdicts == JsonSerialize(IOEnv.VERDICT_FILE, [i \in 1..Len(Logs) |-> TLCGet(i)])
=============================================================================
