"""Which engine (harness/bindings/<engine>.py) decides which property: discovered from the bindings' META."""
import importlib
import os

_HERE = os.path.join(os.path.dirname(os.path.abspath(__file__)), "bindings")


def _modules():
    for f in sorted(os.listdir(_HERE)):
        if f.endswith(".py") and not f.startswith("_"):
            yield f[:-3]


BROKEN = {}


def _load():
    eng = {}
    for name in _modules():
        try:
            mod = importlib.import_module("harness.bindings." + name)
        except Exception as ex:          # a broken binding must not take the other engines down
            BROKEN[name] = repr(ex)
            continue
        eng[name] = sorted(getattr(mod, "META", {}).keys())
    return eng


ENGINES = _load()


def _enabled_extras():
    """Composition engines whose EXTRA sub-checks are switched on: tools/extras_enabled.json (integrator-owned), plus
    the comma-separated names in $VERIF_EXTRAS (for an engine under development; `all` enables every binding)."""
    import json
    env = os.environ.get("VERIF_EXTRAS", "")
    if env == "all":
        return None
    try:
        names = set(json.load(open(os.path.join(os.path.dirname(_HERE), "..", "tools", "extras_enabled.json"))))
    except OSError:
        return None
    return names | {x for x in env.split(",") if x}


def extras_of(prop):
    """Additional sub-checks contributed by other bindings (composition engines): module-level EXTRA = {prop_id: fn(rep)}."""
    out = []
    enabled = _enabled_extras()
    for name in _modules():
        if name in BROKEN or (enabled is not None and name not in enabled):
            continue
        mod = importlib.import_module("harness.bindings." + name)
        fn = getattr(mod, "EXTRA", {}).get(prop)
        if fn is not None:
            out.append((name, fn))
    return out


def engine_of(prop):
    for e, props in ENGINES.items():
        if prop in props:
            return e
    return None


def all_meta():
    out = {}
    for e in ENGINES:
        mod = importlib.import_module("harness.bindings." + e)
        for pid, meta in mod.META.items():
            m = dict(meta)
            m["engine"] = e
            out[pid] = m
    return out
