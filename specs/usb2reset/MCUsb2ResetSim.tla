--------------------------- MODULE MCUsb2ResetSim ---------------------------
(***************************************************************************)
(* Behaviour generation for Usb2Reset (`tlc -simulate`): the host plays    *)
(* *segments* -- inputs held for a duration written symbolically as a sum  *)
(* of named thresholds plus a small offset, so that the same behaviour can *)
(* be replayed at the scaled and at the real constants.  Moves are chosen  *)
(* according to what the host can observe (speed, suspend, chirp mode),    *)
(* and stay clear of the triggers of the open findings (clean stimuli).    *)
(* Every behaviour is also checked against Prop (PropHolds).               *)
(***************************************************************************)
EXTENDS MCUsb2Reset

VARIABLES script,   \* segments still to be played
          seg,      \* segment being played
          left,     \* cycles left in it
          fam,      \* kind of host move chosen, instance not yet chosen
          kf        \* known-finding trigger ghosts (ScriptSpec plays clean scripts: no tag ever)

svars == <<script, seg, left, fam, kf>>
allvars == <<vars, svars>>

NoSeg == [i |-> InOf(NoObs), k |-> <<>>, d |-> 0, rst |-> FALSE]

TVal(name) == CASE name = "T2P5US" -> T2P5US [] name = "T5US" -> T5US [] name = "T200US" -> T200US
                [] name = "T1MS" -> T1MS [] name = "T2MS" -> T2MS [] name = "T2P5MS" -> T2P5MS
                [] name = "T3MS" -> T3MS
RECURSIVE SumK(_)
SumK(k) == IF k = <<>> THEN 0 ELSE TVal(Head(k)) + SumK(Tail(k))
Dur(sg) == Max(1, SumK(sg.k) + sg.d)          \* a segment lasts sum-of-named-thresholds + offset cycles

Ctl0 == [vbus |-> TRUE, disc |-> FALSE, fso |-> FALSE, lso |-> FALSE, busy |-> FALSE]
S(ls, c, k, d) == [i |-> [ls |-> ls, vbus |-> c.vbus, disc |-> c.disc, fso |-> c.fso, lso |-> c.lso,
                          busy |-> c.busy], k |-> k, d |-> d, rst |-> FALSE]
\* the usb clock domain is held in reset for d cycles
R(ls, c, d) == [S(ls, c, <<>>, d) EXCEPT !.rst = TRUE]
IdleOf(c)   == IF c.lso THEN FSK ELSE FSJ
ResumeOf(c) == IF c.lso THEN FSJ ELSE FSK

TIdle(c)   == {<<S(IdleOf(c), c, <<>>, d)>> : d \in 1..4} \cup {<<S(IdleOf(c), c, <<"T3MS">>, d)>> : d \in -2..3}
TSe0(c)    == {<<S(SE0, c, <<n>>, d)>> : n \in {"T2P5US", "T5US"}, d \in -2..3}
TGlitch(c) == {<<S(x, c, <<>>, d)>> : x \in 0..3, d \in 1..2}

\* Host chirp: n K-J pairs; element number sp (1..2n, 0 = none) is special: either it lasts only
\* T2P5US+ds cycles or (gl) it is interrupted by a one-cycle glitch after T2P5US-1 cycles.
ChirpEl(c, idx, sp, ds, gl) ==
  LET ls == IF idx % 2 = 1 THEN FSK ELSE FSJ IN
  IF idx # sp THEN <<S(ls, c, <<"T2P5US">>, 2)>>        \* just long enough for the designed sequencer
  ELSE IF gl THEN <<S(ls, c, <<"T2P5US">>, -1), S(SE0, c, <<>>, 1), S(ls, c, <<"T2P5US">>, 2)>>
  ELSE <<S(ls, c, <<"T2P5US">>, ds)>>
RECURSIVE ChirpSeq(_, _, _, _, _, _)
ChirpSeq(c, idx, last, sp, ds, gl) ==
  IF idx > last THEN <<>> ELSE ChirpEl(c, idx, sp, ds, gl) \o ChirpSeq(c, idx + 1, last, sp, ds, gl)
THostChirp(c) == {ChirpSeq(c, 1, 2 * n, sp, ds, gl) \o <<S(SE0, c, <<>>, 4)>> :
                     n \in 2..4, sp \in 0..6, ds \in -1..1, gl \in Bool}
\* Reset long enough to sit through the device chirp (it ends T5US+T2MS+3 cycles into the SE0), then the host answers.
TReset(c)  == {<<S(SE0, c, <<"T5US", "T2MS">>, d)>> \o h : d \in {2, 3, 4, 6}, h \in THostChirp(c)}
\* ... or does not answer (in time).
TNoAnswer(c) == {<<S(SE0, c, <<"T5US", "T2MS", "T2P5MS">>, d), S(IdleOf(c), c, <<>>, 3)>> : d \in 1..6}
              \cup {<<S(SE0, c, <<"T5US", "T2MS">>, 3), S(SE0, c, <<"T2P5MS">>, d)>> \o h :
                       d \in -9..-6, h \in THostChirp(c)}
\* The PHY is busy while the device prepares to chirp.
TBusy(c)   == {<<S(SE0, c, <<"T5US">>, 2), S(SE0, [c EXCEPT !.busy = TRUE], <<>>, d),
                 S(SE0, c, <<"T2MS">>, 5)>> \o h : d \in 1..BusyMax + 1, h \in THostChirp(c)}
\* A restriction appears in the middle of things.
TRestrict(c) == {<<S(SE0, c, <<"T5US">>, d), S(SE0, [c EXCEPT !.fso = TRUE], <<"T2MS">>, 3)>> \o h :
                    d \in 0..4, h \in THostChirp([c EXCEPT !.fso = TRUE])}
\* High-speed idle long enough for the reversion to full speed, then what the line settles to.
THsIdle(c) == {<<S(SE0, c, <<"T3MS">>, d1), S(x, c, <<"T200US">>, d2), S(y, c, <<>>, 3)>> :
                  d1 \in -1..2, x \in {SE0, FSJ, FSK}, d2 \in -1..2, y \in {SE0, FSJ, FSK}}
THsMisc(c) == {<<S(x, c, <<>>, d)>> : x \in {FSJ, FSK}, d \in 1..2}
              \cup {<<S(SE0, cc, <<>>, d)>> : cc \in {[c EXCEPT !.fso = TRUE], [c EXCEPT !.lso = TRUE],
                                                      [c EXCEPT !.vbus = FALSE]}, d \in 1..4}
              \cup {<<S(FSK, [c EXCEPT !.disc = TRUE], <<"T2P5US">>, d), S(FSJ, c, <<>>, 3)>> : d \in {-1, 2}}
TSusp(c)   == {<<S(ResumeOf(c), c, <<>>, d)>> : d \in 1..3}
              \cup {<<S(SE0, c, <<"T2P5US", "T2MS", "T2P5MS">>, d), S(IdleOf(c), c, <<>>, 3)>> : d \in 4..6}
              \cup {<<S(SE0, c, <<"T2P5US">>, d)>> : d \in -2..3}
              \cup {<<S(SE0, [c EXCEPT !.fso = TRUE], <<"T2P5US">>, d), S(FSJ, c, <<>>, 2)>> : d \in 1..3}
              \cup {<<S(IdleOf(c), [c EXCEPT !.lso = ~c.lso], <<>>, 2)>>}
TDisc(c)   == {<<S(IdleOf(c), [c EXCEPT !.disc = TRUE], <<"T2P5US">>, d), S(IdleOf(c), c, <<>>, 3)>> : d \in -1..3}
TDomRst(c) == {<<R(x, c, d), S(y, c, <<>>, 2)>> : x \in {SE0, FSJ, FSK}, d \in 1..2, y \in {SE0, FSJ}}
TVbus(c)   == {<<S(x, [c EXCEPT !.vbus = FALSE], <<>>, d)>> : x \in {SE0, IdleOf(c)}, d \in 1..3}

Ctls == {Ctl0, [Ctl0 EXCEPT !.fso = TRUE], [Ctl0 EXCEPT !.lso = TRUE]}

\* The host first picks a kind of move (according to what it can observe), then one instance of it.
Families(o) ==
  IF HsMode(o) THEN {"hs_idle", "hs_idle_b", "hs_misc", "hs_misc_b", "dom_rst"}
  ELSE IF o.susp THEN {"susp", "susp_b", "susp_c", "dom_rst"}
  ELSE IF o.op = CHIRP THEN {"chirp", "chirp_b", "glitch", "dom_rst"}
  ELSE {"idle", "se0", "glitch", "disc", "vbus", "reset", "reset_b", "reset_c", "no_answer", "busy",
        "restrict", "reset_ls", "dom_rst"}
Family(f) ==
  CASE f \in {"hs_idle", "hs_idle_b"} -> THsIdle(Ctl0)
    [] f \in {"hs_misc", "hs_misc_b"} -> THsMisc(Ctl0)
    [] f \in {"susp", "susp_b", "susp_c"} -> UNION {TSusp(c) : c \in Ctls}
    [] f \in {"chirp", "chirp_b"} -> THostChirp(Ctl0)
    [] f = "dom_rst"   -> TDomRst(Ctl0)
    [] f = "glitch"    -> TGlitch(Ctl0)
    [] f = "idle"      -> UNION {TIdle(c) : c \in Ctls}
    [] f = "se0"       -> UNION {TSe0(c) : c \in Ctls}
    [] f = "disc"      -> TDisc(Ctl0)
    [] f = "vbus"      -> TVbus(Ctl0)
    [] f \in {"reset", "reset_b", "reset_c"} -> TReset(Ctl0)
    [] f = "no_answer" -> TNoAnswer(Ctl0)
    [] f = "busy"      -> TBusy(Ctl0)
    [] f = "restrict"  -> TRestrict(Ctl0)
    [] f = "reset_ls"  -> TReset([Ctl0 EXCEPT !.lso = TRUE]) \cup TReset([Ctl0 EXCEPT !.fso = TRUE])

\* Clean scripts: the step must not hit the trigger of an open finding (the behaviour ends there otherwise).
Clean == kf' = KfEval(kf, mon', obs') /\ kf'.tags = {}

\* A behaviour starts from scratch, in high-speed operation, or in a suspend entered from high speed
\* (so that the deep histories -- HS suspend, reset from it, failed handshake, FS suspend, resume -- are
\* within reach of a few hundred simulated cycles).
HsPrefix == <<S(FSJ, Ctl0, <<>>, 4), S(SE0, Ctl0, <<"T5US", "T2MS">>, 4)>>
            \o ChirpSeq(Ctl0, 1, 6, 0, 0, FALSE) \o <<S(SE0, Ctl0, <<>>, 6)>>
HsSuspendPrefix == HsPrefix \o <<S(SE0, Ctl0, <<"T3MS">>, -4), S(FSJ, Ctl0, <<"T200US">>, 3)>>
Prefixes == {<<>>, HsPrefix, HsSuspendPrefix}
SInit == script \in Prefixes /\ seg = NoSeg /\ left = 0 /\ fam = "" /\ kf = KfInit

SFamily == /\ left = 0 /\ script = <<>> /\ fam = ""
           /\ fam' \in Families(obs)
           /\ UNCHANGED <<vars, seg, left, script, kf>>
SPick == /\ left = 0 /\ script = <<>> /\ fam # ""
         /\ script' \in Family(fam)
         /\ fam' = ""
         /\ UNCHANGED <<vars, seg, left, kf>>
SLoad == /\ left = 0 /\ script # <<>>
         /\ seg' = Head(script) /\ script' = Tail(script) /\ fam' = fam
         /\ left' = Dur(Head(script)) - 1
         /\ CycleR(Head(script).i, Head(script).rst)
         /\ Clean
SHold == /\ left > 0
         /\ CycleR(seg.i, seg.rst)
         /\ Clean
         /\ left' = left - 1
         /\ UNCHANGED <<script, seg, fam>>
ScriptNext == SFamily \/ SPick \/ SLoad \/ SHold
ScriptSpec == Init /\ SInit /\ [][ScriptNext]_allvars
=============================================================================
