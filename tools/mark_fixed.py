#!/usr/bin/env python3
"""usage: tools/mark_fixed.py <finding-id> <commit>  — flip an open finding (in known_findings.json or .d/) to fixed."""
import glob, json, sys
fid, commit = sys.argv[1], sys.argv[2]
for p in ["/verif/known_findings.json"] + sorted(glob.glob("/verif/known_findings.d/*.json")):
    d = json.load(open(p))
    hit = False
    for f in d["findings"]:
        if f["id"] == fid:
            f["status"] = "fixed"
            f["commit"] = commit
            w = f["what"]
            if not w.startswith("fixed:"):
                f["what"] = "fixed: property=%s %s %s" % (f["property"], commit, w)
            hit = True
    if hit:
        json.dump(d, open(p, "w"), indent=1)
        print("marked", fid, "in", p)
        break
else:
    print("NOT FOUND", fid); sys.exit(1)
