---------------------------- MODULE DataRxTrace ----------------------------
(***************************************************************************)
(* Trace validation for DataRx.  A trace is a list of per-cycle records     *)
(*   [active, valid, data          -- UTMI receive inputs of the cycle      *)
(*    rst                           -- the clock domain's reset in this cycle *)
(*    sv, nx, pl, cp, mm, rfr, pid] -- stream.valid/next/payload,           *)
(*                                     packet_complete, crc_mismatch,       *)
(*                                     ready_for_response, packet_id        *)
(*                                     (99 = not observable on this DUT)    *)
(* sampled in the same cycle, before the clock edge.                        *)
(***************************************************************************)
EXTENDS DataRx, TLC, TLCExt, Json, IOUtils

Logs == JsonDeserialize(IOEnv.TRACE_FILE)

VARIABLES tid, l, status,
          dc          \* the strobe owed (Due1) of the step, evaluated once (it contains the CRC16)
tvars == <<vars, tid, l, status, dc>>

ASSUME \A i \in 1..Len(Logs) : TLCSet(i, <<0, "ok">>)

InOf(r)  == [active |-> r.active, valid |-> r.valid, data |-> r.data]
OutOf(r) == [sv |-> r.sv, nx |-> r.nx, pl |-> r.pl, cp |-> r.cp, mm |-> r.mm, rfr |-> r.rfr, pid |-> r.pid]

TInit == Init /\ tid \in 1..Len(Logs) /\ l = 1 /\ status = "ok" /\ dc = "none"

TNext == /\ status = "ok"
         /\ l <= Len(Logs[tid])
         /\ dc' = Due1(InOf(Logs[tid][l]))
         /\ status' = IF Logs[tid][l].rst /\ ~ResetLegal(InOf(Logs[tid][l])) THEN "env_illegal_input"
                       ELSE FailingD(InOf(Logs[tid][l]), OutOf(Logs[tid][l]), dc')
         /\ IF status' # "ok" THEN UNCHANGED vars
            ELSE IF Logs[tid][l].rst THEN ResetStepD(InOf(Logs[tid][l]), OutOf(Logs[tid][l]))
            ELSE StepD(InOf(Logs[tid][l]), OutOf(Logs[tid][l]), dc')
         /\ l' = l + 1
         /\ UNCHANGED tid

TSpec == TInit /\ [][TNext]_tvars

TraceProp == /\ TypeOK /\ NeverBoth /\ StreamedIsPayloadPrefix /\ StrobeSound /\ StrobeComplete
             /\ RfrSound /\ RfrOwedOnlyAfterComplete

\* (the constraint is FALSE after a failure, so the trace is not followed further and the verdict stays)
Verdict == IF status # "ok" THEN status ELSE IF TraceProp THEN "ok" ELSE "prop_invariant"
Progress == TLCSet(tid, <<l - 1, Verdict>>) /\ Verdict = "ok"

Verdicts == JsonSerialize(IOEnv.VERDICT_FILE, [i \in 1..Len(Logs) |-> TLCGet(i)])
=============================================================================
