-------------------------------- MODULE EpDev --------------------------------
(***************************************************************************)
(* Composition: one USB2 device with several stream endpoints behind a     *)
(* shared token detector / handshake path, and the part of the standard    *)
(* control endpoint that matters to them: CLEAR_FEATURE(ENDPOINT_HALT).    *)
(* (properties C12, C14; also the routing layer for C11/C13 traces.)       *)
(*                                                                         *)
(* The device reference state is a record                                  *)
(*   d = [ins  : IN endpoint number  -> EpIn record,                       *)
(*        outs : OUT endpoint number -> EpOut record,                      *)
(*        bus  : [k, ep]   whom the transaction in progress addresses      *)
(*               k \in {"none","in","out","ctl","setup","opq","void"}      *)
(*        ctl  : [st, ep, dir]  progress of a CLEAR_FEATURE(ENDPOINT_HALT) *)
(*               st \in {"idle","setup","other","armed","status_tok",      *)
(*                       "status_sent"} ]                                  *)
(* and the configuration is a record                                       *)
(*   cfg = [ins  |-> << [n, max] ... >>, outs |-> << [n, max, depth] ... >>,*)
(*          opq  |-> << [n, dir] ... >> ]   (endpoints of other kinds whose *)
(*                                          answers this spec leaves open) *)
(* An endpoint is identified by (number, direction).  Every bus event is   *)
(* routed to the one endpoint the last token addressed; all other          *)
(* endpoints' records are untouched -- that is the isolation statement     *)
(* C12, and TLC checks it as a theorem (MCEpDev) and on real traces.       *)
(*                                                                         *)
(* Each step operator returns [st |-> first violated clause or "ok",       *)
(*                             d  |-> successor reference state].          *)
(***************************************************************************)
EXTENDS EpIn, EpOut

SeqIdx(sq, n) == CHOOSE i \in 1..Len(sq) : sq[i].n = n
InNums(cfg)  == {cfg.ins[i].n  : i \in 1..Len(cfg.ins)}
OutNums(cfg) == {cfg.outs[i].n : i \in 1..Len(cfg.outs)}
InMax(cfg, n)    == cfg.ins[SeqIdx(cfg.ins, n)].max
OutMax(cfg, n)   == cfg.outs[SeqIdx(cfg.outs, n)].max
OutDepth(cfg, n) == cfg.outs[SeqIdx(cfg.outs, n)].depth
IsOpq(cfg, n, dir) == \E i \in 1..Len(cfg.opq) : cfg.opq[i].n = n /\ cfg.opq[i].dir = dir

DevInit(cfg) == [ins  |-> [n \in InNums(cfg)  |-> InInit],
                 outs |-> [n \in OutNums(cfg) |-> OutInit],
                 bus  |-> [k |-> "none", ep |-> 0],
                 ctl  |-> [st |-> "idle", ep |-> 0, dir |-> "in"]]

Ok(d) == [st |-> "ok", d |-> d]

-----------------------------------------------------------------------------
(* CLEAR_FEATURE(ENDPOINT_HALT): bmRequestType 0x02 (standard, endpoint),   *)
(* bRequest 1, wValue 0 (ENDPOINT_HALT), wIndex = endpoint address,        *)
(* wLength 0  [USB 2.0 9.4.1]; bit 7 of the address is the direction.      *)
IsClearHalt(p) == /\ Len(p) = 8 /\ p[1] = 2 /\ p[2] = 1 /\ p[3] = 0 /\ p[4] = 0
                  /\ p[6] = 0 /\ p[7] = 0 /\ p[8] = 0
ClearEp(p)  == p[5] % 16
ClearDir(p) == IF p[5] >= 128 THEN "in" ELSE "out"

\* effect of the completed request: exactly the named (number, direction)
DevClear(d, n, dir) ==
    IF dir = "in" /\ n \in DOMAIN d.ins THEN [d EXCEPT !.ins[n] = InClear(@)]
    ELSE IF dir = "out" /\ n \in DOMAIN d.outs THEN [d EXCEPT !.outs[n] = OutClear(@)]
    ELSE d

-----------------------------------------------------------------------------
\* a new token ends whatever was pending on every endpoint
AbortAll(d) == [d EXCEPT !.ins  = [n \in DOMAIN d.ins  |-> InAbort(d.ins[n])],
                         !.outs = [n \in DOMAIN d.outs |-> OutAbort(d.outs[n])]]

\* the status stage is interrupted by a token to somebody else: it will be retried
CtlInterrupted(c) == IF c.st \in {"status_tok", "status_sent"} THEN [c EXCEPT !.st = "armed"] ELSE c

DevTok(d, cfg, pid, ep) ==
    LET d1 == AbortAll(d) IN
    IF pid = "SETUP" THEN
        IF ep = 0 THEN Ok([d1 EXCEPT !.bus = [k |-> "setup", ep |-> 0], !.ctl.st = "setup"])
        ELSE Ok([d1 EXCEPT !.bus = [k |-> "void", ep |-> ep], !.ctl = CtlInterrupted(@)])
    ELSE IF ep = 0 THEN
        Ok([d1 EXCEPT !.bus = [k |-> "ctl", ep |-> 0],
                      !.ctl.st = IF pid = "IN" /\ d.ctl.st \in {"armed", "status_tok", "status_sent"}
                                 THEN "status_tok" ELSE d.ctl.st])
    ELSE IF pid = "IN" THEN
        IF ep \in InNums(cfg)
        THEN Ok([d1 EXCEPT !.ins[ep] = InTok(@, InMax(cfg, ep)), !.bus = [k |-> "in", ep |-> ep],
                           !.ctl = CtlInterrupted(@)])
        ELSE Ok([d1 EXCEPT !.bus = [k |-> IF IsOpq(cfg, ep, "in") THEN "opq" ELSE "void", ep |-> ep],
                           !.ctl = CtlInterrupted(@)])
    ELSE IF pid \in {"OUT", "PING"} THEN
        IF ep \in OutNums(cfg)
        THEN Ok([d1 EXCEPT !.outs[ep] = OutTok(@, OutDepth(cfg, ep), IF pid = "OUT" THEN "out" ELSE "ping"),
                           !.bus = [k |-> "out", ep |-> ep], !.ctl = CtlInterrupted(@)])
        ELSE Ok([d1 EXCEPT !.bus = [k |-> IF IsOpq(cfg, ep, "out") THEN "opq" ELSE "void", ep |-> ep],
                           !.ctl = CtlInterrupted(@)])
    ELSE [st |-> "env_unknown_token", d |-> d]

\* host data packet
DevData(d, cfg, pid, pl, ok) ==
    IF d.bus.k = "out" THEN
        IF Len(pl) > OutMax(cfg, d.bus.ep) THEN [st |-> "env_oversize_out_packet", d |-> d]
        ELSE Ok([d EXCEPT !.outs[d.bus.ep] = OutData(@, OutMax(cfg, d.bus.ep), pid, pl, ok)])
    ELSE IF d.bus.k = "setup" THEN
        Ok([d EXCEPT !.bus.k = "ctl",
                     !.ctl = IF ok /\ pid = 0 /\ IsClearHalt(pl)
                             THEN [st |-> "armed", ep |-> ClearEp(pl), dir |-> ClearDir(pl)]
                             ELSE [@ EXCEPT !.st = "other"]])
    ELSE Ok(d)

\* device packet r = [k, pid, payload, ok]   (k = "none": the host saw no answer)
DevResp(d, cfg, r) ==
    IF d.bus.k = "in" THEN
        LET n == d.bus.ep  s == d.ins[n] IN
        [st |-> InRespStatus(s, InMax(cfg, n), r),
         d  |-> [d EXCEPT !.ins[n] = InResp(s, r),
                          !.bus.k = IF r.k = "data" THEN "in" ELSE "none"]]
    ELSE IF d.bus.k = "out" THEN
        LET n == d.bus.ep  s == d.outs[n] IN
        [st |-> OutRespStatus(s, OutMax(cfg, n), OutDepth(cfg, n), r.k),
         d  |-> [d EXCEPT !.outs[n] = OutResp(s, OutMax(cfg, n), r.k), !.bus.k = "none"]]
    ELSE IF d.bus.k \in {"ctl", "setup"} THEN
        Ok([d EXCEPT !.ctl.st = IF d.ctl.st = "status_tok"
                                THEN (IF r.k = "data" /\ Len(r.payload) = 0 THEN "status_sent"
                                      ELSE IF r.k = "stall" THEN "idle" ELSE "armed")
                                ELSE d.ctl.st])
    ELSE IF d.bus.k = "opq" THEN Ok(d)
    ELSE IF r.k = "none" THEN Ok(d)
    ELSE [st |-> "response_to_foreign_token", d |-> d]

\* host handshake: ack = an intact ACK reached the device; hostrx = the host received the data intact
DevHs(d, cfg, ack, hostrx) ==
    IF d.bus.k = "in" THEN
        Ok([d EXCEPT !.ins[d.bus.ep] = InHs(@, InMax(cfg, d.bus.ep), ack, hostrx), !.bus.k = "none"])
    ELSE IF d.bus.k = "ctl" /\ d.ctl.st = "status_sent" THEN
        IF ack THEN Ok([DevClear(d, d.ctl.ep, d.ctl.dir) EXCEPT !.ctl.st = "idle", !.bus.k = "none"])
        ELSE Ok([d EXCEPT !.ctl.st = "armed", !.bus.k = "none"])
    ELSE Ok(d)

DevBeat(d, ep, b, l) == Ok([d EXCEPT !.ins[ep] = InBeat(@, b, l)])
DevFlush(d, ep)      == Ok([d EXCEPT !.ins[ep] = InFlush(@)])
DevPop(d, ep, x)     == LET st == OutPopStatus(d.outs[ep], x) IN
                        [st |-> st, d |-> IF st = "ok" THEN [d EXCEPT !.outs[ep] = OutPop(@, x)] ELSE d]

\* end of an observation, after the host polled every IN endpoint until it NAKed twice and all consumers ran dry:
\* nothing accepted may be left undelivered (liveness judged at the end)
DevEnd(d, cfg) ==
    LET badOut == {n \in DOMAIN d.outs : OutDrainedStatus(d.outs[n]) # "ok"}
        badIn  == {n \in DOMAIN d.ins : InMustSend(d.ins[n], InMax(cfg, n))} IN
    [st |-> IF badOut # {} THEN "out_accepted_data_not_delivered"
            ELSE IF badIn # {} THEN "in_accepted_data_not_sent" ELSE "ok", d |-> d]

-----------------------------------------------------------------------------
(* Prop over the composed state *)
DevInv(d, cfg) == /\ \A n \in DOMAIN d.ins  : InInv(d.ins[n], InMax(cfg, n))
                  /\ \A n \in DOMAIN d.outs : OutInv(d.outs[n], OutMax(cfg, n), OutDepth(cfg, n))

\* the part of an endpoint's reference state that determines what it sends / delivers next
InEss(s)  == <<s.off, s.done, s.out, s.outN, s.tog, s.zlp, s.fl>>
OutEss(s) == <<s.exp, s.q, s.act, s.acc, s.del>>
=============================================================================
