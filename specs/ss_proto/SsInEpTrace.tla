---------------------------- MODULE SsInEpTrace ----------------------------
(***************************************************************************)
(* Trace validation for SsInEp.  A trace is a record                       *)
(*  [cfg |-> [maxpkt, ep, addr, chkep], steps |-> <<events>>]              *)
(* every event carries its cycle number t; see SsInEp for the event kinds. *)
(***************************************************************************)
EXTENDS SsInEp, TLC, TLCExt, Json, IOUtils

Logs == JsonDeserialize(IOEnv.TRACE_FILE)

VARIABLES tid, l, status, lastT
tvars == <<evars, tid, l, status, lastT>>

ASSUME \A i \in 1..Len(Logs) : TLCSet(i, <<0, "ok">>)

TInit == /\ tid \in 1..Len(Logs) /\ l = 1 /\ status = "ok" /\ lastT = 0
         /\ InitWith(Logs[tid].cfg)

TNext == /\ status = "ok"
         /\ l <= Len(Logs[tid].steps)
         /\ LET ev == Logs[tid].steps[l]
                f == IF ev.t < lastT THEN "env_time_goes_back" ELSE Failing(ev) IN
              /\ status' = f
              /\ IF f = "ok" THEN Apply(ev, ev.t - lastT) /\ lastT' = ev.t
                 ELSE UNCHANGED <<evars, lastT>>
         /\ l' = l + 1
         /\ UNCHANGED tid

TSpec == TInit /\ [][TNext]_tvars

TraceProp == ExactlyOnceInOrder /\ PacketShapes /\ RequestShape
Verdict == IF status # "ok" THEN status ELSE IF TraceProp THEN "ok" ELSE "prop_invariant"
\* (an invariant failure stops the trace there, so that later steps cannot overwrite it)
Progress == TLCSet(tid, <<l - 1, Verdict>>) /\ Verdict = "ok"
Verdicts == JsonSerialize(IOEnv.VERDICT_FILE, [i \in 1..Len(Logs) |-> TLCGet(i)])
=============================================================================
