----------------------------- MODULE Usb2Reset -----------------------------
(***************************************************************************)
(* C19 -- USB2 reset, high-speed handshake (chirp) and suspend follow the  *)
(* line-state timing rules.                                                *)
(*                                                                         *)
(* Grain: one step = one cycle of the 60 MHz `usb` clock (explicit time).  *)
(*                                                                         *)
(*   Env  : the six inputs of the cycle, any value in any cycle            *)
(*          (line_state 0..3, vbus_connected, disconnect, full_speed_only, *)
(*          low_speed_only, bus_busy) and the reset of the usb clock       *)
(*          domain (rst).  One assumption: BusyMax below.                  *)
(*   Ref  : the reset sequencer as *designed* -- FSM states, the event     *)
(*          timer and the line-state timer, thresholds as named constants  *)
(*          (implementation-shaped: the property is about the mechanism's  *)
(*          timing).  It is a pure function RefNext(s, i); the MC module   *)
(*          exposes one action per FSM edge.  Ref is used to (1) show that *)
(*          Prop is satisfiable by the intended design for every input     *)
(*          history, (2) generate behaviours, (3) lock-step DRIFT info.    *)
(*   Prop : monitors with their own run-length ghosts, written from the    *)
(*          property text and USB 2.0 7.1.7.5 / 7.1.7.6 / C.2, over the    *)
(*          *observed* inputs and public outputs only (never over Ref).    *)
(*          These alone carry the verdict on real traces.                  *)
(***************************************************************************)
EXTENDS Naturals, Integers, Sequences, FiniteSets

CONSTANTS T2P5US,     \* 2.5 us  TFILT / min SE0 for reset from suspend
          T5US,       \* 5 us    reset debounce when active at FS/LS
          T200US,     \* 200 us  settle time after HS -> FS reversion
          T1MS,       \* 1 ms    TUCH min device chirp K
          T2MS,       \* 2 ms    length of the device chirp as designed
          T2P5MS,     \* 2.5 ms  TWTFS host chirp deadline
          T3MS,       \* 3 ms    idle before suspend / HS reversion
          TimerMod,   \* both hardware timers wrap at this value (2^width)
          Slack       \* observation latency granted to registered outputs (cycles)

ASSUME /\ 1 < T2P5US /\ T2P5US < T5US /\ T5US < T200US /\ T200US < T1MS
       /\ T1MS < T2MS /\ T2MS < T2P5MS /\ T2P5MS < T3MS /\ T3MS < TimerMod
       /\ Slack >= 2

\* line_state encodings (UTMI): D+ is bit 0.
SE0 == 0
FSJ == 1     \* FS/HS J  (= LS K)
FSK == 2     \* FS/HS K  (= LS J)
SE1 == 3

\* current_speed (= UTMI xcvr_select), operating_mode, termination_select
HIGH == 0   FULL == 1   LOW == 2
NORMAL == 0   NONDRIVING == 1   CHIRP == 2

Bool == {TRUE, FALSE}
Min(a, b) == IF a < b THEN a ELSE b
Max(a, b) == IF a > b THEN a ELSE b

InputRec == [ls : 0..3, vbus : Bool, disc : Bool, fso : Bool, lso : Bool, busy : Bool]
Restricted(i) == i.fso \/ i.lso


-----------------------------------------------------------------------------
(***************************************************************************)
(* Ref -- the sequencer as designed.  State record:                        *)
(*   fsm, timer (event timer), lst (line-state timer), pairs (valid host   *)
(*   K-J pairs so far), wasHs (suspend entered from HS), tddis,            *)
(*   spd / op / term (registered outputs).                                 *)
(* bus_reset, suspended and tx.valid are combinational (RefOut).           *)
(* Where several transitions are enabled the *last* listed one wins.       *)
(***************************************************************************)
FsmStates == {"INITIALIZE", "LS_FS_NON_RESET", "HS_NON_RESET", "START_HS_DETECTION",
              "PREPARE_FOR_CHIRP_0", "PREPARE_FOR_CHIRP_1", "DEVICE_CHIRP",
              "AWAIT_HOST_K", "IN_HOST_K", "AWAIT_HOST_J", "IN_HOST_J",
              "IS_HIGH_SPEED", "IS_LOW_OR_FULL_SPEED", "DETECT_HS_SUSPEND",
              "SUSPENDED", "DISCONNECT"}

RefInit == [fsm |-> "INITIALIZE", timer |-> 0, lst |-> 0, pairs |-> 0, wasHs |-> FALSE,
            tddis |-> FALSE, spd |-> FULL, op |-> NORMAL, term |-> 1]

Inc(x) == (x + 1) % TimerMod

\* Idle line state of the speed the transceiver is currently set to [USB2 7.1.7.4, Table 7-2].
IdleLs(spd) == IF spd = HIGH THEN SE0 ELSE IF spd = FULL THEN FSJ ELSE FSK

\* Resume signalling (K of the device's configured low/full speed) while suspended.
ResumeK(i) == (i.lso /\ i.ls = FSJ) \/ (~i.lso /\ i.ls = FSK)

\* Combinational outputs of the cycle in which the state is s and the inputs are i.
RefOut(s, i) ==
  [br   |-> CASE s.fsm = "LS_FS_NON_RESET"   -> ~i.vbus \/ s.timer = T5US
              [] s.fsm = "HS_NON_RESET"      -> ~i.vbus
              [] s.fsm = "DETECT_HS_SUSPEND" -> s.timer = T200US /\ i.ls # FSJ
              [] s.fsm = "SUSPENDED"         -> s.timer = T2P5US
              [] OTHER -> FALSE,
   susp |-> s.fsm = "SUSPENDED",
   txv  |-> s.fsm = "DEVICE_CHIRP",
   spd  |-> s.spd, op |-> s.op, term |-> s.term]

\* One clock cycle.
RefNext(s, i) ==
  LET tick == [s EXCEPT !.timer = Inc(s.timer), !.lst = Inc(s.lst)]
  IN
  CASE s.fsm = "INITIALIZE" ->
         [tick EXCEPT !.fsm = "LS_FS_NON_RESET", !.timer = 0, !.lst = 0,
                      !.spd = IF i.lso THEN LOW ELSE s.spd]
    [] s.fsm = "LS_FS_NON_RESET" ->
         LET idle    == i.ls = IdleLs(s.spd)
             resetAt == s.timer = T5US
             t1 == [tick EXCEPT !.timer = IF i.ls # SE0 \/ ~i.vbus THEN 0 ELSE Inc(s.timer),
                                !.lst   = IF ~idle THEN 0 ELSE Inc(s.lst)]
         IN IF s.lst = T3MS                     THEN [t1 EXCEPT !.fsm = "SUSPENDED", !.wasHs = FALSE]
            ELSE IF resetAt /\ ~Restricted(i)   THEN [t1 EXCEPT !.fsm = "START_HS_DETECTION"]
            ELSE IF i.ls # SE0 /\ i.disc        THEN [t1 EXCEPT !.fsm = "DISCONNECT"]
            ELSE t1
    [] s.fsm = "HS_NON_RESET" ->
         LET revert == s.timer = T3MS
             t1 == IF revert THEN [tick EXCEPT !.timer = 0, !.spd = FULL, !.op = NORMAL, !.term = 1]
                   ELSE [tick EXCEPT !.timer = IF i.ls # SE0 THEN 0 ELSE Inc(s.timer)]
         IN IF Restricted(i)                    THEN [t1 EXCEPT !.fsm = "IS_LOW_OR_FULL_SPEED"]
            ELSE IF revert                      THEN [t1 EXCEPT !.fsm = "DETECT_HS_SUSPEND"]
            ELSE IF ~i.vbus                     THEN [t1 EXCEPT !.fsm = "IS_LOW_OR_FULL_SPEED"]
            ELSE IF i.ls # SE0 /\ i.disc        THEN [t1 EXCEPT !.fsm = "DISCONNECT"]
            ELSE t1
    [] s.fsm = "START_HS_DETECTION" ->
         [tick EXCEPT !.fsm = "PREPARE_FOR_CHIRP_0", !.timer = 0,
                      !.spd = HIGH, !.op = CHIRP, !.term = 1]
    [] s.fsm = "PREPARE_FOR_CHIRP_0" ->
         IF i.busy THEN tick ELSE [tick EXCEPT !.fsm = "PREPARE_FOR_CHIRP_1"]
    [] s.fsm = "PREPARE_FOR_CHIRP_1" ->
         IF i.busy THEN tick ELSE [tick EXCEPT !.fsm = "DEVICE_CHIRP"]
    [] s.fsm = "DEVICE_CHIRP" ->
         IF s.timer = T2MS THEN [tick EXCEPT !.fsm = "AWAIT_HOST_K", !.timer = 0, !.pairs = 0]
         ELSE tick
    [] s.fsm = "AWAIT_HOST_K" ->
         IF s.timer = T2P5MS     THEN [tick EXCEPT !.fsm = "IS_LOW_OR_FULL_SPEED"]
         ELSE IF i.ls = FSK      THEN [tick EXCEPT !.fsm = "IN_HOST_K", !.lst = 0]
         ELSE tick
    [] s.fsm = "IN_HOST_K" ->
         IF s.timer = T2P5MS     THEN [tick EXCEPT !.fsm = "IS_LOW_OR_FULL_SPEED"]
         ELSE IF i.ls # FSK      THEN [tick EXCEPT !.fsm = "AWAIT_HOST_K"]
         ELSE IF s.lst = T2P5US  THEN [tick EXCEPT !.fsm = "AWAIT_HOST_J"]
         ELSE tick
    [] s.fsm = "AWAIT_HOST_J" ->
         IF s.timer = T2P5MS     THEN [tick EXCEPT !.fsm = "IS_LOW_OR_FULL_SPEED"]
         ELSE IF i.ls = FSJ      THEN [tick EXCEPT !.fsm = "IN_HOST_J", !.lst = 0]
         ELSE tick
    [] s.fsm = "IN_HOST_J" ->
         IF s.timer = T2P5MS     THEN [tick EXCEPT !.fsm = "IS_LOW_OR_FULL_SPEED"]
         ELSE IF i.ls # FSJ      THEN [tick EXCEPT !.fsm = "AWAIT_HOST_J"]
         ELSE IF s.lst = T2P5US  THEN
                IF s.pairs = 2   THEN [tick EXCEPT !.fsm = "IS_HIGH_SPEED"]
                ELSE [tick EXCEPT !.fsm = "AWAIT_HOST_K", !.pairs = s.pairs + 1]
         ELSE tick
    [] s.fsm = "IS_HIGH_SPEED" ->
         [tick EXCEPT !.fsm = "HS_NON_RESET", !.timer = 0, !.lst = 0,
                      !.spd = HIGH, !.op = NORMAL, !.term = 0]
    [] s.fsm = "IS_LOW_OR_FULL_SPEED" ->
         LET t1 == [tick EXCEPT !.op = NORMAL, !.term = 1, !.spd = IF i.lso THEN LOW ELSE FULL]
         IN IF i.ls # SE0 THEN [t1 EXCEPT !.fsm = "LS_FS_NON_RESET", !.timer = 0, !.lst = 0]
            ELSE t1
    [] s.fsm = "DETECT_HS_SUSPEND" ->
         IF s.timer = T200US THEN
              IF i.ls = FSJ          THEN [tick EXCEPT !.fsm = "SUSPENDED", !.timer = 0, !.wasHs = TRUE]
              ELSE IF Restricted(i)  THEN [tick EXCEPT !.fsm = "IS_LOW_OR_FULL_SPEED", !.timer = 0]
              ELSE [tick EXCEPT !.fsm = "START_HS_DETECTION", !.timer = 0]
         ELSE tick
    [] s.fsm = "SUSPENDED" ->
         IF s.timer = T2P5US THEN
              IF Restricted(i) THEN [tick EXCEPT !.fsm = "LS_FS_NON_RESET", !.timer = 0, !.lst = 0]
              ELSE [tick EXCEPT !.fsm = "START_HS_DETECTION", !.timer = 0]
         ELSE IF ResumeK(i) THEN
              IF s.wasHs THEN [tick EXCEPT !.fsm = "IS_HIGH_SPEED", !.timer = 0]
              ELSE [tick EXCEPT !.fsm = "LS_FS_NON_RESET", !.timer = 0, !.lst = 0]
         ELSE [tick EXCEPT !.timer = IF i.ls # SE0 THEN 0 ELSE Inc(s.timer)]
    [] s.fsm = "DISCONNECT" ->
         IF ~i.disc /\ s.tddis THEN
              [tick EXCEPT !.fsm = "INITIALIZE", !.tddis = FALSE, !.spd = FULL, !.op = NORMAL, !.term = 1]
         ELSE [tick EXCEPT !.op = NONDRIVING, !.tddis = s.tddis \/ s.timer = T2P5US]

RefTypeOK(s) == /\ s.fsm \in FsmStates /\ s.timer \in 0..TimerMod-1 /\ s.lst \in 0..TimerMod-1
                /\ s.pairs \in 0..2 /\ s.wasHs \in Bool /\ s.tddis \in Bool
                /\ s.spd \in {HIGH, FULL, LOW} /\ s.op \in {NORMAL, NONDRIVING, CHIRP} /\ s.term \in {0, 1}

-----------------------------------------------------------------------------
(***************************************************************************)
(* Prop -- monitors over one *observation* per cycle                       *)
(*   o = [ls, vbus, disc, fso, lso, busy, rst,     (inputs of the cycle)   *)
(*        br, susp, spd, op, term, txv, txd]       (public outputs)        *)
(* with their own run-length / age ghosts (record m).  Nothing below       *)
(* refers to Ref.  "xxxAge" = number of cycles since condition xxx last    *)
(* held (0 = holds in the current cycle), saturating at Slack+1 = "not     *)
(* recently"; a registered output may lag the condition that justifies it  *)
(* by at most Slack cycles.                                                *)
(***************************************************************************)
Never == Slack + 1
AwaitCap == T2P5MS + Slack + 1

\* Environment assumption (the only one).  The 2 ms of the device chirp are counted from the start of the
\* handshake and the device waits for the PHY (bus_busy) before it drives, so a PHY that stays busy for most
\* of a millisecond leaves no room for the >= 1 ms chirp K [USB2 7.1.7.5 TUCH] the property speaks of.
\* Assumed: while the device prepares to chirp, bus_busy is asserted in at most BusyMax cycles.
BusyMax == T2MS - 1 - T1MS

\* High-speed *operation*: HS transceiver selected and normal (non-chirp, driving) signalling.
HsMode(o) == o.spd = HIGH /\ o.op = NORMAL
DrivingChirpK(o) == o.op = CHIRP /\ o.txv /\ o.txd = 0

MonInit ==
  [se0Run |-> 0, taint |-> FALSE,                          \* SE0 run; it includes cycles of HS operation
   q2p5Age |-> Never, q5Age |-> Never,                     \* ages of "SE0 run >= T" (5 us: untainted run)
   idleRun |-> 0, idle3Age |-> Never,                      \* FS/LS idle run (J of the selected speed)
   hsIdleRun |-> 0, hsIdle3Age |-> Never,                  \* HS idle (SE0 while in HS operation)
   jAge |-> Never, nonJAge |-> Never,                      \* FS J seen / something else than FS J seen
   unrAge |-> Never,                                       \* not restricted to FS/LS
   rstAge |-> Never, chirpAge |-> Never, suspAge |-> Never,\* bus_reset / op=CHIRP / suspended outputs
   hs |-> FALSE, hsOK |-> FALSE, rhs |-> 0,                \* in HS operation; legitimately; restricted-HS run
   revertOn |-> FALSE, revertAge |-> 0,                    \* HS->FS reversion after 3 ms HS idle pending
   suspHs |-> FALSE,                                       \* current/last suspend was entered from HS
   byReset |-> FALSE, kRun |-> 0, droveK |-> FALSE,        \* handshake window: started by reset; device chirp
   busyUsed |-> 0,                                         \* cycles the PHY was busy while the device prepared to chirp
   active |-> FALSE, awaitAge |-> 0,                       \* host-chirp recogniser running; its age
   phase |-> 0, run |-> 0, pairs |-> 0]                    \* expecting K(0)/J(1); run of it; valid K-J pairs

AgeOf(holds, old) == IF holds THEN 0 ELSE Min(old + 1, Never)

\* Absorb one cycle.  Returns [m |-> new monitor state, bad |-> name of first violated clause or "ok"].
MonEval(m, o) ==
  LET restricted == o.fso \/ o.lso
      hsNow      == HsMode(o)
      \* --- run lengths including the current cycle
      se0Run1    == IF o.ls = SE0 THEN Min(m.se0Run + 1, T5US) ELSE 0
      q2p5Age1   == AgeOf(se0Run1 >= T2P5US, m.q2p5Age)
      \* (a soft-disconnected device -- non-driving -- or one whose clock domain is reset starts afresh:
      \*  the run no longer counts as HS idle)
      taint1     == o.ls = SE0 /\ o.op # NONDRIVING /\ ~o.rst /\ (hsNow \/ m.taint)
      q5Age1     == AgeOf(se0Run1 >= T5US /\ ~taint1, m.q5Age)
      idleNow    == o.spd # HIGH /\ o.ls = IdleLs(o.spd)
      idleRun1   == IF idleNow THEN Min(m.idleRun + 1, T3MS) ELSE 0
      idle3Age1  == AgeOf(idleRun1 >= T3MS, m.idle3Age)
      hsIdleRun1 == IF hsNow /\ o.ls = SE0 THEN Min(m.hsIdleRun + 1, T3MS) ELSE 0
      hsIdle3Age1 == AgeOf(hsIdleRun1 >= T3MS, m.hsIdle3Age)
      jAge1      == AgeOf(o.ls = FSJ, m.jAge)
      nonJAge1   == AgeOf(o.ls # FSJ, m.nonJAge)
      unrAge1    == AgeOf(~restricted, m.unrAge)
      rstAge1    == AgeOf(o.br, m.rstAge)
      chirpAge1  == AgeOf(o.op = CHIRP, m.chirpAge)
      suspAge1   == AgeOf(o.susp, m.suspAge)
      \* --- edges
      chirpStart == o.op = CHIRP /\ m.chirpAge # 0
      suspRise   == o.susp /\ m.suspAge # 0
      hsRise     == hsNow /\ ~m.hs
      hsFall     == m.hs /\ ~hsNow
      \* --- HS -> FS reversion window [USB2 7.1.7.6]: opened when HS operation is left after
      \*     >= 3 ms of HS idle.  It only *grants* the HS reset / HS suspend rules below.
      revertAge1 == IF m.revertOn THEN Min(m.revertAge + 1, T200US) ELSE 0
      opens      == hsFall /\ m.hsIdle3Age <= Slack
      \* --- handshake window ghosts
      w0 == IF chirpStart
            THEN [byReset |-> rstAge1 <= Slack, kRun |-> 0, droveK |-> FALSE, active |-> FALSE,
                  awaitAge |-> 0, phase |-> 0, run |-> 0, pairs |-> 0, busyUsed |-> 0]
            ELSE [byReset |-> m.byReset, kRun |-> m.kRun, droveK |-> m.droveK, active |-> m.active,
                  awaitAge |-> m.awaitAge, phase |-> m.phase, run |-> m.run, pairs |-> m.pairs,
                  busyUsed |-> m.busyUsed]
      inWin    == o.op = CHIRP
      preparing == inWin /\ ~o.txv /\ ~w0.droveK /\ w0.kRun = 0
      busyUsed1 == IF preparing /\ o.busy THEN Min(w0.busyUsed + 1, BusyMax + 1) ELSE w0.busyUsed
      kRun1    == IF inWin /\ DrivingChirpK(o) THEN Min(w0.kRun + 1, T1MS) ELSE 0
      droveK1  == IF inWin THEN w0.droveK \/ kRun1 >= T1MS ELSE w0.droveK
      active1  == inWin /\ droveK1 /\ ~o.txv
      starts   == active1 /\ ~w0.active
      r0       == IF starts THEN [phase |-> 0, run |-> 0, pairs |-> 0]
                  ELSE [phase |-> w0.phase, run |-> w0.run, pairs |-> w0.pairs]
      expect   == IF r0.phase = 0 THEN FSK ELSE FSJ
      hit      == active1 /\ o.ls = expect
      done     == hit /\ r0.run + 1 >= T2P5US
      phase1   == IF done THEN 1 - r0.phase ELSE r0.phase
      run1     == IF ~active1 THEN r0.run ELSE IF hit /\ ~done THEN r0.run + 1 ELSE 0
      pairs1   == IF done /\ r0.phase = 1 THEN Min(r0.pairs + 1, 3) ELSE r0.pairs
      awaitAge1 == IF ~active1 THEN w0.awaitAge ELSE IF starts THEN 0 ELSE Min(w0.awaitAge + 1, AwaitCap)
      \* --- clause (a): legitimate entry into HS operation
      viaShake == chirpAge1 <= Slack /\ w0.byReset /\ droveK1 /\ pairs1 >= 3
      viaResume == m.suspAge <= Slack /\ m.suspHs
      hsOK1    == IF ~hsNow THEN FALSE ELSE IF m.hs THEN m.hsOK ELSE viaShake \/ viaResume
      rhs1     == IF hsNow /\ restricted THEN Min(m.rhs + 1, 3) ELSE 0
      \* --- clause (e): every reason for which bus_reset may be reported
      brOK     == \/ ~o.vbus
                  \/ suspAge1 <= Slack /\ q2p5Age1 <= Slack
                  \/ o.spd # HIGH /\ q5Age1 <= Slack
                  \/ m.revertOn /\ revertAge1 >= T200US /\ nonJAge1 <= Slack
      suspOK   == \/ idle3Age1 <= Slack
                  \/ m.revertOn /\ jAge1 <= Slack
      bad == IF busyUsed1 > BusyMax THEN "env_bus_busy_beyond_assumption"
             ELSE IF o.br /\ ~brOK THEN "e_bus_reset_without_cause"
             ELSE IF suspRise /\ ~suspOK THEN "f_suspend_without_3ms_idle"
             ELSE IF chirpStart /\ unrAge1 > Slack THEN "b_handshake_started_while_restricted"
             ELSE IF chirpStart /\ rstAge1 > Slack THEN "g_handshake_without_reported_bus_reset"
             ELSE IF hsNow /\ ~hsOK1 THEN "a_high_speed_without_valid_handshake"
             ELSE IF rhs1 > 2 THEN "c_high_speed_kept_while_restricted"
             ELSE IF inWin /\ active1 /\ awaitAge1 > T2P5MS + Slack THEN "d_no_fallback_after_chirp_timeout"
             ELSE "ok"
      closes   == o.br \/ suspRise \/ chirpStart \/ hsRise \/ o.rst
      \* --- which antecedents were exercised in this cycle (coverage information only)
      ev == (IF o.br THEN {IF ~o.vbus THEN "reset_no_vbus"
                           ELSE IF suspAge1 <= Slack /\ q2p5Age1 <= Slack THEN "reset_from_suspend"
                           ELSE IF m.revertOn THEN "reset_from_high_speed" ELSE "reset_at_full_low_speed"} ELSE {})
            \cup (IF suspRise THEN {IF m.revertOn THEN "suspend_from_high_speed" ELSE "suspend_at_full_low_speed"} ELSE {})
            \cup (IF chirpStart THEN {"handshake_start"} ELSE {})
            \cup (IF starts THEN {"device_chirp_done"} ELSE {})
            \cup (IF done /\ r0.phase = 1 THEN {"host_pair_valid"} ELSE {})
            \cup (IF hit /\ ~done THEN {} ELSE IF active1 /\ r0.run > 0 THEN {"host_chirp_too_short"} ELSE {})
            \cup (IF hsRise THEN {IF viaShake THEN "high_speed_by_handshake" ELSE "high_speed_by_resume"} ELSE {})
            \cup (IF hsFall THEN {IF opens THEN "high_speed_reverted_idle" ELSE "high_speed_left"} ELSE {})
            \cup (IF m.chirpAge = 0 /\ ~inWin /\ ~hsNow THEN {"handshake_fallback"} ELSE {})
            \cup (IF hsNow /\ restricted THEN {"restricted_in_high_speed"} ELSE {})
      keepWin  == chirpAge1 <= Slack          \* window ghosts are only needed until shortly after it
      keepSusp == suspAge1 <= Slack
  IN [bad |-> bad, ev |-> ev,
      m |-> [se0Run |-> se0Run1, taint |-> taint1, q2p5Age |-> q2p5Age1, q5Age |-> q5Age1,
             idleRun |-> idleRun1, idle3Age |-> idle3Age1,
             hsIdleRun |-> hsIdleRun1, hsIdle3Age |-> hsIdle3Age1,
             jAge |-> jAge1, nonJAge |-> nonJAge1,
             unrAge |-> unrAge1,
             rstAge |-> rstAge1, chirpAge |-> chirpAge1, suspAge |-> suspAge1,
             hs |-> hsNow, hsOK |-> hsOK1, rhs |-> rhs1,
             revertOn |-> IF closes THEN FALSE ELSE (m.revertOn \/ opens),
             revertAge |-> IF closes \/ ~(m.revertOn \/ opens) THEN 0 ELSE revertAge1,
             suspHs |-> IF suspRise THEN m.revertOn ELSE IF keepSusp THEN m.suspHs ELSE FALSE,
             byReset |-> keepWin /\ w0.byReset, kRun |-> IF keepWin THEN kRun1 ELSE 0,
             droveK |-> keepWin /\ droveK1, active |-> active1,
             busyUsed |-> IF keepWin THEN busyUsed1 ELSE 0,
             awaitAge |-> IF keepWin THEN awaitAge1 ELSE 0,
             phase |-> IF keepWin THEN phase1 ELSE 0, run |-> IF keepWin THEN run1 ELSE 0,
             pairs |-> IF keepWin THEN pairs1 ELSE 0]]

MonTypeOK(m) ==
  /\ m.se0Run \in 0..T5US /\ m.idleRun \in 0..T3MS /\ m.hsIdleRun \in 0..T3MS
  /\ \A f \in {"q2p5Age", "q5Age", "idle3Age", "hsIdle3Age", "jAge", "nonJAge", "unrAge",
               "rstAge", "chirpAge", "suspAge"} : m[f] \in 0..Never
  /\ m.rhs \in 0..3 /\ m.revertAge \in 0..T200US /\ m.kRun \in 0..T1MS
  /\ m.busyUsed \in 0..BusyMax + 1
  /\ m.awaitAge \in 0..AwaitCap /\ m.phase \in {0, 1} /\ m.run \in 0..T2P5US /\ m.pairs \in 0..3

-----------------------------------------------------------------------------
(***************************************************************************)
(* Explicit-time leaps.  A trace record {"dt": n} says "n further cycles   *)
(* with the inputs and the outputs of the previous record".                *)
(*   MonAdv / AdvBad : closed form of n-fold MonEval under a held          *)
(*       observation (no edges can occur; run lengths grow, ages grow,     *)
(*       at most one chirp state completes) and of the clauses that can    *)
(*       become false merely by time passing ((c) and (d)).                *)
(*   RefRun : the reference sequencer leaps from one watched timer value   *)
(*       to the next; any output change on the way is a threshold crossed  *)
(*       silently (ok = FALSE).                                            *)
(* MCUsb2Reset checks both against plain iteration, exhaustively.          *)
(***************************************************************************)
MonAdv(m, o, n) ==
  LET restricted == o.fso \/ o.lso
      hsNow      == HsMode(o)
      AgeN(holds, old) == IF holds THEN 0 ELSE Min(old + n, Never)
      se0Run1    == IF o.ls = SE0 THEN Min(m.se0Run + n, T5US) ELSE 0
      idleNow    == o.spd # HIGH /\ o.ls = IdleLs(o.spd)
      idleRun1   == IF idleNow THEN Min(m.idleRun + n, T3MS) ELSE 0
      hsIdleRun1 == IF hsNow /\ o.ls = SE0 THEN Min(m.hsIdleRun + n, T3MS) ELSE 0
      chirpAge1  == AgeN(o.op = CHIRP, m.chirpAge)
      suspAge1   == AgeN(o.susp, m.suspAge)
      revertOn1  == m.revertOn /\ ~o.br /\ ~o.rst
      inWin      == o.op = CHIRP
      keepWin    == chirpAge1 <= Slack
      kRun1      == IF inWin /\ DrivingChirpK(o) THEN Min(m.kRun + n, T1MS) ELSE 0
      droveK1    == IF inWin THEN m.droveK \/ kRun1 >= T1MS ELSE m.droveK
      act        == inWin /\ m.active
      expect     == IF m.phase = 0 THEN FSK ELSE FSJ
      hit        == act /\ o.ls = expect
      done       == hit /\ m.run + n >= T2P5US
      phase1     == IF done THEN 1 - m.phase ELSE m.phase
      run1       == IF ~act THEN m.run ELSE IF hit /\ ~done THEN m.run + n ELSE 0
      pairs1     == IF done /\ m.phase = 1 THEN Min(m.pairs + 1, 3) ELSE m.pairs
      awaitAge1  == IF act THEN Min(m.awaitAge + n, AwaitCap) ELSE m.awaitAge
      preparing  == inWin /\ ~o.txv /\ ~m.droveK /\ m.kRun = 0
      busyUsed1  == IF preparing /\ o.busy THEN Min(m.busyUsed + n, BusyMax + 1) ELSE m.busyUsed
  IN [m EXCEPT
        !.se0Run = se0Run1,
        !.q2p5Age = AgeN(se0Run1 >= T2P5US, m.q2p5Age),
        !.q5Age = AgeN(se0Run1 >= T5US /\ ~m.taint, m.q5Age),
        !.idleRun = idleRun1, !.idle3Age = AgeN(idleRun1 >= T3MS, m.idle3Age),
        !.hsIdleRun = hsIdleRun1, !.hsIdle3Age = AgeN(hsIdleRun1 >= T3MS, m.hsIdle3Age),
        !.jAge = AgeN(o.ls = FSJ, m.jAge), !.nonJAge = AgeN(o.ls # FSJ, m.nonJAge),
        !.unrAge = AgeN(~restricted, m.unrAge),
        !.rstAge = AgeN(o.br, m.rstAge), !.chirpAge = chirpAge1, !.suspAge = suspAge1,
        !.rhs = IF hsNow /\ restricted THEN Min(m.rhs + n, 3) ELSE 0,
        !.revertOn = revertOn1,
        !.revertAge = IF revertOn1 THEN Min(m.revertAge + n, T200US) ELSE 0,
        !.suspHs = IF suspAge1 <= Slack THEN m.suspHs ELSE FALSE,
        !.byReset = keepWin /\ m.byReset, !.kRun = IF keepWin THEN kRun1 ELSE 0,
        !.droveK = keepWin /\ droveK1, !.active = act,
        !.busyUsed = IF keepWin THEN busyUsed1 ELSE 0,
        !.awaitAge = IF keepWin THEN awaitAge1 ELSE 0,
        !.phase = IF keepWin THEN phase1 ELSE 0, !.run = IF keepWin THEN run1 ELSE 0,
        !.pairs = IF keepWin THEN pairs1 ELSE 0]

\* A leap is only defined over cycles in which bus_reset is not being justified by an SE0 run and the
\* clock domain is not held in reset (the recorder logs those cycle by cycle).
AdvDefined(o) == (o.br => ~o.vbus) /\ ~o.rst

\* Coverage information for a leap: a chirp state may complete inside it.
AdvEv(m, o, n) ==
  IF o.op = CHIRP /\ m.active /\ o.ls = (IF m.phase = 0 THEN FSK ELSE FSJ) /\ m.run + n >= T2P5US /\ m.phase = 1
  THEN {"host_pair_valid"} ELSE {}

AdvBad(m, o, n) ==
  IF o.op = CHIRP /\ ~o.txv /\ ~m.droveK /\ m.kRun = 0 /\ o.busy /\ m.busyUsed + n > BusyMax
  THEN "env_bus_busy_beyond_assumption"
  ELSE IF HsMode(o) /\ ~m.hsOK THEN "a_high_speed_without_valid_handshake"
  ELSE IF HsMode(o) /\ (o.fso \/ o.lso) /\ m.rhs + n > 2 THEN "c_high_speed_kept_while_restricted"
  ELSE IF o.op = CHIRP /\ m.active /\ m.awaitAge + n > T2P5MS + Slack THEN "d_no_fallback_after_chirp_timeout"
  ELSE "ok"

Watch == {T2P5US, T5US, T200US, T2MS, T2P5MS, T3MS}
SetMin(S) == CHOOSE x \in S : \A y \in S : x <= y
Dist(v) == SetMin({(w + TimerMod - v) % TimerMod : w \in Watch})    \* cycles until v counts up to a watched value
Shape(s) == [s EXCEPT !.timer = 0, !.lst = 0]

RECURSIVE RefRun(_, _, _, _, _)
RefRun(s, i, n, outs, st) ==
  IF n = 0 THEN [s |-> s, ok |-> TRUE]
  ELSE IF RefOut(s, i) # outs \/ (st # "" /\ s.fsm # st) THEN [s |-> s, ok |-> FALSE]
  ELSE LET s1 == RefNext(s, i)
           quiet == /\ Shape(s1) = Shape(s)
                    /\ s.timer \notin Watch /\ s.lst \notin Watch
                    /\ Inc(s.timer) # 0 /\ Inc(s.lst) # 0
       IN IF ~quiet THEN RefRun(s1, i, n - 1, outs, st)
          ELSE LET tc == s1.timer # 0             \* the timer counts (otherwise it is held at 0)
                   lc == s1.lst # 0
                   k  == Min(n, Min(IF tc THEN Dist(s.timer) ELSE n, IF lc THEN Dist(s.lst) ELSE n))
               IN RefRun([s EXCEPT !.timer = IF tc THEN (s.timer + k) % TimerMod ELSE 0,
                                   !.lst   = IF lc THEN (s.lst + k) % TimerMod ELSE 0],
                         i, n - k, outs, st)

-----------------------------------------------------------------------------
(* Known-finding trigger predicates (named Env predicates KF_xxx): they classify a behaviour /   *)
(* trace as `clean` (no trigger) or as a witness of one open finding.  They never influence    *)
(* a verdict.  m is the monitor state *after* absorbing o.                                     *)
KF_RevertRestricted(m, o) == m.revertOn /\ (o.fso \/ o.lso)
\* (the chirp state the device may be waiting for *begins* in exactly the deadline cycle)
KF_ChirpAtDeadline(m, o, prevLs) == /\ o.op = CHIRP /\ m.active /\ m.awaitAge = T2P5MS
                                    /\ o.ls \in {FSJ, FSK} /\ prevLs # o.ls
KfInit == [jRun |-> 0, kRun |-> 0, arm |-> FALSE, prevLs |-> FSJ, tags |-> {}]
KfEval(k, m, o) ==
  LET jRun1 == IF o.ls = FSJ THEN Min(k.jRun + 1, T2P5US + 2) ELSE 0
      kRun1 == IF o.ls = FSK THEN Min(k.kRun + 1, T2P5US) ELSE 0
      act   == o.op = CHIRP /\ m.active
      arm1  == act /\ (IF kRun1 >= T2P5US THEN FALSE
                       ELSE IF o.ls # FSJ /\ k.jRun = T2P5US + 1 THEN TRUE ELSE k.arm)
      t3    == act /\ k.arm /\ jRun1 >= T2P5US
  IN [jRun |-> jRun1, kRun |-> kRun1, arm |-> arm1, prevLs |-> o.ls,
      tags |-> k.tags \cup (IF KF_RevertRestricted(m, o) THEN {"kf_revert_restricted"} ELSE {})
                      \cup (IF KF_ChirpAtDeadline(m, o, k.prevLs) THEN {"kf_chirp_at_deadline"} ELSE {})
                      \cup (IF t3 THEN {"kf_j_recounted"} ELSE {})]


\* The same over a leap of n cycles with held observation o (m = monitor state before the leap).
KfAdv(k, m, o, n) ==
  LET jRun1 == IF o.ls = FSJ THEN Min(k.jRun + n, T2P5US + 2) ELSE 0
      kRun1 == IF o.ls = FSK THEN Min(k.kRun + n, T2P5US) ELSE 0
      act   == o.op = CHIRP /\ m.active
      t3    == act /\ k.arm /\ jRun1 >= T2P5US
  IN [jRun |-> jRun1, kRun |-> kRun1, arm |-> act /\ k.arm /\ kRun1 < T2P5US, prevLs |-> o.ls,
      tags |-> k.tags \cup (IF t3 THEN {"kf_j_recounted"} ELSE {})]     \* (the line does not change inside a leap)

-----------------------------------------------------------------------------
(***************************************************************************)
(* The system: Env chooses the inputs of the cycle; Ref produces the       *)
(* outputs; the monitors judge the observation.                            *)
(***************************************************************************)
VARIABLES ref,      \* Ref state
          mon,      \* monitor ghosts
          bad,      \* first violated Prop clause so far ("ok" if none)
          obs       \* observation of the cycle just executed (inputs and outputs)

vars == <<ref, mon, bad, obs>>

ObsOfR(s, i, rst) == LET u == RefOut(s, i) IN
  [ls |-> i.ls, vbus |-> i.vbus, disc |-> i.disc, fso |-> i.fso, lso |-> i.lso, busy |-> i.busy, rst |-> rst,
   br |-> u.br, susp |-> u.susp, spd |-> u.spd, op |-> u.op, term |-> u.term, txv |-> u.txv, txd |-> 0]
InOf(o) == [ls |-> o.ls, vbus |-> o.vbus, disc |-> o.disc, fso |-> o.fso, lso |-> o.lso, busy |-> o.busy]
OutOf(o) == [br |-> o.br, susp |-> o.susp, spd |-> o.spd, op |-> o.op, term |-> o.term, txv |-> o.txv]

ObsOf(s, i) == ObsOfR(s, i, FALSE)
NoObs == ObsOf(RefInit, [ls |-> FSJ, vbus |-> FALSE, disc |-> FALSE, fso |-> FALSE, lso |-> FALSE, busy |-> FALSE])

Init == ref = RefInit /\ mon = MonInit /\ bad = "ok" /\ obs = NoObs

\* One cycle with inputs i; rst = the (synchronous) reset of the usb clock domain is asserted in it: the
\* outputs of the cycle are unaffected, every register takes its initial value at the clock edge ending it.
CycleR(i, rst) ==
            LET o == ObsOfR(ref, i, rst)
                e == MonEval(mon, o)
            IN /\ e.bad # "env_bus_busy_beyond_assumption"          \* Env assumption
               /\ ref' = IF rst THEN RefInit ELSE RefNext(ref, i)
               /\ mon' = e.m
               /\ bad' = IF bad = "ok" THEN e.bad ELSE bad
               /\ obs' = o
Cycle(i) == CycleR(i, FALSE)

\* Prop: the designed sequencer never violates a clause, whatever the inputs.
PropHolds == bad = "ok"
TypeOK == RefTypeOK(ref) /\ MonTypeOK(mon)
=============================================================================
