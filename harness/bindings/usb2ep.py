"""Engine `usb2ep` — C11 C12 C13 C14: USB2 bulk/interrupt stream endpoints vs specs/usb2ep/*.tla.

DUT: real endpoints inside a real `USBDevice(bus=UTMIInterface())` (token detector, receiver, boundary detector,
FIFO, transmitter, handshake generator/detector, standard control endpoint all real), driven transaction by
transaction by the UTMI host model with per-cycle stream producers/consumers (harness/hosts/usb2ep_dev.py).
TLC decides: exhaustive models MCEpIn / MCEpOut / MCEpDev, and EpTrace validates every recorded trace.
"""
import os

from .. import tlc
from ..core import use_repo
from ..pipeline import validate_group

ENGINE = "usb2ep"
SPEC_DIR = "usb2ep"

_META_ALL = {
    "C11": {
        "text": "TLC explores every input stream (bytes, transfer ends, flush observations), every IN-token timing, "
                "every answer the reference relation EpIn.tla allows and every host reaction (ACK, lost ACK, packet "
                "not received) within small bounds (MaxPkt 2-3, <=7 bytes, <=2 transfer ends, <=2 un-ACKed packets) "
                "and proves on it that the host-accepted data (one packet per toggle value) is the input stream, "
                "transfers end in a short packet/ZLP, retries repeat PID+payload and the toggle moves only on ACK. "
                "The real USBStreamInEndpoint inside a real USBDevice that also has a second stream IN, a stream OUT and "
                "the control endpoint (complete transactions on those between a lost ACK and the retry) is then driven "
                "with TLC-generated behaviours "
                "and with seeded random/structured streams (MaxPkt 2..64, stalls at packet boundaries, lost ACKs, "
                "flush, PHY tx_ready stalls, rx_valid gaps); every recorded event trace is validated by TLC against "
                "the same relation with the Prop invariants evaluated on each observed state.",
        "note": "Assumes `discard` is never asserted, the stream producer holds valid until accepted, and the host "
                "only ACKs data it received. NAK is allowed only if no complete packet existed when the IN token "
                "started. Trusted base: TLC, amaranth.sim, the UTMI host model. Exhaustive only for the bounded model; "
                "implementation traces are sampled.",
        "technique": "TLA+ transaction/stream-beat spec, TLC exhaustive + batch trace validation of pysim traces",
        "design_ref": "DESIGN.md §5 C11",
    },
    "C12": {
        "text": "EpDev.tla routes every bus event to the one endpoint (number, direction) the last token addressed; TLC "
                "proves on the composed model (two IN + two OUT endpoints, foreign/void tokens, CLEAR_FEATURE) that a "
                "foreign action never changes an endpoint's reference state. On the implementation, a real USBDevice "
                "with stream IN/OUT, status and isochronous endpoints is run twice on the same stimulus - with foreign "
                "traffic (other endpoints, aliasing/void numbers, same number other direction, control transfers) and "
                "with that traffic replaced by bus idle - and TLC checks that the traffic run satisfies the composed "
                "reference (no answer to void tokens) and that the endpoint's own events are identical in both runs.",
        "note": "Single device address; PHY stalls/gaps disabled for the paired runs so that both runs see identical "
                "timing. Status/isochronous endpoints are compared differentially only (their own semantics belong to "
                "C15-C17). Exhaustive only for the bounded model.",
        "technique": "TLA+ non-interference theorem + paired-run trace validation",
        "design_ref": "DESIGN.md §5 C12",
    },
    "C13": {
        "text": "TLC explores every host OUT/PING sequence (sizes 0..MaxPkt, CRC corruption, lost device ACKs and the "
                "resulting repeated toggles), every handshake the reference relation EpOut.tla allows and every "
                "consumer schedule within small bounds and proves exactly-once in-order delivery of ACKed payloads, "
                "first/last marks and agreement with the host's own bookkeeping. The real USBStreamOutEndpoint inside "
                "a real USBDevice (receiver, boundary detector, FIFO real) - and inside the same packet layer assembled "
                "with the link speed pinned to high speed / full speed at 60 MHz, so that the handshake is decided in the "
                "cycle the last byte is written - is driven with TLC-generated behaviours and "
                "seeded random host/consumer schedules; every recorded trace (tokens, data, handshakes, every output "
                "beat with first/last) is validated by TLC against the relation.",
        "note": "Host packets never exceed MaxPkt. With >= MaxPkt free at token time a good packet must be ACKed; with "
                "less the endpoint may NAK or ACK a packet that fits. Known defects are carved out by clean/witness "
                "stimulus classes (see known_findings).",
        "technique": "TLA+ transaction/stream-beat spec, TLC exhaustive + batch trace validation of pysim traces",
        "design_ref": "DESIGN.md §5 C13, Appendix A",
    },
    "C14": {
        "text": "On the composed model MCEpDev TLC proves that an endpoint's toggle changes only at its own successful "
                "transaction (exactly one flip) or to DATA0 at a completed CLEAR_FEATURE(ENDPOINT_HALT) naming exactly "
                "its (number, direction). The real device (standard control endpoint + stream IN and OUT endpoints) is "
                "driven with bulk traffic and CLEAR_FEATURE requests naming every (number, direction) at every point "
                "of IN/OUT transfers (un-ACKed packet outstanding, ZLP owed, mid-transfer, stream beats timed around the "
                "status-stage ACK); the raw control transfer is decoded by the specification and every data PID / "
                "accept-vs-skip decision is validated by TLC.",
        "note": "The request takes effect at the host's ACK of the status-stage ZLP. Interleaving other endpoints' "
                "transactions inside the control transfer is generated only in the thorough tier.",
        "technique": "TLA+ composition with CLEAR_FEATURE decoding, TLC exhaustive + trace validation",
        "design_ref": "DESIGN.md §5 C14",
    },
}


def _cfg(name):
    with open(os.path.join(tlc.SPECS, SPEC_DIR, name)) as f:
        return f.read()


def _mc(rep, module, tmpl, bounds, quick, **kw):
    res = tlc.model_check(SPEC_DIR, module, tlc.render_cfg(_cfg(tmpl), bounds), timeout=6000, **kw)
    rep.add_mc("%s %s" % (module, bounds), res, bounds)


def _trace_cfg():
    return _cfg("EpTrace.cfg.tmpl")


# ======================================================================================================
# running scripts on the real device
# ======================================================================================================
_BENCH = {}


def bench_for(eps, speed=None):
    """speed None: real USBDevice (full speed, 12 MHz); 0 / 1: packet-layer assembly with the link speed pinned to
    high / full speed at 60 MHz (see usb2ep_dev.make_assembly)."""
    use_repo()
    from ..hosts import usb2ep_dev as ud
    key = repr((eps, speed))
    if key not in _BENCH:
        _BENCH[key] = ud.Bench(eps, speed=speed)
    return _BENCH[key]


SPEED_NAME = {None: "FS device (12 MHz)", 0: "HS assembly (60 MHz)", 1: "FS assembly (60 MHz)"}


class Meta(dict):
    """Trace meta data: everything goes to the replay file, the bulky parts stay out of the one-line `what`."""
    def __str__(self):
        return str({k: v for k, v in self.items() if k not in ("times", "base_run", "eps")})


def run_jobs(rep, jobs):
    """jobs: list of dicts {eps, script, meta, seed, gap, stall}.  Returns [(trace_record, meta)]."""
    items = []
    for j in jobs:
        b = bench_for(j["eps"], j.get("speed"))
        c0 = b.cycles
        ev, times, durs = b.run(j["script"], seed=j.get("seed", 1), gap_prob=j.get("gap", 0.0),
                                stall_prob=j.get("stall", 0.0))
        rep.add_eval(b.cycles - c0)
        meta = Meta(j["meta"])
        meta["eps"] = j["eps"]
        meta["timing"] = SPEED_NAME[j.get("speed")]
        meta["times"] = times
        items.append(({"cfg": b.cfg(), "steps": ev, "focus": "", "base": {"bus": [], "str": []}}, meta))
    return items


def _steps(t):
    return len(t["steps"])


def renumbered(job, n):
    """the same job on a device where endpoint number 1 and number n have changed places"""
    if n == 1:
        return job
    from ..hosts import usb2ep_dev as ud
    perm = {1: n, n: 1}
    j = dict(job)
    j["eps"] = ud.renumber_eps(job["eps"], perm)
    j["script"] = ud.renumber(job["script"], perm)
    j["meta"] = dict(job["meta"], ep_number=n)
    return j


# ======================================================================================================
# classification of rejections (normalised cause, for known-finding signatures)
# ======================================================================================================
def out_history(trace, k, ep):
    """Bookkeeping replay of one OUT endpoint's packets up to step k (classification only, never a verdict):
    per packet {n, ok, new, resp, held_end}: payload length, CRC ok, toggle in sequence, handshake, bytes held
    (accepted and not yet taken) when the packet ended."""
    own = "out%s" % ep
    depth = next((e["depth"] for e in trace["cfg"]["outs"] if e["n"] == ep), 0)
    exp, held = 0, 0
    pk, cur = [], None
    for r in trace["steps"][:k + 1]:
        e = r["e"]
        if e == "pop" and r.get("ep") == ep:
            held -= 1
        elif e == "hs" and r.get("o") == "ctl":
            pass
        if r.get("o") != own:
            continue
        if e == "data":
            cur = {"n": len(r["payload"]), "ok": r["ok"], "new": r["pid"] == exp, "resp": None, "held_end": held}
            pk.append(cur)
        elif e in ("resp", "none") and cur is not None and cur["resp"] is None:
            cur["resp"] = r.get("k", "none")
            if cur["resp"] == "ack" and cur["ok"] and cur["new"]:
                held += cur["n"]
                exp ^= 1
    return pk, depth


def classify(trace, matched, status, meta):
    steps = trace["steps"]
    k = matched - 1                      # 0-based index of the failing record
    pattern = "other"
    out_clauses = ("out_ack_without_room", "out_accepted_data_not_delivered", "out_stream_payload",
                   "out_stream_first", "out_stream_last", "out_delivers_unaccepted_data")
    if status in out_clauses and 0 <= k < len(steps):
        ep = steps[k].get("ep")
        if ep is None:
            o = steps[k].get("o", "")
            eps = [int(o[3:])] if o.startswith("out") and o[3:].isdigit() else [e["n"] for e in trace["cfg"]["outs"]]
        else:
            eps = [ep]
        for ep in eps:
            pk, depth = out_history(trace, k, ep)
            # an ACKed new packet that did not fit the space that was free when it ended
            if any(p["ok"] and p["new"] and p["resp"] == "ack" and p["held_end"] + p["n"] > depth for p in pk):
                pattern = "payload_exceeds_free_space"
                break
            if status == "out_stream_first":
                # which accepted packet does the failing beat belong to (by counting delivered bytes), and what happened
                # between it and the previous accepted non-empty packet?  (a packet's handshake may still be
                # outstanding: the endpoint hands data out before it ACKs)
                npop = sum(1 for r in steps[:k + 1] if r["e"] == "pop" and r.get("ep") == ep)
                acc = [i for i, p in enumerate(pk) if p["ok"] and p["new"] and p["n"] > 0 and
                       (p["resp"] == "ack" or (p["resp"] is None and i == len(pk) - 1))]
                tot, pos = 0, None
                for j, i in enumerate(acc):
                    tot += pk[i]["n"]
                    if npop <= tot:
                        pos = j
                        break
                if pos is None:
                    pos = len(acc) - 1
                lo = acc[pos - 1] if pos >= 1 else -1
                hi = acc[pos] if acc else len(pk)
                between = pk[lo + 1:hi]
                if any(p["n"] > 0 and p["new"] and ((not p["ok"]) or p["resp"] == "nak") for p in between):
                    pattern = "after_discarded_packet"
                elif any(p["ok"] and p["new"] and p["n"] == 0 and p["resp"] == "ack" for p in between):
                    pattern = "after_zlp_terminated_transfer"
    elif status.startswith("in_") and 0 <= k < len(steps):
        r = steps[k]
        pattern = "resp_%s" % r.get("k") if r.get("e") == "resp" else r.get("e", "other")
        if status == "in_toggle":
            # is this the first data packet of the endpoint after a completed control transfer (host ACK on ep0),
            # and did a stream beat of this endpoint fall into the cycle after that ACK (when the request takes effect)?
            own = r.get("o")
            times = meta.get("times") or []
            j = k - 1
            while j >= 0 and not (steps[j]["e"] == "resp" and steps[j].get("o") == own and steps[j]["k"] == "data"):
                if steps[j]["e"] == "hs" and steps[j].get("o") == "ctl":
                    t_ack = times[j] if j < len(times) else None
                    beat = any(steps[i]["e"] == "beat" and steps[i].get("o") == own and t_ack is not None
                               and times[i] == t_ack + 1 for i in range(j, k))
                    pattern = "first_packet_after_clear_halt" + ("_beat_in_reset_cycle" if beat else "")
                    break
                j -= 1
    # a bulk transaction's host ACK inside a CLEAR_FEATURE(ENDPOINT_HALT) control transfer (before its status ACK)?
    pend = False
    hit = False
    for r in steps[:max(0, k + 1)]:
        if r["e"] == "data" and r.get("o") == "ctl" and r.get("payload", [])[:4] == [2, 1, 0, 0]:
            pend = True
        elif r["e"] == "hs" and pend:
            if r.get("o") == "ctl":
                pend = False
            else:
                hit = True
        elif r["e"] == "tok" and r.get("pid") == "SETUP":
            pend = False
    if hit and status in ("in_toggle",) + out_clauses:
        pattern = "bulk_ack_inside_clear_halt_transfer"
    return {"clause": status, "pattern": pattern}


def nontriv_from(rep, items, tag):
    """Distinct non-trivial cases actually exercised on the real device (rule in rep.rule)."""
    for trace, meta in items:
        maxes = {("in", e["n"]): e["max"] for e in trace["cfg"]["ins"]}
        maxes.update({("out", e["n"]): e["max"] for e in trace["cfg"]["outs"]})
        prev = None
        sent = {}
        for r in trace["steps"]:
            e = r["e"]
            if e == "resp":
                o = r.get("o", "")
                d = "in" if o.startswith("in") else "out"
                n = int(o[len(d):]) if o[len(d):].isdigit() else -1
                m = maxes.get((d, n), 0)
                if r["k"] == "data":
                    ln = len(r["payload"])
                    cls = "zlp" if ln == 0 else "full" if ln == m else "short"
                    retry = sent.get(o) == (r["pid"], tuple(r["payload"]))
                    sent[o] = (r["pid"], tuple(r["payload"]))
                    rep.nontriv((tag, o, m, "data", cls, r["pid"], retry))
                else:
                    pl = prev.get("payload") if prev and prev["e"] == "data" else None
                    cls = None if pl is None else ("zlp" if not pl else "full" if len(pl) == m else "short")
                    rep.nontriv((tag, o, m, r["k"], prev["e"] if prev else None, cls,
                                 prev.get("ok") if prev else None))
            elif e == "hs":
                sent.pop(r.get("o"), None)
            elif e == "pop":
                rep.nontriv((tag, r["o"], "pop", r["first"], r["last"]))
            elif e == "none":
                rep.nontriv((tag, r.get("o"), "none", prev["e"] if prev else None))
            if e in ("tok", "data", "resp", "none", "hs", "nohs"):
                prev = r


# ======================================================================================================
# C11 — IN endpoint
# ======================================================================================================
def in_eps(m):
    """The endpoint under test (IN 1) lives in a device that has other endpoints: a second stream IN endpoint and a
    stream OUT endpoint (plus the standard control endpoint)."""
    return [{"kind": "in", "n": 1, "max": m}, {"kind": "in", "n": 2, "max": 8},
            {"kind": "out", "n": 1, "max": 8, "depth": 15}]


OTHER_KINDS = ("in2", "out", "ctl")


class Others:
    """Complete transactions on OTHER endpoints (each ends with a handshake on the shared bus): IN on the second
    stream endpoint with host ACK, OUT with device ACK, a control transfer.  Placed between a lost ACK on the focus
    endpoint and its retry: the host's ACK of somebody else's packet must not be taken for ours."""

    def __init__(self, seed=0):
        self.otog = 0
        self.v = seed & 0xFF

    def txn(self, kind):
        self.v = (self.v * 7 + 29) & 0xFF
        if kind == "in2":
            return [("feed", 2, [(self.v, True)]), ("idle", 3), ("in", 2, "ack")]
        if kind == "out":           # short good packet, tracked toggle, consumer ready: clean class of C13
            t = self.otog
            self.otog ^= 1
            return [("out", 1, t, [self.v], True), ("idle", 3)]
        return [("setup", [0x80, 6, 0, 1, 0, 0, 18, 0]), ("ctl_in",), ("out", 0, 1, [], True)]

    def some(self, rng):
        ops = []
        for _ in range(rng.choice([1, 1, 2])):
            ops += self.txn(rng.choice(OTHER_KINDS))
        return ops


def gen_in_random(rng, m, transfers):
    """Random stream + host schedule for one IN endpoint with max packet size m."""
    ops = []
    oth = Others(rng.randrange(256))
    total_packets = 0
    if rng.random() < 0.3:
        ops.append(("rate", 1, rng.choice([0.3, 0.6, 0.9])))
    for _ in range(transfers):
        ln = rng.choice([1, m - 1, m, m + 1, 2 * m - 1, 2 * m, 2 * m + 1, 3 * m, rng.randint(1, 3 * m + 2)])
        ln = max(1, ln)
        ends = rng.random() < 0.85
        data = [(rng.randrange(256), ends and i == ln - 1) for i in range(ln)]
        total_packets += ln // m + 2
        # feed in chunks, with the host polling in between
        pos = 0
        while pos < ln:
            ch = rng.choice([1, m, m, ln - pos, rng.randint(1, m + 1)])
            ch = max(1, min(ch, ln - pos))
            chunk = data[pos:pos + ch]
            pos += ch
            style = rng.random()
            if style < 0.55:
                ops.append(("feed", 1, chunk))
                ops.append(("idle", rng.choice([0, 1, 2, 3, m + 2])))
                ops += in_polls(rng, rng.choice([0, 1, 1, 2]), oth)
            elif style < 0.8:
                # bytes arrive while a transaction is on the wire
                ops.append(("tok", "IN", 1))
                ops.append(("feed", 1, chunk, rng.randint(0, 6)))
                ops.append(("wait",))
                ops += hs_ops(rng, oth)
            else:
                ops.append(("feed", 1, chunk, rng.randint(0, 8)))
                ops += in_polls(rng, 1, oth)
            if rng.random() < 0.12:
                ops.append(("flush", 1, 1))
                ops.append(("idle", rng.randint(1, 4)))
                if rng.random() < 0.7:
                    ops.append(("flush", 1, 0))
                total_packets += 1
        if rng.random() < 0.3:
            ops.append(("flush", 1, 0))
    ops.append(("flush", 1, 0))
    ops.append(("idle", 4))
    for _ in range(total_packets // 2):
        if rng.random() < 0.85:
            ops.append(("in", 1, "ack"))
        else:
            ops.append(("in", 1, "lost"))
            ops += oth.some(rng)
    ops.append(("end",))
    return ops


def hs_ops(rng, oth):
    """host reaction to the data packet; after a missing ACK, often transactions on other endpoints before the retry"""
    x = rng.random()
    if x < 0.72:
        ops = [("ack",)]
        if rng.random() < 0.15:
            ops += oth.some(rng)
        return ops
    ops = [("noack", x < 0.88)]
    if rng.random() < 0.6:
        ops += oth.some(rng)
    return ops


def in_polls(rng, n, oth):
    ops = []
    for _ in range(n):
        ops.append(("tok", "IN", 1))
        ops.append(("wait",))
        ops += hs_ops(rng, oth)
        if rng.random() < 0.4:
            ops.append(("idle", rng.randint(1, 5)))
    return ops


def gen_in_structured(m):
    """Systematic sweep: every transfer length around packet multiples x position of a lost ACK x stall at the
    packet boundary."""
    out = []
    betweens = [(), ("in2",), ("out",), ("ctl",), ("in2", "out"), ("out", "in2"), ("in2", "in2")]
    for ln in sorted({1, m - 1, m, m + 1, 2 * m - 1, 2 * m, 2 * m + 1} - {0}):
        for lost_at in (None, 0, 1, 2):
            for stall in (False, True):
                # transactions on other endpoints between the un-ACKed packet and its retry: every kind for the
                # lengths around one packet, rotating through the kinds otherwise
                if lost_at is None:
                    variants = [()]
                elif ln in (m, m + 1) and not stall:
                    variants = betweens
                else:
                    variants = [betweens[(len(out) + 1) % len(betweens)]]
                for between in variants:
                    oth = Others(ln + len(out))
                    data = [((7 * i + ln) & 0xFF, i == ln - 1) for i in range(ln)]
                    ops = []
                    if stall and ln > m:
                        ops += [("feed", 1, data[:m]), ("idle", 6), ("in", 1, "lost" if lost_at == 0 else "ack")]
                        if lost_at == 0:
                            for kind in between:
                                ops += oth.txn(kind)
                        ops += [("feed", 1, data[m:]), ("idle", 2)]
                        first = 1
                    else:
                        ops += [("feed", 1, data), ("idle", 2 * m + 4)]
                        first = 0
                    for i in range(first, ln // m + 3):
                        ops.append(("in", 1, "lost" if lost_at == i else "ack"))
                        if lost_at == i:
                            for kind in between:
                                ops += oth.txn(kind)
                            ops.append(("in", 1, "bad"))
                            for kind in between[:1]:
                                ops += oth.txn(kind)
                            ops.append(("in", 1, "ack"))
                    # a second transfer follows immediately (toggle continuity, ZLP then data)
                    ops += [("feed", 1, [(0xA5, False), (0x5A, True)]), ("idle", 3), ("in", 1, "ack"),
                            ("in", 1, "ack"), ("in", 1, "ack"), ("end",)]
                    out.append((ops, {"gen": "structured", "len": ln, "lost_at": lost_at, "stall": stall,
                                      "between": between}))
    return out


def gen_in_timing(m):
    """Systematic offset sweeps: the stream event that completes the next packet (MaxPkt-th byte, `last` on a short
    packet, `last` on the MaxPkt-th byte) or a one-cycle flush pulse falls d = 0..15 cycles after the start of
    (a) the host's ACK of the previous packet, (b) the IN token, (c) a lost ACK followed by the retry token,
    (d) a lost ACK followed by a complete transaction on another endpoint (IN+host ACK / OUT+device ACK) and the retry.
    Every trace ends with the quiescence record (`end`), so accepted-but-never-sent data is rejected."""
    out = []
    for where in ("ack", "tok", "retry", "retry_in2", "retry_out"):
        for shape in ("full", "full_last", "short", "flush"):
            for delay in range(0, 16):
                first = [((3 * i + delay) & 0xFF, False) for i in range(m)]
                pre = m - 1 if shape in ("full", "full_last") else (1 if shape == "flush" else 0)
                if shape == "flush" and m < 3:
                    continue
                rest = [((5 * i + 1) & 0xFF, False) for i in range(pre)]
                ops = [("feed", 1, first + rest), ("idle", 2 * m + 3)]
                if shape == "flush":
                    ev = [("at", delay, ("flush", 1, 1)), ("at", delay + 1, ("flush", 1, 0))]
                else:
                    ev = [("at", delay, ("feed", 1, [(0xC3, shape != "full")]))]
                if where == "tok":
                    ops += ev + [("tok", "IN", 1), ("wait",), ("ack",)]
                elif where == "ack":
                    ops += [("tok", "IN", 1), ("wait",)] + ev + [("ack",)]
                elif where == "retry":
                    ops += [("tok", "IN", 1), ("wait",)] + ev + [("noack", True), ("in", 1, "ack")]
                else:
                    # lost ACK, a complete transaction on another endpoint (its handshake is on the shared bus), then
                    # the retry; the stream event is swept over that foreign transaction
                    oth = Others(delay)
                    txn = oth.txn("in2" if where == "retry_in2" else "out")
                    pre = [o for o in txn if o[0] in ("feed",)]
                    bus = [o for o in txn if o[0] not in ("feed",)]
                    ops += [("tok", "IN", 1), ("wait",), ("noack", True)] + pre + ev + bus + [("in", 1, "ack")]
                ops += [("idle", 3), ("end",)]
                out.append((ops, {"gen": "timing", "where": where, "shape": shape, "delay": delay}))
    return out


def beh_to_script_in(beh, rng=None):
    ops = []
    oth = Others(len(beh))
    pending_tok = False
    for _, st in beh[1:]:
        ev = st["ev"]
        e = ev["e"]
        if e == "beat":
            ops.append(("feed", 1, [((ev["b"] * 37 + 11) & 0xFF, ev["last"])]))
            ops.append(("idle", 2))
        elif e == "flush":
            ops += [("flush", 1, 1), ("idle", 1), ("flush", 1, 0)]
        elif e == "tok":
            ops.append(("tok", "IN", 1))
            pending_tok = True
        elif e == "resp":
            ops.append(("wait",))
            pending_tok = False
        elif e == "hs":
            ops.append(("ack",) if ev["ack"] else ("noack", ev["hostrx"]))
            if not ev["ack"] and rng is not None and rng.random() < 0.5:
                ops += oth.some(rng)
    if pending_tok:
        ops.append(("wait",))
    ops += [("idle", 2), ("end",)]
    return ops


def gen_mgr_random(rng, m, transfers):
    """Script for the bare USBInTransferManager bench: 1..3-cycle inter-packet delays, ACK 0..3 cycles after the
    packet, beats timed into the transaction, tokens for other endpoints between retries."""
    ops = []
    npk = 0
    if rng.random() < 0.3:
        ops.append(("rate", 1, rng.choice([0.4, 0.7])))
    for _ in range(transfers):
        ln = max(1, rng.choice([1, m - 1, m, m + 1, 2 * m, 2 * m + 1, rng.randint(1, 3 * m)]))
        ends = rng.random() < 0.85
        data = [(rng.randrange(256), ends and i == ln - 1) for i in range(ln)]
        npk += ln // m + 2
        pos = 0
        while pos < ln:
            ch = max(1, min(rng.choice([1, m, ln - pos, rng.randint(1, m + 1)]), ln - pos))
            ops.append(("feed", 1, data[pos:pos + ch], rng.choice([0, 0, 1, 2, 3, 5, 8])))
            pos += ch
            if rng.random() < 0.1:
                ops += [("flush", 1, 1), ("idle", rng.randint(1, 3)), ("flush", 1, 0)]
                npk += 1
            for _ in range(rng.choice([0, 1, 1, 2])):
                ops.append(("in", rng.choice(["ack", "ack", "ack", "lost", "bad"]), rng.randint(1, 3), rng.randint(0, 3)))
                if rng.random() < 0.3:
                    ops.append(rng.choice([("other_tok",), ("other_txn",), ("other_txn",)]))
            if rng.random() < 0.4:
                ops.append(("idle", rng.randint(1, m + 3)))
    ops.append(("idle", 3))
    for _ in range(npk // 2):
        ops.append(("in", "ack" if rng.random() < 0.85 else "lost", rng.randint(1, 3), rng.randint(0, 2)))
    ops.append(("end",))
    return ops


def gen_mgr_timing(m):
    """Offset sweep on the bare transfer manager: the packet-completing beat d cycles after the IN token, with
    1-cycle inter-packet delay and the ACK 0..2 cycles after the packet (alignments the FS device cannot produce)."""
    out = []
    for shape in ("full", "full_last", "short"):
        for ack_delay in (0, 1, 2):
            for delay in range(0, 16):
                first = [((3 * i + delay) & 0xFF, False) for i in range(m)]
                pre = m - 1 if shape != "short" else 0
                rest = [((5 * i + 1) & 0xFF, False) for i in range(pre)]
                ops = [("feed", 1, first + rest), ("idle", 2 * m + 3),
                       ("feed", 1, [(0x3C, shape != "full")], delay), ("in", "ack", 1, ack_delay), ("idle", 2), ("end",)]
                out.append((ops, {"gen": "manager-timing", "shape": shape, "ack_delay": ack_delay, "delay": delay}))
    return out


def run_mgr_jobs(rep, jobs):
    use_repo()
    from ..hosts import usb2ep_dev as ud
    benches = {}
    items = []
    for m, script, seed, stall, meta in jobs:
        if m not in benches:
            benches[m] = ud.ManagerBench(m)
        b = benches[m]
        c0 = b.cycles
        ev, times = b.run(script, seed=seed, stall_prob=stall)
        rep.add_eval(b.cycles - c0)
        items.append(({"cfg": b.cfg(), "steps": ev, "focus": "", "base": {"bus": [], "str": []}},
                      Meta(meta, times=times, dut="USBInTransferManager")))
    return items


def check_C11(rep):
    quick = rep.tier == "quick"
    rep.rule = ("real-device events validated against EpIn/EpDev; non-trivial = a device answer to an IN token, "
                "distinct by (MaxPkt, answer kind, zlp/short/full, PID, retry-or-new)")
    rep.assume("`discard` is never asserted; the stream producer holds `valid` until the beat is accepted")
    rep.assume("the host ACKs only data packets it received; one device address; host obeys inter-packet timing")
    rep.assume("an IN token may be NAKed only if no complete packet (MaxPkt bytes or a transfer end) had been "
               "accepted before the token started; a short packet without `last` only at a stream position where "
               "`flush` was seen asserted")

    # 1. exhaustive exploration of the specification
    mcs = [dict(MaxPkt=2, MaxStream=7, MaxLasts=2, MaxLost=2, MaxFlush=1),
           dict(MaxPkt=3, MaxStream=6, MaxLasts=2, MaxLost=1, MaxFlush=1)] if quick else \
          [dict(MaxPkt=2, MaxStream=8, MaxLasts=3, MaxLost=2, MaxFlush=2),
           dict(MaxPkt=3, MaxStream=8, MaxLasts=2, MaxLost=2, MaxFlush=2),
           dict(MaxPkt=4, MaxStream=9, MaxLasts=2, MaxLost=2, MaxFlush=1)]
    for b in mcs:
        _mc(rep, "MCEpIn", "MCEpIn.cfg.tmpl", b, quick)

    # 2. stimuli
    jobs = []
    for m in ((2,) if quick else (2, 3)):
        b = dict(MaxPkt=m, MaxStream=14, MaxLasts=5, MaxLost=4, MaxFlush=3)
        behs = tlc.simulate(SPEC_DIR, "MCEpIn", tlc.render_cfg(_cfg("MCEpIn_sim.cfg.tmpl"), b),
                            num=36 if quick else 400, depth=60 if quick else 70, seed=rep.seed * 11 + m)
        for i, beh in enumerate(behs):
            jobs.append({"eps": in_eps(m), "script": beh_to_script_in(beh, rep.rng), "seed": rep.seed + i,
                         "meta": {"gen": "tlc-simulate", "max": m}})
    for m in ((2, 4) if quick else (2, 3, 4, 8)):
        for ops, meta in gen_in_structured(m):
            jobs.append({"eps": in_eps(m), "script": ops, "seed": rep.seed, "meta": dict(meta, max=m)})
    for m in ((2, 3) if quick else (2, 3, 4, 8)):
        for ops, meta in gen_in_timing(m):
            if quick and m == 3 and not (meta["where"] == "ack" or
                                         (meta["where"] == "retry_in2" and meta["shape"] in ("full", "short"))):
                continue
            if quick and m == 2 and meta["where"] == "retry_out" and meta["shape"] in ("full_last", "flush"):
                continue
            jobs.append({"eps": in_eps(m), "script": ops, "seed": rep.seed, "meta": dict(meta, max=m)})
    # the same endpoint in the packet-layer assembly with the link speed pinned to high speed (1-cycle inter-packet delay)
    for m in ((2,) if quick else (2, 3, 8)):
        for ops, meta in gen_in_structured(m):
            if "ctl" in meta["between"] or (quick and (meta["lost_at"] is None or meta["stall"])):
                continue
            jobs.append({"eps": in_eps(m), "script": ops, "seed": rep.seed, "speed": 0, "meta": dict(meta, max=m)})
        for ops, meta in gen_in_timing(m):
            if not quick or meta["where"] == "ack" or (meta["where"] == "retry_in2" and meta["shape"] in ("full", "short")):
                jobs.append({"eps": in_eps(m), "script": ops, "seed": rep.seed, "speed": 0, "meta": dict(meta, max=m)})
    # configuration coverage: max_packet_size 1, non powers of two, 2^k+-1, 512, 1024; endpoint numbers 3, 8, 15 (the
    # endpoint under test changes places with number 1); FS device and HS assembly
    ccfg = [(1, 15, None), (1, 15, 0), (5, 3, None), (7, 8, 0), (512, 15, None), (1024, 1, None)] if quick else \
           [(1, 15, None), (1, 15, 0), (1, 1, 1), (5, 3, None), (5, 15, 0), (7, 8, 0), (9, 4, None), (63, 15, None),
            (65, 3, 0), (512, 15, None), (512, 1, 0), (1024, 1, None), (1024, 15, 0)]
    for m, n, speed in ccfg:
        cj = []
        if m >= 512:
            data = [((i * 7 + m) & 0xFF, i == m) for i in range(m + 1)]          # MaxPkt+1 bytes, then exactly MaxPkt
            data2 = [((i * 5 + 1) & 0xFF, i == m - 1) for i in range(m)]
            ops = [("feed", 1, data), ("idle", 20), ("in", 1, "ack"), ("in", 1, "lost"), ("in", 1, "ack"),
                   ("feed", 1, data2), ("idle", m + 10), ("in", 1, "ack"), ("in", 1, "bad"), ("in", 1, "ack"), ("end",)]
            cj.append((ops, {"gen": "config-long"}))
        else:
            st = [x for x in gen_in_structured(m) if "ctl" not in x[1]["between"] or speed is None]
            cj += st[(n % 5)::5] if quick else st
            cj += [x for x in gen_in_timing(m) if x[1]["where"] in ("ack", "retry_in2") and
                   x[1]["shape"] in ("full", "short") and (not quick or x[1]["delay"] % 3 == n % 3)]
            for i in range(2 if quick else 10):
                cj.append((gen_in_random(rep.rng, m, 4), {"gen": "random"}))
            if speed is not None:
                cj = [x for x in cj if not any(o[0] in ("setup", "ctl_in") or (o[0] == "out" and o[1] == 0) for o in x[0])]
        for ops, meta in cj:
            jobs.append(renumbered({"eps": in_eps(m), "script": ops, "seed": rep.seed, "speed": speed,
                                    "meta": dict(meta, max=m, cfg="config-coverage")}, n))
    rnd = [(2, 10), (3, 8), (4, 8), (8, 8), (16, 4), (64, 2)] if quick else \
          [(2, 60), (3, 60), (4, 60), (5, 40), (8, 60), (16, 40), (32, 20), (64, 20)]
    for m, n in rnd:
        for i in range(n):
            ph = rep.rng.choice([(0.0, 0.0), (0.0, 0.25), (0.2, 0.0), (0.2, 0.3)])
            jobs.append({"eps": in_eps(m), "script": gen_in_random(rep.rng, m, 3 if m >= 32 else 5),
                         "seed": rep.rng.randrange(1 << 30), "gap": ph[0], "stall": ph[1],
                         "meta": {"gen": "random", "max": m, "gap": ph[0], "stall": ph[1]}})

    # 3. run on the real device (and on the bare transfer manager), 4. validate with TLC
    items = run_jobs(rep, jobs)
    mjobs = []
    for m, n in ([(2, 8), (3, 8), (8, 6)] if quick else [(2, 80), (3, 80), (4, 60), (8, 60), (64, 20)]):
        for i in range(n):
            st = rep.rng.choice([0.0, 0.0, 0.3])
            mjobs.append((m, gen_mgr_random(rep.rng, m, 4), rep.rng.randrange(1 << 30), st,
                          {"gen": "manager-random", "max": m, "stall": st}))
    for m in ((2,) if quick else (2, 3, 4, 8)):
        for ops, meta in gen_mgr_timing(m):
            mjobs.append((m, ops, rep.seed, 0.0, dict(meta, max=m)))
    items += run_mgr_jobs(rep, mjobs)
    nontriv_from(rep, items, "C11")
    validate_group(rep, SPEC_DIR, "EpTrace", _trace_cfg(), items, classify=classify, steps_of=_steps, chunk=1200,
                   what_prefix="USBStreamInEndpoint in USBDevice ")
    for t, meta in items[:2]:
        rep.sample({"meta": {k: v for k, v in meta.items() if k not in ("times", "eps")}, "first_events": t["steps"][:10]})


# ======================================================================================================
# C13 — OUT endpoint
# ======================================================================================================
def out_eps(m, d):
    return [{"kind": "out", "n": 1, "max": m, "depth": d}]


class OutHost:
    """Script generator for a protocol-abiding host talking to one OUT endpoint, with a conservative model of the
    buffer occupancy (upper bound `held`) used only to keep *clean* stimuli away from the known defects' triggers."""

    def __init__(self, rng, m, d, ep=1, clean=True):
        self.rng, self.m, self.d, self.ep, self.clean = rng, m, d, ep, clean
        self.tog = 0
        self.held = 0            # upper bound of bytes accepted and not yet taken
        self.act = False         # last accepted packet was full size
        self.ops = []
        self.mode = "ready"
        self.val = rng.randrange(256) if rng is not None else 0

    def payload(self, n):
        out = []
        for _ in range(n):
            self.val = (self.val * 5 + 17) & 0xFF
            out.append(self.val)
        return out

    def consumer(self, mode):
        self.mode = mode[0]
        self.ops.append(("cons", self.ep, mode))

    def settle(self):
        """let a ready consumer drain everything"""
        if self.mode != "ready":
            self.consumer(("ready",))
        self.ops.append(("idle", self.held + 6))
        self.held = 0

    def take(self, k):
        k = min(k, self.held)
        if k > 0:
            self.consumer(("take", k))
            self.ops.append(("idle", k + 5))
            self.held -= k
            self.mode = "stall"

    def send(self, n, lose_ack=False, corrupt=0):
        """one new packet of n bytes, retransmitted until the host has 'heard' an ACK"""
        m = self.m
        if self.clean:
            if n == 0 and self.act:
                n = self.rng.randint(1, m)                       # ZLP after a full packet: witness class
            if self.held + n > self.d:                           # overflow: witness class
                if self.mode == "stall":
                    self.take(self.held + n - self.d + self.rng.randint(0, self.held + n - self.d))
                else:
                    self.settle()
            if corrupt and n > 0 and ((n == m) != self.act):     # discarded packet changing fullness: witness class
                corrupt = 0
        pl = self.payload(n)
        for _ in range(corrupt):
            self.ops.append(("out", self.ep, self.tog, pl, False))
            self.ops.append(("idle", self.rng.randint(0, 3)))
        self.ops.append(("out", self.ep, self.tog, pl, True))
        if self.mode == "ready":
            self.ops.append(("idle", n + 3))
        else:
            self.held += n
        if self.mode == "rand":
            self.ops.append(("idle", self.rng.randint(0, 4)))
        if lose_ack:                                             # host did not hear the ACK: same toggle again
            for _ in range(self.rng.randint(1, 2)):
                self.ops.append(("out", self.ep, self.tog, pl, True))
        self.tog ^= 1
        self.act = (n == m)

    def ping(self):
        self.ops.append(("ping", self.ep))


def gen_out_clean(rng, m, d, packets):
    h = OutHost(rng, m, d, clean=True)
    for _ in range(packets):
        x = rng.random()
        if x < 0.15:
            h.consumer(("ready",))
            h.ops.append(("idle", h.held + 4))
            h.held = 0
        elif x < 0.3:
            h.consumer(("stall",))
        elif x < 0.38 and h.mode != "rand":
            # random consumer: only while everything sent would fit even if nothing were taken
            h.settle()
            h.consumer(("rand", rng.choice([0.2, 0.5, 0.8])))
            budget = d
            while budget > 0 and rng.random() < 0.8:
                n = rng.choice([1, m, rng.randint(1, m)])
                if n > budget:
                    break
                if (not h.act) and rng.random() < 0.2:
                    n = 0
                budget -= n
                h.held = 0               # bookkeeping is done through `budget` here
                h.send(n, lose_ack=rng.random() < 0.15)
            h.held = d - budget
            h.settle()
        if rng.random() < 0.2:
            h.ping()
        if h.mode == "stall" and h.held > 0 and rng.random() < 0.4:
            h.take(rng.randint(1, h.held))
        n = rng.choice([0, 1, m - 1, m, m, rng.randint(0, m)])
        n = max(0, n)
        h.send(n, lose_ack=rng.random() < 0.15, corrupt=rng.choice([0, 0, 0, 1, 2]))
    h.ops.append(("end",))
    return h.ops


def gen_out_ping_sweep(m, d):
    """PING (and a following packet) at every fill level of the buffer that clean traffic can reach."""
    out = []
    for fill in range(0, d + 1):
        h = OutHost(None, m, d, clean=True)
        h.val = fill
        h.consumer(("stall",))
        left = fill
        while left > 0:
            n = min(m, left)
            h.ops.append(("out", 1, h.tog, h.payload(n), True))
            h.tog ^= 1
            h.act = (n == m)
            left -= n
        h.ops.append(("ping", 1))
        h.ops += [("cons", 1, ("take", 1)), ("idle", 5), ("ping", 1)] if fill else []
        h.ops.append(("end",))
        out.append((h.ops, {"gen": "ping-sweep", "fill": fill, "class": "clean"}))
    return out


def _prefill(h, fill):
    """stalled consumer; clean packets until exactly `fill` bytes are held"""
    h.consumer(("stall",))
    left = fill
    while left > 0:
        n = min(h.m, left)
        h.ops.append(("out", 1, h.tog, h.payload(n), True))
        h.tog ^= 1
        h.act = (n == h.m)
        left -= n
    h.held = fill


def gen_out_space_sweep(m, d):
    """Free space at the OUT token in {len-2, len-1, len, len+1} for a max-size and a short packet, consumer stalled
    (at high-speed response timing the handshake is decided in the very cycle the packet's last byte is written, so
    "exactly the last byte does not fit" is its own case); then PING, the consumer drains, and the host repeats the
    packet with the same toggle (accepted now if it was NAKed, skipped if it had been ACKed)."""
    out = []
    for ln in sorted({m, max(1, m - 1), 1}):
        for free in (ln - 2, ln - 1, ln, ln + 1):
            if free < 0 or free > d:
                continue
            h = OutHost(None, m, d, clean=False)
            h.val = 16 * ln + free
            _prefill(h, d - free)
            pl = h.payload(ln)
            h.ops += [("out", 1, h.tog, pl, True), ("ping", 1), ("cons", 1, ("ready",)), ("idle", d + 6),
                      ("ping", 1), ("out", 1, h.tog, pl, True), ("idle", ln + 4),
                      ("out", 1, h.tog ^ 1, h.payload(1), True), ("end",)]
            out.append((h.ops, {"gen": "space-sweep", "len": ln, "free": free, "class": "sweep"}))
    return out


def gen_out_timing(m, d):
    """Systematic offset sweeps on the consumer side: `ready` rising / falling / a few beats taken at every cycle
    offset from the OUT (or PING) token to after the handshake.  Class `clean`: the packet fits whatever the consumer
    does.  Class `sweep`: it fits only if the consumer makes room in time (the endpoint must then NAK or have
    delivered what it ACKs; on the unfixed tree the overflow finding is expected for some offsets)."""
    out = []
    for n in sorted({m, max(1, m - 1)}):
        span = 22 + n
        for delay in range(0, span):
            # (A) room appears during the packet
            h = OutHost(None, m, d, clean=False)
            h.val = delay
            _prefill(h, d - n + 1)
            h.ops += [("at", delay, ("cons", 1, ("ready",))), ("out", 1, h.tog, h.payload(n), True), ("idle", 4), ("end",)]
            out.append((h.ops, {"gen": "timing-ready-rises", "n": n, "delay": delay, "class": "sweep"}))
            # (B) consumer stalls during a packet that fits anyway; a second packet follows
            h = OutHost(None, m, d, clean=True)
            h.val = delay + 1
            n2 = min(m, d - n)
            h.ops += [("at", delay, ("cons", 1, ("stall",))), ("out", 1, 0, h.payload(n), True)]
            if n2 > 0 and not (n == m and n2 == 0):
                h.ops += [("out", 1, 1, h.payload(n2), True)]
            h.ops += [("idle", 3), ("end",)]
            out.append((h.ops, {"gen": "timing-ready-falls", "n": n, "delay": delay, "class": "clean"}))
            # (C) exact fit, and two beats are taken at offset d
            if d - n >= 1:
                h = OutHost(None, m, d, clean=True)
                h.val = delay + 2
                _prefill(h, d - n)
                h.ops += [("at", delay, ("cons", 1, ("take", 2))), ("out", 1, h.tog, h.payload(n), True), ("idle", 4), ("end",)]
                out.append((h.ops, {"gen": "timing-take-exact-fit", "n": n, "delay": delay, "class": "clean"}))
    for delay in range(0, 14):
        # (D) PING while the free space crosses MaxPkt
        if d - m + 1 >= 1:
            h = OutHost(None, m, d, clean=True)
            h.val = delay + 3
            _prefill(h, d - m + 1)
            h.ops += [("at", delay, ("cons", 1, ("take", 1))), ("ping", 1), ("ping", 1), ("end",)]
            out.append((h.ops, {"gen": "timing-ping", "delay": delay, "class": "clean"}))
    return out


def gen_out_overflow_resume(m, d, lens=None, frees=None):
    """The buffer is (nearly) full with the consumer stalled, so the next packet overflows in its *middle*; the consumer
    resumes at every cycle offset from the OUT token to after the handshake, so that for some offsets the packet's last
    bytes are written again although earlier ones were lost.  The endpoint must NAK such a packet and deliver none of
    it (or, if everything fitted after all, ACK and deliver it once).  Then the host PINGs and repeats the packet with
    the same toggle (accepted now if it was NAKed, skipped if it had been ACKed), sends one more packet, and the trace
    ends with the drain: the stream must be exactly the ACKed payloads."""
    out = []
    for n in (lens or sorted({m, m - 1, max(2, m // 2)} - {0, 1})):
        for free in sorted({0, 1, n - 2} & set(range(0, n - 1))):
            if free > d or (frees is not None and free not in frees):
                continue
            for delay in range(0, 24 + n):
                h = OutHost(None, m, d, clean=False)
                h.val = 32 * n + 8 * free + delay
                _prefill(h, d - free)
                pl = h.payload(n)
                h.ops += [("at", delay, ("cons", 1, ("ready",))), ("out", 1, h.tog, pl, True), ("ping", 1),
                          ("idle", d + 4), ("out", 1, h.tog, pl, True), ("idle", n + 3),
                          ("out", 1, h.tog ^ 1, h.payload(1), True), ("end",)]
                out.append((h.ops, {"gen": "overflow-resume", "n": n, "free": free, "delay": delay, "class": "sweep"}))
    return out


def gen_out_witness_overflow(rng, m, d):
    """Consumer stalled while the host keeps sending: some packet does not fit (defect trigger C13-ack-after-overflow)."""
    h = OutHost(rng, m, d, clean=False)
    h.consumer(("stall",))
    sent = 0
    for i in range(d // m + 2):
        n = m if rng.random() < 0.7 else rng.randint(1, m)
        pl = h.payload(n)
        fits = sent + n <= d
        h.ops.append(("out", 1, h.tog, pl, True))
        if fits:
            sent += n
            h.tog ^= 1
        else:
            # a correct endpoint NAKs: the host retries the same packet after the consumer made room
            h.ops += [("ping", 1), ("cons", 1, ("take", n + rng.randint(0, 2))), ("idle", n + 8),
                      ("out", 1, h.tog, pl, True)]
            h.tog ^= 1
            break
    h.ops += [("cons", 1, ("ready",)), ("idle", d + 6)]
    pl = h.payload(rng.randint(1, m))
    h.ops += [("out", 1, h.tog, pl, True), ("end",)]
    return h.ops


def gen_out_witness_first(rng, m, d, kind):
    """`first` marker after a ZLP-terminated transfer / after a discarded packet of different fullness."""
    h = OutHost(rng, m, d, clean=False)
    ops = h.ops
    if kind == "zlp":
        ops += [("out", 1, 0, h.payload(m), True), ("idle", m + 4), ("out", 1, 1, [], True),
                ("out", 1, 0, h.payload(rng.randint(1, m)), True), ("end",)]
    elif kind == "corrupt_short":
        pl = h.payload(rng.randint(1, m - 1))
        ops += [("out", 1, 0, h.payload(m), True), ("idle", m + 4), ("out", 1, 1, pl, False),
                ("out", 1, 1, pl, True), ("end",)]
    else:  # corrupt_full
        pl = h.payload(m)
        ops += [("out", 1, 0, pl, False), ("out", 1, 0, pl, True), ("out", 1, 1, h.payload(1), True), ("end",)]
    return ops


def beh_to_script_out(beh, m):
    ops = [("cons", 1, ("stall",))]
    pending = None
    for _, st in beh[1:]:
        ev = st["ev"]
        e = ev["e"]
        if e == "tok":
            ops.append(("tok", ev["pid"], 1))
            pending = ev["pid"]
            if ev["pid"] == "PING":
                ops.append(("wait",))
                pending = None
        elif e == "data":
            ops += [("idle", 2), ("data", ev["pid"], [(b * 29 + 3) & 0xFF for b in ev["payload"]], ev["ok"]), ("wait",)]
            pending = None
        elif e == "pop":
            ops += [("cons", 1, ("take", 1)), ("idle", 3)]
    if pending == "OUT":
        ops.append(("wait",))
    ops.append(("end",))
    return ops


def check_C13(rep):
    quick = rep.tier == "quick"
    rep.rule = ("real-device events validated against EpOut/EpDev; non-trivial = a handshake decision (by preceding "
                "packet class / CRC) or an output beat (by first/last marks)")
    rep.assume("host data packets never exceed MaxPkt; one device address; host obeys inter-packet timing")
    rep.assume("a good packet must be ACKed when >= MaxPkt bytes were free at token time; with less free the endpoint "
               "may NAK or accept a packet that fits; a repeated toggle is ACKed (or NAKed when short of room) and "
               "delivers nothing")
    rep.assume("clean stimuli avoid the triggers of the open findings (a packet that does not fit the free buffer "
               "space; a ZLP after a full-size packet; a corrupted packet whose fullness differs from the transfer "
               "state); witness stimuli hit exactly one of them")

    mcs = [dict(MaxPkt=2, Depth=3, MaxPackets=3, MaxBad=1, MaxLost=1, MaxPing=1),
           dict(MaxPkt=2, Depth=4, MaxPackets=3, MaxBad=1, MaxLost=1, MaxPing=1),
           dict(MaxPkt=3, Depth=4, MaxPackets=2, MaxBad=1, MaxLost=1, MaxPing=1)] if quick else \
          [dict(MaxPkt=2, Depth=3, MaxPackets=4, MaxBad=1, MaxLost=1, MaxPing=1),
           dict(MaxPkt=2, Depth=5, MaxPackets=4, MaxBad=1, MaxLost=1, MaxPing=1),
           dict(MaxPkt=3, Depth=4, MaxPackets=4, MaxBad=1, MaxLost=1, MaxPing=1),
           dict(MaxPkt=3, Depth=5, MaxPackets=3, MaxBad=1, MaxLost=2, MaxPing=1)]
    for b in mcs:
        _mc(rep, "MCEpOut", "MCEpOut.cfg.tmpl", b, quick)

    jobs = []
    # clean class
    rnd = [(2, 3, 6), (3, 5, 6), (4, 7, 8), (8, 15, 6), (8, 8, 4), (16, 40, 3), (64, 127, 2)] if quick else \
          [(2, 3, 40), (2, 2, 20), (3, 5, 40), (3, 4, 20), (4, 7, 60), (4, 12, 30), (8, 15, 60), (8, 8, 30),
           (16, 40, 30), (32, 63, 15), (64, 127, 15)]
    for m, d, n in rnd:
        for i in range(n):
            ph = rep.rng.choice([(0.0, 0.0), (0.25, 0.0), (0.0, 0.3), (0.2, 0.2)])
            jobs.append({"eps": out_eps(m, d), "script": gen_out_clean(rep.rng, m, d, 10 if m >= 32 else 18),
                         "seed": rep.rng.randrange(1 << 30), "gap": ph[0], "stall": ph[1],
                         "meta": {"gen": "random-clean", "max": m, "depth": d, "class": "clean"}})
    for m, d in ((2, 3), (4, 7)) if quick else ((2, 3), (3, 5), (4, 7), (4, 8), (8, 15)):
        for ops, meta in gen_out_ping_sweep(m, d):
            jobs.append({"eps": out_eps(m, d), "script": ops, "seed": rep.seed, "meta": dict(meta, max=m, depth=d)})
    for m, d in ((2, 3), (4, 7)) if quick else ((2, 3), (3, 5), (4, 7), (4, 8), (8, 15)):
        for ops, meta in gen_out_timing(m, d):
            jobs.append({"eps": out_eps(m, d), "script": ops, "seed": rep.seed, "meta": dict(meta, max=m, depth=d)})
    for m, d in () if quick else ((2, 3), (3, 5), (4, 7), (8, 15)):      # FS device: thorough only (FS assembly below)
        for ops, meta in gen_out_overflow_resume(m, d):
            jobs.append({"eps": out_eps(m, d), "script": ops, "seed": rep.seed, "meta": dict(meta, max=m, depth=d)})
    for ops, meta in gen_out_overflow_resume(8, 15, lens=(8,), frees=(0, 6) if quick else None):   # longer packet, HS
        jobs.append({"eps": out_eps(8, 15), "script": ops, "seed": rep.seed, "speed": 0,
                     "meta": dict(meta, max=8, depth=15)})
    # the same endpoint in the packet-layer assembly with pinned link speed: high-speed inter-packet timing (handshake
    # requested one cycle after the packet ends) and full-speed timing at 60 MHz
    for speed in (0, 1):
        for m, d in ((2, 3), (4, 7), (8, 15)) if quick else ((2, 3), (3, 5), (4, 7), (4, 8), (8, 15), (64, 127), (64, 100)):
            for ops, meta in gen_out_space_sweep(m, d):
                jobs.append({"eps": out_eps(m, d), "script": ops, "seed": rep.seed, "speed": speed,
                             "meta": dict(meta, max=m, depth=d)})
        for m, d in ((4, 7),) if quick else ((2, 3), (4, 7), (8, 15)):
            for ops, meta in gen_out_ping_sweep(m, d):
                jobs.append({"eps": out_eps(m, d), "script": ops, "seed": rep.seed, "speed": speed,
                             "meta": dict(meta, max=m, depth=d)})
            for ops, meta in gen_out_overflow_resume(m, d, lens=None if (speed == 0 or not quick) else (m,),
                                                     frees=None if (speed == 0 or not quick) else (0,)):
                jobs.append({"eps": out_eps(m, d), "script": ops, "seed": rep.seed, "speed": speed,
                             "meta": dict(meta, max=m, depth=d)})
            if speed == 0 or not quick:
                for ops, meta in gen_out_timing(m, d):
                    jobs.append({"eps": out_eps(m, d), "script": ops, "seed": rep.seed, "speed": speed,
                                 "meta": dict(meta, max=m, depth=d)})
        for m, d, n in ((4, 7, 3), (8, 15, 2)) if quick else ((2, 3, 20), (4, 7, 30), (8, 15, 30), (64, 127, 10)):
            for i in range(n):
                ph = rep.rng.choice([(0.0, 0.0), (0.25, 0.0), (0.0, 0.3)])
                jobs.append({"eps": out_eps(m, d), "script": gen_out_clean(rep.rng, m, d, 14), "speed": speed,
                             "seed": rep.rng.randrange(1 << 30), "gap": ph[0], "stall": ph[1],
                             "meta": {"gen": "random-clean", "max": m, "depth": d, "class": "clean"}})
    # configuration coverage: max_packet_size 1 / non powers of two / 512 / 1024; buffer_size omitted (constructor
    # default), a power of two, 2^k+1, just above MaxPkt; endpoint numbers 3, 8, 15; FS device and HS assembly
    ccfg = [(1, None, 15, None), (1, None, 15, 0), (5, None, 3, 0), (7, 16, 8, None), (3, 4, 1, 0), (4, 9, 15, None),
            (512, None, 15, None), (1024, 1030, 1, 0)] if quick else \
           [(1, None, 15, None), (1, None, 15, 0), (1, 2, 1, 1), (5, None, 3, 0), (5, None, 3, None), (7, 16, 8, None),
            (7, 8, 15, 0), (3, 4, 1, 0), (4, 9, 15, None), (4, 9, 15, 0), (63, None, 15, 0), (65, 129, 3, None),
            (512, None, 15, None), (512, 1024, 1, 0), (1024, 1030, 1, 0), (1024, None, 15, None)]
    for m, d, n, speed in ccfg:
        cj = []
        if m >= 512:
            h = OutHost(None, m, d if d is not None else 2 * m - 1, clean=False)
            h.val = m & 0xFF
            h.ops += [("out", 1, 0, h.payload(m), True), ("idle", m + 6), ("out", 1, 1, h.payload(17), True),
                      ("idle", 24), ("cons", 1, ("stall",)), ("out", 1, 0, h.payload(m), True),
                      ("out", 1, 1, h.payload(m if d is None else 7), True), ("ping", 1),
                      ("cons", 1, ("ready",)), ("idle", m + 30)]
            h.ops += [h.ops[-4], ("idle", m + 6), ("end",)]        # the host repeats the packet with the same toggle
            cj.append((h.ops, {"gen": "config-long", "class": "sweep"}))
        else:
            dd = d if d is not None else 2 * m - 1
            cj += gen_out_space_sweep(m, dd) + gen_out_ping_sweep(m, dd)
            cj += gen_out_overflow_resume(m, dd, lens=(m,), frees=(0,))[::3 if quick else 1] if m >= 2 else []
            for i in range(2 if quick else 10):
                cj.append((gen_out_clean(rep.rng, m, dd, 12), {"gen": "random-clean", "class": "clean"}))
        for ops, meta in cj:
            jobs.append(renumbered({"eps": out_eps(m, d), "script": ops, "seed": rep.seed, "speed": speed,
                                    "meta": dict(meta, max=m, depth=d, cfg="config-coverage")}, n))
    # witness classes
    for m, d in ((4, 7), (8, 15), (2, 3)) if quick else ((2, 3), (3, 5), (4, 7), (8, 15), (8, 20), (16, 31)):
        for i in range(2 if quick else 6):
            jobs.append({"eps": out_eps(m, d), "script": gen_out_witness_overflow(rep.rng, m, d), "seed": rep.seed + i,
                         "meta": {"gen": "witness-overflow", "max": m, "depth": d, "class": "witness"}})
        for kind in ("zlp", "corrupt_short", "corrupt_full"):
            jobs.append({"eps": out_eps(m, d), "script": gen_out_witness_first(rep.rng, m, d, kind), "seed": rep.seed,
                         "meta": {"gen": "witness-first-" + kind, "max": m, "depth": d, "class": "witness"}})
    # spec -> code: behaviours generated by TLC from the model (not constrained by the findings' carve-outs: where the
    # model's host meets a full buffer the defective endpoint ACKs instead of NAKing -> matched by signature)
    for m, d in (((2, 3),) if quick else ((2, 3), (3, 4))):
        b = dict(MaxPkt=m, Depth=d, MaxPackets=8, MaxBad=2, MaxLost=2, MaxPing=3)
        behs = tlc.simulate(SPEC_DIR, "MCEpOut", tlc.render_cfg(_cfg("MCEpOut_sim.cfg.tmpl"), b),
                            num=40 if quick else 300, depth=60, seed=rep.seed * 13 + m)
        for i, beh in enumerate(behs):
            jobs.append({"eps": out_eps(m, d), "script": beh_to_script_out(beh, m), "seed": rep.seed + i,
                         "meta": {"gen": "tlc-simulate", "max": m, "depth": d, "class": "model"}})
    items = run_jobs(rep, jobs)
    nontriv_from(rep, items, "C13")
    validate_group(rep, SPEC_DIR, "EpTrace", _trace_cfg(), items, classify=classify, steps_of=_steps, chunk=1200,
                   what_prefix="USBStreamOutEndpoint in USBDevice ")
    for t, meta in items[:2]:
        rep.sample({"meta": {k: v for k, v in meta.items() if k not in ("times", "eps")}, "first_events": t["steps"][:10]})


# ======================================================================================================
# C14 — data toggles and CLEAR_FEATURE(ENDPOINT_HALT)
# ======================================================================================================
def c14_eps(m, d):
    return [{"kind": "in", "n": 1, "max": m}, {"kind": "out", "n": 1, "max": m, "depth": d}]


IN_SITUATIONS = ["fresh", "one_acked_idle", "one_acked_next_ready", "ack_lost", "zlp_owed", "two_acked_buffering"]
OUT_SITUATIONS = ["fresh", "one_accepted", "two_accepted", "mid_transfer"]
CLEAR_TARGETS = [(1, "in"), (1, "out"), (2, "in"), (2, "out"), (3, "in"), None]


class C14Script:
    def __init__(self, m, d, seed):
        self.m, self.d = m, d
        self.ops = []
        self.otog = 0            # host's toggle for OUT ep1
        self.v = seed & 0xFF

    def bytes(self, n, last=True):
        out = []
        for i in range(n):
            self.v = (self.v * 13 + 7) & 0xFF
            out.append((self.v, last and i == n - 1))
        return out

    def in_situation(self, s):
        m, o = self.m, self.ops
        if s == "one_acked_idle":
            o += [("feed", 1, self.bytes(1)), ("idle", 4), ("in", 1, "ack")]
        elif s == "one_acked_next_ready":
            o += [("feed", 1, self.bytes(m, last=False) + self.bytes(1)), ("idle", m + 5), ("in", 1, "ack")]
        elif s == "ack_lost":
            o += [("feed", 1, self.bytes(2)), ("idle", 5), ("in", 1, "lost")]
        elif s == "zlp_owed":
            o += [("feed", 1, self.bytes(m)), ("idle", m + 4), ("in", 1, "ack")]
        elif s == "two_acked_buffering":
            o += [("feed", 1, self.bytes(1)), ("idle", 4), ("in", 1, "ack"), ("feed", 1, self.bytes(1)), ("idle", 4),
                  ("in", 1, "ack")]
            if m > 1:
                o += [("feed", 1, self.bytes(1, last=False)), ("idle", 3)]

    def out_packet(self, n):
        self.ops.append(("out", 1, self.otog, [b for b, _ in self.bytes(n)], True))
        self.ops.append(("idle", n + 3))
        self.otog ^= 1

    def pings(self, k, nak=False):
        """k PING transactions in a row on OUT ep1: ACKed (consumer ready, buffer empty) or NAKed (consumer stalled and
        less than MaxPkt free; the buffer is drained again afterwards).  A PING never moves the data toggle."""
        if k <= 0:
            return
        if nak:
            self.ops.append(("cons", 1, ("stall",)))
            left = self.d - self.m + 1
            while left > 0:
                n = min(self.m, left)
                self.ops.append(("out", 1, self.otog, [b for b, _ in self.bytes(n)], True))
                self.otog ^= 1
                left -= n
        self.ops += [("ping", 1)] * k
        if nak:
            self.ops += [("cons", 1, ("ready",)), ("idle", self.d + 6)]

    def out_situation(self, s):
        m = self.m
        if s == "one_accepted":
            self.out_packet(1)
        elif s == "two_accepted":
            self.out_packet(1)
            self.out_packet(max(1, m - 1))
        elif s == "mid_transfer":
            self.out_packet(m)

    def clear(self, tgt, pre_ack=None):
        if tgt is None:
            return
        n, d = tgt
        from ..hosts import utmi
        req = utmi.setup_bytes(0x02, 1, 0, (0x80 if d == "in" else 0) | n, 0)
        self.ops += [("setup", req), ("idle", 2), ("tok", "IN", 0), ("wait",)]
        if pre_ack:
            self.ops += pre_ack
        self.ops += [("ack",)]
        if tgt == (1, "out"):
            self.otog = 0

    def follow_up(self):
        m = self.m
        # IN: finish whatever is pending, then one more transfer
        self.ops += [("in", 1, "ack"), ("in", 1, "ack")]
        self.ops += [("feed", 1, self.bytes(m + 1)), ("idle", m + 5), ("in", 1, "ack"), ("in", 1, "lost"),
                     ("in", 1, "ack"), ("in", 1, "ack")]
        # OUT: two more packets with the host's idea of the toggle
        self.out_packet(2 if m > 2 else 1)
        self.out_packet(1)
        self.ops.append(("end",))


def gen_c14_structured(m, d, seed):
    out = []
    for si in IN_SITUATIONS:
        for so in OUT_SITUATIONS:
            for tgt in CLEAR_TARGETS:
                s = C14Script(m, d, seed + len(out))
                if (len(out) & 1) == 0:
                    s.in_situation(si)
                    s.out_situation(so)
                else:
                    s.out_situation(so)
                    s.in_situation(si)
                kb, ka = len(out) % 4, (len(out) // 4) % 3          # PINGs before / right after the request
                s.pings(kb)
                s.clear(tgt)
                s.pings(ka)
                s.follow_up()
                out.append((s.ops, {"gen": "structured", "in": si, "out": so, "clear": tgt, "pings": (kb, ka)}))
    return out


def gen_c14_ping(m, d, seed, with_clear=True):
    """1..3 PING transactions in a row (all ACKed / all NAKed) between data packets and right after a completed
    CLEAR_FEATURE(ENDPOINT_HALT): the next DATA0/DATA1 packet must be accepted or skipped exactly as if the PINGs had not
    happened (observable: its handshake, its delivery, the end-of-trace drain)."""
    out = []
    for tgt in ((None, (1, "out"), (1, "in"), (2, "out")) if with_clear else (None,)):
        for k in (1, 2, 3):
            for nak in (False, True):
                for pos in ("between", "after_clear"):
                    if tgt is None and pos == "after_clear":
                        continue
                    for first in (1, 2):                 # expected toggle DATA1 / DATA0 when the PINGs happen
                        s = C14Script(m, d, seed + len(out))
                        for _ in range(first):
                            s.out_packet(1)
                        if pos == "between":
                            s.pings(k, nak)
                        s.clear(tgt)
                        if pos == "after_clear":
                            s.pings(k, nak)
                        s.out_packet(m)
                        s.pings(1)
                        s.out_packet(1)
                        s.follow_up()
                        out.append((s.ops, {"gen": "ping", "clear": tgt, "k": k, "nak": nak, "pos": pos, "first": first}))
    return out


def gen_c14_timing(m, d, seed):
    """A stream beat completing a packet (`last` on a short packet / the MaxPkt-th byte) is accepted d = 0..15 cycles
    after the start of the status-stage ACK that makes the request take effect."""
    out = []
    for parity in (1, 2):
        for tgt in ((1, "in"), (1, "out")):
            for shape in ("short", "full"):
                for delay in range(0, 16):
                    s = C14Script(m, d, seed + delay)
                    for _ in range(parity):
                        s.ops += [("feed", 1, s.bytes(1)), ("idle", 4), ("in", 1, "ack")]
                    if shape == "full":
                        s.ops += [("feed", 1, s.bytes(m - 1, last=False)), ("idle", m + 2)]
                    s.clear(tgt, pre_ack=[("at", delay, ("feed", 1, s.bytes(1, last=(shape == "short"))))])
                    s.ops += [("idle", 4)]
                    s.follow_up()
                    out.append((s.ops, {"gen": "timing", "parity": parity, "shape": shape, "delay": delay, "clear": tgt}))
    return out


def gen_c14_interleaved(m, d, seed):
    """A bulk transaction of another endpoint is completed between the SETUP and the status stage of the
    CLEAR_FEATURE transfer (legal: control transfers may be interleaved with other endpoints' transactions)."""
    out = []
    for tgt in ((1, "in"), (1, "out")):
        for parity in (1, 2, 3):
            s = C14Script(m, d, seed + parity)
            from ..hosts import utmi
            for _ in range(parity):
                s.ops += [("feed", 1, s.bytes(1)), ("idle", 4), ("in", 1, "ack")]
                s.out_packet(1)
            s.ops += [("feed", 1, s.bytes(1)), ("idle", 4)]
            req = utmi.setup_bytes(0x02, 1, 0, (0x80 if tgt[1] == "in" else 0) | tgt[0], 0)
            s.ops += [("setup", req), ("idle", 2), ("in", 1, "ack"), ("idle", 2), ("ctl_in",)]
            # the host keeps its OUT toggle (it will see the status stage fail on a defective device; on a correct
            # one its packet is then simply a repeated toggle)
            s.follow_up()
            out.append((s.ops, {"gen": "interleaved", "parity": parity, "clear": tgt}))
    return out


def gen_c14_random(rng, m, d, steps):
    s = C14Script(m, d, rng.randrange(256))
    for _ in range(steps):
        x = rng.random()
        if x < 0.3:
            n = rng.choice([1, m, m + 1, rng.randint(1, 2 * m)])
            s.ops += [("feed", 1, s.bytes(n, last=rng.random() < 0.8)), ("idle", rng.randint(0, n + 3))]
        elif x < 0.6:
            s.ops.append(("in", 1, rng.choice(["ack", "ack", "ack", "lost", "bad"])))
        elif x < 0.75:
            s.out_packet(rng.choice([1, m, rng.randint(1, m)]))
            if rng.random() < 0.2:       # host missed the ACK: repeats the previous toggle
                s.ops.append(("out", 1, s.otog ^ 1, [1], True))
        elif x < 0.85:
            s.pings(rng.randint(1, 3), nak=rng.random() < 0.3)
        else:
            s.clear(rng.choice(CLEAR_TARGETS[:5]))
            if rng.random() < 0.4:
                s.pings(rng.randint(1, 3))
    s.follow_up()
    return s.ops


def check_C14(rep):
    quick = rep.tier == "quick"
    rep.rule = ("real-device events validated against EpDev (CLEAR_FEATURE decoded by the spec); non-trivial = a data "
                "PID sent / a handshake decision, distinct by (endpoint, kind, PID, situation)")
    rep.assume("the request takes effect when the host's ACK of the status-stage ZLP reaches the device; one address")
    rep.assume("OUT traffic stays within the clean class of C13 (packets fit; the consumer is stalled only to get PINGs "
               "NAKed and is drained again before the next data packet)")
    rep.assume("clean stimuli keep the control transfer contiguous and no stream beat in the cycle the request takes "
               "effect; witness stimuli: (a) a beat completing a packet in exactly that cycle, (b) another endpoint's "
               "IN transaction ACKed between SETUP and status stage")
    mcs = [dict(NIn=1, NOut=1, MaxPkt=2, Depth=3, MaxStream=2, MaxPackets=1, MaxBad=0, MaxLost=1, MaxClear=1, MaxVoid=1)] \
        if quick else \
          [dict(NIn=1, NOut=1, MaxPkt=2, Depth=3, MaxStream=3, MaxPackets=2, MaxBad=1, MaxLost=1, MaxClear=1, MaxVoid=0),
           dict(NIn=1, NOut=1, MaxPkt=2, Depth=3, MaxStream=2, MaxPackets=1, MaxBad=0, MaxLost=1, MaxClear=1, MaxVoid=1)]
    for b in mcs:
        _mc(rep, "MCEpDev", "MCEpDev.cfg.tmpl", b, quick)

    jobs = []
    for m, d in ([(4, 7)] if quick else [(2, 3), (4, 7), (8, 15)]):
        for ops, meta in gen_c14_structured(m, d, rep.seed):
            jobs.append({"eps": c14_eps(m, d), "script": ops, "seed": rep.seed, "meta": dict(meta, max=m)})
    for m, d in ([(2, 3), (8, 15)] if quick else [(2, 3), (3, 5), (4, 7), (8, 15)]):
        for ops, meta in gen_c14_timing(m, d, rep.seed):
            if quick and m == 8 and (meta["clear"] != (1, "in") or meta["shape"] != "full"):
                continue
            jobs.append({"eps": c14_eps(m, d), "script": ops, "seed": rep.seed, "meta": dict(meta, max=m)})
    for m, d in ([(4, 7)] if quick else [(2, 3), (4, 7), (8, 15)]):
        for ops, meta in gen_c14_ping(m, d, rep.seed):
            jobs.append({"eps": c14_eps(m, d), "script": ops, "seed": rep.seed, "meta": dict(meta, max=m)})
        for speed in (0, 1):          # packet-layer assembly, link speed pinned to high / full speed (no control endpoint)
            for ops, meta in gen_c14_ping(m, d, rep.seed, with_clear=False):
                jobs.append({"eps": c14_eps(m, d), "script": ops, "seed": rep.seed, "speed": speed,
                             "meta": dict(meta, max=m)})
    # configuration coverage: endpoint number 15 / 8 in BOTH directions (the SETUP's wIndex is rewritten accordingly;
    # CLEAR_FEATURE targets then are (15,in) (15,out) (2,in) (2,out) (3,in)), MaxPkt 1 / 5, default buffer size
    for m, d, n in ([(4, 7, 15), (5, None, 8), (1, None, 15)] if quick else
                    [(4, 7, 15), (5, None, 8), (1, None, 15), (7, 16, 15), (64, None, 9), (2, 3, 15)]):
        cj = gen_c14_structured(m, d if d is not None else 2 * m - 1, rep.seed)
        cj = cj[(n % 8)::8] if quick else cj
        cj += [x for i, x in enumerate(gen_c14_ping(m, d if d is not None else 2 * m - 1, rep.seed))
               if not quick or i % 6 == n % 6]
        for ops, meta in cj:
            jobs.append(renumbered({"eps": c14_eps(m, d), "script": ops, "seed": rep.seed,
                                    "meta": dict(meta, max=m, cfg="config-coverage")}, n))
    for m, d in ([(4, 7)] if quick else [(2, 3), (4, 7), (8, 15)]):
        for ops, meta in gen_c14_interleaved(m, d, rep.seed):
            jobs.append({"eps": c14_eps(m, d), "script": ops, "seed": rep.seed, "meta": dict(meta, max=m)})
    for i in range(12 if quick else 200):
        m, d = rep.rng.choice([(2, 3), (4, 7), (8, 15)])
        jobs.append({"eps": c14_eps(m, d), "script": gen_c14_random(rep.rng, m, d, 30), "seed": rep.rng.randrange(1 << 30),
                     "meta": {"gen": "random", "max": m}})
    items = run_jobs(rep, jobs)
    nontriv_from(rep, items, "C14")
    validate_group(rep, SPEC_DIR, "EpTrace", _trace_cfg(), items, classify=classify, steps_of=_steps, chunk=1200,
                   what_prefix="USBDevice(control + stream IN/OUT ep1) ")
    for t, meta in items[:2]:
        rep.sample({"meta": {k: v for k, v in meta.items() if k not in ("times", "eps")}, "first_events": t["steps"][:12]})


# ======================================================================================================
# C12 — isolation between endpoints
# ======================================================================================================
C12_EPS = [{"kind": "in", "n": 1, "max": 4}, {"kind": "out", "n": 1, "max": 4, "depth": 7},
           {"kind": "in", "n": 2, "max": 8}, {"kind": "out", "n": 2, "max": 8, "depth": 15},
           {"kind": "sig", "n": 3, "width": 16}, {"kind": "isoin", "n": 4, "max": 8},
           {"kind": "isoout", "n": 5, "max": 8, "depth": 16}]
C12_FOCI = ["in1", "out1", "in3", "in4", "out5"]
F = {"foreign": True}
GET_DEVICE_DESCRIPTOR = [0x80, 6, 0, 1, 0, 0, 18, 0]


class ForeignTraffic:
    """Traffic that does not belong to the endpoint under test: other endpoints (real, aliasing, non-existent,
    same number / other direction), control transfers, CLEAR_FEATURE naming others."""

    def __init__(self, rng, focus):
        self.rng = rng
        self.focus = focus
        self.v = rng.randrange(256)

    def some(self):
        rng, f = self.rng, self.focus
        x = rng.random()
        ops = []
        ins = [n for n in (1, 2, 3, 4, 6, 9, 10, 11, 12, 5, 15) if "in%d" % n != f]
        outs = [n for n in (1, 2, 5, 3, 4, 6, 9, 10, 13, 15) if "out%d" % n != f]
        if x < 0.25:
            n = rng.choice(ins)
            if n in (1, 2) and rng.random() < 0.7:
                k = rng.randint(1, 9)
                ops.append(("feed", n, [((self.v + i) & 0xFF, i == k - 1) for i in range(k)], F))
                self.v = (self.v + 17) & 0xFF
                ops.append(("idle", 3, F))
            if n == 4:
                ops += [("tok", "IN", 4, F), ("wait", F)]
            else:
                ops.append(("in", n, rng.choice(["ack", "ack", "lost"]), F))
        elif x < 0.5:
            n = rng.choice(outs)
            ln = rng.randint(0, 4)
            pl = [(self.v + 3 * i) & 0xFF for i in range(ln)]
            self.v = (self.v + 29) & 0xFF
            if n in (1, 2):       # a modelled endpoint: stay in the clean class of C13 (short good packets, any toggle)
                ops.append(("out", n, rng.randint(0, 1), pl[:3], True, F))
            else:
                ops.append(("out", n, rng.randint(0, 1), pl, rng.random() < 0.8, F))
        elif x < 0.65:
            ops.append(("ping", rng.choice(outs), F))
        elif x < 0.75:
            ops += [("setup", GET_DEVICE_DESCRIPTOR, F), ("ctl_in", F), ("out", 0, 1, [], True, F)]
        elif x < 0.9:
            tg = [(n, d) for n in (1, 2, 3, 4, 5, 9) for d in ("in", "out") if "%s%d" % (d, n) != f]
            n, d = rng.choice(tg)
            ops.append(("clrhalt", n, d, F))
        else:
            ops.append(("idle", rng.randint(1, 6), F))
        return ops


def gen_c12(rng, focus, steps):
    ft = ForeignTraffic(rng, focus)
    ops = []
    own = []
    if focus == "in1":
        v = rng.randrange(256)
        for _ in range(steps):
            n = rng.choice([1, 3, 4, 5, 8])
            own.append([("feed", 1, [((v + i) & 0xFF, i == n - 1) for i in range(n)]), ("idle", rng.randint(0, 6))])
            v = (v + 31) & 0xFF
            for _ in range(n // 4 + 2):
                own.append([("in", 1, rng.choice(["ack", "ack", "lost", "bad"]))])
    elif focus == "out1":
        h = OutHost(rng, 4, 7, ep=1, clean=True)
        for _ in range(steps):
            before = len(h.ops)
            if rng.random() < 0.25:
                h.consumer(rng.choice([("ready",), ("stall",)]))
            if h.mode == "stall" and h.held and rng.random() < 0.5:
                h.take(rng.randint(1, h.held))
            if rng.random() < 0.25:
                h.ping()
            h.send(rng.choice([0, 1, 3, 4, 4]), lose_ack=rng.random() < 0.2, corrupt=rng.choice([0, 0, 1]))
            own.append(h.ops[before:])
    elif focus == "in3":
        for i in range(steps):
            own.append([("sig", 3, rng.randrange(1 << 16)), ("in", 3, rng.choice(["ack", "ack", "lost"]))])
    elif focus == "in4":
        for i in range(steps):
            own.append([("sig", 4, rng.choice([0, 3, 8, 11, 20])), ("sof", 100 + i), ("idle", 2)])
            for _ in range(rng.randint(0, 3)):
                own.append([("tok", "IN", 4), ("wait",), ("idle", 2)])
    elif focus == "out5":
        for i in range(steps):
            n = rng.choice([1, 5, 8, 8])
            own.append([("out", 5, 0, [(i * 16 + j) & 0xFF for j in range(n)], rng.random() < 0.85), ("idle", 3)])
    for grp in own:
        for _ in range(rng.choice([0, 1, 1, 2, 3])):
            ops += ft.some()
        ops += grp
    ops += ft.some()
    ops.append(("end",))
    return ops


def c12_eps(depth1):
    """the C12 device with another buffer size for the focus OUT endpoint 1 (MaxPkt 4): 2*MaxPkt and MaxPkt+1 make
    'exactly full' reachable with whole packets in other ways than the default 2*MaxPkt-1"""
    return [dict(e, depth=depth1) if (e["kind"], e["n"]) == ("out", 1) else e for e in C12_EPS]


FOREIGN_AT_FULL = [("out", 2, 1, True), ("out", 2, 3, True), ("out", 5, 1, True), ("out", 5, 8, True), ("out", 9, 2, True),
                   ("out", 3, 1, True), ("out", 9, 3, False), ("out", 2, 8, True), ("in", 2), ("ping", 2), ("ping", 9),
                   ("in", 1)]


def gen_c12_buffer(depth1):
    """Focus = stream OUT endpoint 1 with its buffer exactly full / one short of full / MaxPkt-1 short of full and the
    consumer stalled; at that moment OUT data packets of several lengths go to OTHER endpoints (a second stream OUT,
    the isochronous OUT, numbers nobody listens to), or other foreign transactions happen; then the consumer drains and
    the focus endpoint receives its next in-sequence packets.  Variant `still_full`: the focus endpoint's next packet
    arrives while it is still full (NAK), and is repeated after the drain."""
    m = 4
    out = []
    for fill in sorted({depth1, depth1 - 1, depth1 - m + 1} - {0}):
        for i, fo in enumerate(FOREIGN_AT_FULL):
            for still_full in ((False, True) if fill == depth1 and i % 3 == 0 else (False,)):
                h = OutHost(None, m, depth1, ep=1, clean=True)
                h.val = 8 * fill + i
                _prefill(h, fill)
                k = 1 + (i + fill) % 2
                for j in range(k):
                    if fo[0] == "out":
                        _, ep, ln, ok = fo
                        h.ops.append(("out", ep, (i + j) & 1, [(17 * i + 3 * x + j) & 0xFF for x in range(ln)], ok, F))
                    elif fo[0] == "in":
                        if fo[1] == 2:
                            h.ops.append(("feed", 2, [(0x40 + i + j, True)], F))
                            h.ops.append(("idle", 3, F))
                        h.ops.append(("in", fo[1], "ack", F))
                    else:
                        h.ops.append(("ping", fo[1], F))
                nxt = h.payload(1 if (i + fill) % 3 == 0 else m if (i + fill) % 3 == 1 else 2)
                if still_full:
                    h.ops.append(("out", 1, h.tog, nxt, True))
                h.ops += [("cons", 1, ("ready",)), ("idle", depth1 + 6), ("out", 1, h.tog, nxt, True), ("idle", 6),
                          ("out", 1, h.tog ^ 1, h.payload(2), True), ("end",)]
                out.append((h.ops, {"gen": "buffer-full-pair", "depth": depth1, "fill": fill, "foreign": fo,
                                    "still_full": still_full}))
    return out


BUS_EVENTS = ("tok", "data", "resp", "none", "hs", "nohs")


def run_pairs(rep, eps, jobs):
    """jobs: (script, focus, meta, seed) -> trace records with the companion run's projection as `base`."""
    b = bench_for(eps)
    items = []
    for script, focus, meta, seed in jobs:
        c0 = b.cycles
        ev_a, times_a, durs = b.run(script, seed=seed)
        ev_b, times_b, _ = b.run(script, seed=seed, durations=durs)
        rep.add_eval(b.cycles - c0)
        own = [e for e in ev_b if e.get("o") == focus]
        base = {"bus": [e for e in own if e["e"] in BUS_EVENTS], "str": [e for e in own if e["e"] not in BUS_EVENTS]}
        m = Meta(meta)
        m.update({"focus": focus, "times": times_a, "base_run": list(zip(times_b, ev_b))})
        items.append(({"cfg": b.cfg(), "steps": ev_a, "focus": focus, "base": base}, m))
    return items


def classify_pair(trace, matched, status, meta):
    sig = classify(trace, matched, status, meta)
    if status.startswith("isolation"):
        sig["pattern"] = "focus_%s" % trace.get("focus")
    return sig


def check_C12(rep):
    quick = rep.tier == "quick"
    rep.rule = ("paired real-device runs (with / without foreign traffic) validated against EpDev + event-by-event "
                "equality of the focus endpoint's own events; non-trivial = a device answer or a stream beat of the "
                "focus endpoint, or an answer/no-answer to a foreign token")
    rep.assume("single device address; PHY tx_ready stalls / rx_valid gaps disabled so both runs have identical timing")
    rep.assume("foreign OUT traffic to modelled endpoints stays in the clean class of C13")
    mcs = [dict(NIn=2, NOut=1, MaxPkt=2, Depth=3, MaxStream=1, MaxPackets=1, MaxBad=0, MaxLost=1, MaxClear=1, MaxVoid=0),
           dict(NIn=1, NOut=2, MaxPkt=2, Depth=3, MaxStream=1, MaxPackets=1, MaxBad=0, MaxLost=0, MaxClear=0, MaxVoid=1)]
    if not quick:
        mcs.append(dict(NIn=2, NOut=2, MaxPkt=2, Depth=3, MaxStream=1, MaxPackets=1, MaxBad=0, MaxLost=0, MaxClear=1,
                        MaxVoid=1))
    for bnd in mcs:
        allow = ("Clear",) if bnd["MaxClear"] == 0 else ()
        _mc(rep, "MCEpDev", "MCEpDev.cfg.tmpl", bnd, quick, allow_uncovered=allow)
    jobs = []
    for focus in C12_FOCI:
        for i in range(8 if quick else 80):
            jobs.append((gen_c12(rep.rng, focus, 5 if quick else 8), focus, {"gen": "random-pair"},
                         rep.rng.randrange(1 << 30)))
    items = run_pairs(rep, C12_EPS, jobs)
    # configuration coverage: the stream endpoints under test carry number 9 (numbers 1 and 9 change places, so the
    # aliasing foreign number becomes 1) resp. 15
    from ..hosts import usb2ep_dev as ud
    for n in ((9,) if quick else (9, 15)):
        perm = {1: n, n: 1}
        rjobs = []
        for focus in ("in1", "out1"):
            for i in range(3 if quick else 30):
                rjobs.append((ud.renumber(gen_c12(rep.rng, focus, 5), perm), "%s%d" % (focus[:-1], n),
                              {"gen": "random-pair", "ep_number": n}, rep.rng.randrange(1 << 30)))
        items += run_pairs(rep, ud.renumber_eps(C12_EPS, perm), rjobs)
    for depth1 in ((8, 7) if quick else (8, 7, 5, 12)):
        bjobs = [(ops, "out1", meta, rep.seed) for ops, meta in gen_c12_buffer(depth1)]
        items += run_pairs(rep, c12_eps(depth1), bjobs)
    nontriv_from(rep, items, "C12")
    for t, meta in items:
        for r in t["steps"]:
            if r.get("o") == t["focus"] and r["e"] in ("io", "beat", "pop"):
                rep.nontriv(("C12", t["focus"], r["e"]))
    validate_group(rep, SPEC_DIR, "EpTrace", _trace_cfg(), items, classify=classify_pair, steps_of=_steps, chunk=1200,
                   what_prefix="USBDevice(7 endpoints) paired run ")
    for t, meta in items[:2]:
        rep.sample({"focus": t["focus"], "first_events": t["steps"][:12], "base_first": t["base"]["bus"][:6]})


CHECKS = {"C11": check_C11, "C12": check_C12, "C13": check_C13, "C14": check_C14}
META = {k: _META_ALL[k] for k in CHECKS}
