------------------------------ MODULE MCTpGen ------------------------------
(* Bounded instance of TpGen: every request / field / header-queue-ready schedule and every *)
(* allowed timing of the abstract generator within the bounds.                              *)
EXTENDS TpGen, TLC

CONSTANTS MaxReq       \* bound on the number of accepted requests (ghost counter)

\* <<ep, rty, seq, addr>> values present on the interface in a cycle: corners and a mixed pattern
FieldsQuick    == {<<15, 1, 31, 127>>, <<5, 0, 21, 85>>}
FieldsThorough == FieldsQuick \cup {<<0, 0, 0, 0>>, <<10, 1, 10, 42>>}
CONSTANTS Fields

In(kind, f, hqr) == [ack |-> kind = "ack", stall |-> kind = "stall", nrdy |-> kind = "nrdy", erdy |-> kind = "erdy",
                     ep |-> f[1], rty |-> f[2], seq |-> f[3], addr |-> f[4], hqr |-> hqr]

\* Outputs the abstract generator may show: any ready/done/valid; when valid, the header of the job
\* (the free fields Direction / NumP take a zero and a non-zero value).  The model works on the decoded
\* header HdrOf(job, x); RoundTrip below ties it to the encoded words for the whole alphabet.
HdrOf(j, x) == [type |-> TpType, addr |-> j.addr, sub |-> SubOf(j.kind), rty |-> IF j.kind = "ack" THEN j.rty ELSE 0,
                dir |-> x, ep |-> j.ep, nump |-> x, seq |-> IF j.kind = "ack" THEN j.seq ELSE 0]
Quiet(r, d) == [ready |-> r, done |-> d, hv |-> FALSE, dw0lo |-> 0, dw0hi |-> 0, dw1lo |-> 0, dw1hi |-> 0]
Valid(r, d, x) == [ready |-> r, done |-> d, hv |-> TRUE] @@ EncHdr(job, x, x)

\* <<outputs, decoded header>> candidates in the current state
Cands == {<<Quiet(r, d), NoHdr>> : r \in BOOLEAN, d \in BOOLEAN}
         \cup (IF job = NoJob THEN {} ELSE
               {<<Valid(r, d, x), HdrOf(job, x)>> : r \in BOOLEAN, d \in BOOLEAN, x \in {0, 1}})
Resp(i, c) == Failing(i, c[1], c[2]) = "ok" /\ Step(i, c[1], c[2])

NoRequest == \E f \in Fields, q \in BOOLEAN, c \in Cands : Resp(In("none", f, q), c)
ReqAck    == \E f \in Fields, q \in BOOLEAN, c \in Cands : Resp(In("ack", f, q), c)
ReqStall  == \E f \in Fields, q \in BOOLEAN, c \in Cands : Resp(In("stall", f, q), c)
ReqNrdy   == \E f \in Fields, q \in BOOLEAN, c \in Cands : Resp(In("nrdy", f, q), c)
ReqErdy   == \E f \in Fields, q \in BOOLEAN, c \in Cands : Resp(In("erdy", f, q), c)

Next == NoRequest \/ ReqAck \/ ReqStall \/ ReqNrdy \/ ReqErdy
Spec == Init /\ [][Next]_gvars

BoundedRun == nAcc <= MaxReq
CoreView == <<job, age, idle, doneOwed, nAcc, nSent, lastAcc, lastSent>>

\* decoder and encoder agree on every job of the alphabet
RoundTrip == \A k \in Kinds, f \in Fields, x \in {0, 1} :
               LET j == [kind |-> k, addr |-> f[4], ep |-> f[1], rty |-> f[2], seq |-> f[3]]
               IN DecHdr(EncHdr(j, x, x)) = HdrOf(j, x) /\ Matches(HdrOf(j, x), j)
ASSUME RoundTrip
=============================================================================
