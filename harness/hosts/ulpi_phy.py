"""A ULPI 1.1 PHY model (plus a UTMI-side transmitter model and a cycle bench) for driving the real
`UTMITranslator` (or its parts) in amaranth.sim.

The PHY is *reactive*: every cycle it presents DIR/NXT/DATA (decided at the end of the previous cycle,
like the registered outputs of a real PHY), then samples the link's DATA.o / STP / DATA.oe after the
combinational logic settled, decodes link commands (TXCMD 01xxxxxx, RegWrite 10aaaaaa, RegRead 11aaaaaa,
NOP 00xxxxxx) and decides its next outputs from a per-cycle *choice* record:

    {"acc": bool,                 # PHY willing to assert NXT next cycle for a pending link byte
     "rx":  "none"|"up_nxt"|"up"|"cmd"|"data"|"down",   # receive-side action for the next cycle
     "b":   int}                  # RxCmd byte / data byte for "cmd"/"data"

Choices that are not legal in the PHY's current protocol state are ignored (the PHY stays ULPI-legal by
construction); what the PHY *actually did* is what gets recorded, and the TLA+ Env re-checks its legality.
The PHY keeps a register file (Function Control 0x04 and OTG Control 0x0A at their ULPI reset values);
a register write commits on STP.

No verdict is computed here: the bench only drives and records.
"""

RESET_REGS = {0x04: 0x41, 0x0A: 0x06}

# link-to-PHY protocol phases
IDLE, CMD_WAIT, TX_DATA, RW_DATA, RW_STP, RR_TURN, RR_DATA = "idle", "cmdw", "txd", "rwd", "rws", "rrt", "rrd"


class ULPIPhy:
    def __init__(self, allow_dir_in_tx=False, max_stall=None, clean_rx=False, rxcmd_after_nxt_start=False):
        self.regs = dict(RESET_REGS)
        self.allow_dir_in_tx = allow_dir_in_tx
        self.max_stall = max_stall                  # NXT is never withheld for more than this many cycles
        self.clean_rx = clean_rx          # avoid the triggers of the open C22 findings (see UlpiRx.tla KF_*)
        self.forced = None
        self.rxcmd_after_nxt_start = rxcmd_after_nxt_start   # always announce RxActive by an RxCmd after DIR+NXT
        self.stalled = 0
        self.cmd_started = False                    # the coming cycle carries an RxCmd that raises RxActive
        self.last_write_t = -100
        self.nxt_started = False
        self.rr = 0                                 # the coming cycle carries register-read data
        # registered outputs for the coming cycle
        self.dir = 0
        self.nxt = 0
        self.di = 0
        # protocol state
        self.prev_dir = 0
        self.phase = IDLE
        self.cmd = 0          # command byte seen / accepted
        self.wdata = 0
        self.rxact = False    # PHY-side RxActive
        self.turn = False     # the coming cycle is the DIR-rise turnaround cycle
        self.rr_pending = None
        self.events = []      # (cycle, kind, payload) — informational
        self.t = 0

    def outputs(self):
        return self.dir, self.nxt, self.di

    def observe(self, do, stp, oe, ch):
        """End of cycle: sample link outputs, advance protocol state, decide next-cycle outputs."""
        t = self.t
        self.t += 1
        dir_now, nxt_now = self.dir, self.nxt
        link_owns = (dir_now == 0 and self.prev_dir == 0)
        ev = None
        nxt_next = 0
        if self.max_stall is not None and self.stalled >= self.max_stall:
            ch = dict(ch, acc=True)
        # ---------------- link -> PHY direction ----------------------------------------------
        if dir_now:
            # PHY owns the bus: any link command in flight is aborted (link must retry)
            if self.phase not in (IDLE, RR_TURN, RR_DATA):
                self.events.append((t, "abort", self.phase))
                self.phase = IDLE
        elif link_owns or self.phase != IDLE:
            kind = (do >> 6) & 3
            if self.phase == IDLE:
                if kind != 0 and oe:
                    self.phase = CMD_WAIT
                    self.cmd = do
                    nxt_next = 1 if ch.get("acc") else 0
            elif self.phase == CMD_WAIT:
                if nxt_now:
                    self.cmd = do
                    kind = (do >> 6) & 3
                    if kind == 1:
                        self.phase = TX_DATA
                        ev = ("txcmd", do)
                        if stp:                       # zero-length body is not possible on UTMI; record anyway
                            ev = ("txcmd_stp", do)
                            self.phase = IDLE
                        else:
                            nxt_next = 1 if ch.get("acc") else 0
                    elif kind == 2:
                        self.phase = RW_DATA
                        ev = ("regw_cmd", do)
                        nxt_next = 1 if ch.get("acc") else 0
                    elif kind == 3:
                        self.phase = RR_TURN
                        ev = ("regr_cmd", do)
                    else:
                        ev = ("accepted_nop", do)
                        self.phase = IDLE
                else:
                    if kind == 0:
                        ev = ("cmd_withdrawn", self.cmd)
                        self.phase = IDLE
                    else:
                        self.cmd = do
                        nxt_next = 1 if ch.get("acc") else 0
            elif self.phase == TX_DATA:
                if stp:
                    ev = ("tx_stp", do)
                    self.phase = IDLE
                else:
                    if nxt_now:
                        ev = ("tx_byte", do)
                    nxt_next = 1 if ch.get("acc") else 0
            elif self.phase == RW_DATA:
                if nxt_now:
                    self.wdata = do
                    self.phase = RW_STP
                    ev = ("regw_data", do)
                else:
                    nxt_next = 1 if ch.get("acc") else 0
            elif self.phase == RW_STP:
                if stp:
                    a = self.cmd & 0x3F
                    self.regs[a] = self.wdata
                    self.last_write_t = t
                    ev = ("regw", (a, self.wdata))
                else:
                    ev = ("regw_no_stp", (self.cmd & 0x3F, self.wdata))
                self.phase = IDLE
        if ev:
            self.events.append((t, ev[0], ev[1]))
        owed = self.phase in (CMD_WAIT, TX_DATA, RW_DATA)
        self.stalled = self.stalled + 1 if (owed and not nxt_next) else 0

        # ---------------- PHY -> link direction ----------------------------------------------
        rx = ch.get("rx", "none")
        b = ch.get("b", 0) & 0xFF
        dir_next, di_next = dir_now, 0
        self.rr = 0
        if self.phase == RR_TURN:
            # register read: turnaround (DIR up), data, turnaround (DIR down)
            if dir_now == 0:
                dir_next, nxt_next, di_next = 1, 0, 0
                self.turn = True
            else:
                self.phase = RR_DATA
                di_next = self.regs.get(self.cmd & 0x3F, 0)
                nxt_next = 0
                self.rr = 1
                self.turn = False
        elif self.phase == RR_DATA:
            dir_next, nxt_next, di_next = 0, 0, 0
            self.phase = IDLE
        elif dir_now == 0:
            busy_tx = self.phase == TX_DATA
            can_raise = (not busy_tx) or self.allow_dir_in_tx
            if rx in ("up_nxt", "up") and can_raise:
                dir_next = 1
                nxt_next = 1 if rx == "up_nxt" else 0
                self.turn = True
                if rx == "up_nxt":
                    self.rxact = True
        else:
            self.turn = False
            if self.forced is not None:
                rx, b = self.forced
                self.forced = None
            if self.clean_rx:
                if rx == "data" and self.cmd_started:
                    rx = "none"                       # KF_CmdStartThenByte
                if rx == "cmd" and (b & 0x10) and not self.rxact and (self.last_cmd & 0x10) \
                        and not self.nxt_started:
                    self.forced = ("cmd", b)          # KF_StaleCmdStart: clear RxActive by an RxCmd first
                    b &= 0xCF
            if self.nxt_started and self.rxcmd_after_nxt_start and rx != "down":
                # [ULPI 1.1 Fig. 17] the turn-around of a DIR+NXT start is followed by the RxCmd announcing RxActive
                if not (rx == "cmd" and b & 0x10):
                    b = (self.last_cmd & 0xCF) | 0x10
                rx = "cmd"
            was = self.rxact
            if rx == "down":
                dir_next, nxt_next = 0, 0
                self.rxact = False
            elif rx == "data" and self.rxact:
                nxt_next, di_next = 1, b
            elif rx == "cmd":
                nxt_next, di_next = 0, b
                self.rxact = bool(b & 0x10)
            else:
                # default while DIR is high: repeat an RxCmd consistent with the PHY's state
                nxt_next = 0
                di_next = (self.last_cmd & ~0x30 & 0xFF) | (0x10 if self.rxact else 0)
            if dir_next and nxt_next == 0:
                self.last_cmd = di_next
            self.cmd_started = bool(dir_next and nxt_next == 0 and self.rxact and not was)
        if not dir_next:
            self.cmd_started = False
        self.nxt_started = bool(dir_next and not dir_now and nxt_next)
        if dir_next and not dir_now:
            di_next = 0
        self.prev_dir = dir_now
        self.dir, self.nxt, self.di = dir_next, nxt_next, di_next

    last_cmd = 0


class UTMITransmitter:
    """UTMI-side packet source obeying the UTMI handshake: tx_valid/tx_data are held until the cycle
    after tx_ready was sampled high; tx_valid drops in the cycle after the last byte was accepted."""

    def __init__(self):
        self.queue = []       # packets waiting (lists of bytes)
        self.cur = None
        self.idx = 0
        self.sent = []

    def offer(self, pkt):
        self.queue.append(list(pkt))

    def drive(self, start):
        if self.cur is None and self.queue and start:
            self.cur = self.queue.pop(0)
            self.idx = 0
        if self.cur is None:
            return 0, 0
        return 1, self.cur[self.idx]

    def observe(self, tx_ready):
        if self.cur is not None and tx_ready:
            self.idx += 1
            if self.idx >= len(self.cur):
                self.sent.append(self.cur)
                self.cur = None

    @property
    def active(self):
        return self.cur is not None


CONTROL_DEFAULTS = {"xcvr": 1, "term": 0, "opm": 0, "susp": 0,
                    "idpu": 0, "dppd": 1, "dmpd": 1, "chrg": 0, "dischrg": 0, "extvbus": 0}
CONTROL_ATTR = {"xcvr": "xcvr_select", "term": "term_select", "opm": "op_mode", "susp": "suspend",
                "idpu": "id_pullup", "dppd": "dp_pulldown", "dmpd": "dm_pulldown", "chrg": "chrg_vbus",
                "dischrg": "dischrg_vbus", "extvbus": "use_external_vbus_indicator"}
STATUS = {"ls": "line_state", "vv": "vbus_valid", "sv": "session_valid", "se": "session_end",
          "rxe": "rx_error", "hd": "host_disconnect", "idd": "id_digital"}


BASE_CONFIG = {"record": "plain",          # "plain": data/nxt/stp/dir only; "rst": + rst.o; "rst_clko": + rst.o, clk.o
               "handle_clocking": False,
               "startup": None,            # override of UTMITranslator._CYCLES_1_MILLISECONDS (records with rst)
               "extra": [],                # add_extra_register calls: (addr, "const"|"sig", value, default|None)
               "platform": None,           # {"extra": {addr: value}, "raw_domain": name|None} -> platform object
               "use_platform_registers": False,
               "domain": "usb",            # != "usb": the translator is wrapped in a DomainRenamer
               "phy_regs": {}}             # the PHY's real reset values of the extra registers


class _Platform:
    pass


def make_translator(config=None):
    """Elaborate the real UTMITranslator in the given configuration.  Returns a dict with the fragment to
    simulate, the DUT, the bus record, the clock domain objects and the Signals of dynamic extra registers."""
    from amaranth import Module, Elaboratable, ClockDomain, DomainRenamer, Signal, Fragment
    from amaranth.hdl.rec import Record
    from luna.gateware.interface.ulpi import UTMITranslator
    cfg = dict(BASE_CONFIG)
    cfg.update(config or {})
    layout = [("data", [("i", 8), ("o", 8), ("oe", 1)]), ("nxt", [("i", 1)]), ("stp", [("o", 1)]), ("dir", [("i", 1)])]
    if cfg["record"] in ("rst", "rst_clko"):
        layout.append(("rst", [("o", 1)]))
    if cfg["record"] == "rst_clko":
        layout.append(("clk", [("o", 1)]))
    if cfg["record"] == "clki":                  # the PHY provides the clock: the 'usb' domain is clocked from clk.i
        layout.append(("clk", [("i", 1)]))
    bus = Record(layout)
    cls = UTMITranslator
    if cfg["startup"] is not None:
        cls = type("ScaledUTMITranslator", (UTMITranslator,), {"_CYCLES_1_MILLISECONDS": cfg["startup"]})
    dut = cls(ulpi=bus, handle_clocking=cfg["handle_clocking"], use_platform_registers=cfg["use_platform_registers"])
    xsigs = []
    for addr, kind, value, default in cfg["extra"]:
        if kind == "sig":
            sig = Signal(8, init=value, name="extra_%02x" % addr)
            xsigs.append((addr, sig))
            dut.add_extra_register(addr, sig, default_value=default)
        else:
            dut.add_extra_register(addr, value, default_value=default)
    platform = None
    raw = None
    if cfg["platform"] is not None:
        platform = _Platform()
        if cfg["platform"].get("extra") is not None:
            platform.ulpi_extra_registers = dict(cfg["platform"]["extra"])
        raw = cfg["platform"].get("raw_domain")
        if raw:
            platform.ulpi_raw_clock_domain = raw
    dom = cfg["domain"]
    cds = {}

    class Top(Elaboratable):
        def elaborate(self, plat):
            m = Module()
            for name in [dom] + ([raw] if raw and raw != dom else []):
                cds[name] = ClockDomain(name)
                m.domains += cds[name]
            m.submodules.dut = DomainRenamer({"usb": dom})(dut) if dom != "usb" else dut
            return m
    frag = Fragment.get(Top(), platform)
    return {"frag": frag, "dut": dut, "bus": bus, "cds": cds, "xsigs": xsigs, "cfg": cfg}


def function_control(c):
    """Requested Function Control value (used only to *shape stimuli*: gating of clean schedules)."""
    return (c["xcvr"] & 3) | (c["term"] << 2) | ((c["opm"] & 3) << 3) | ((0 if c["susp"] else 1) << 6)


def otg_control(c):
    return (c["idpu"] | (c["dppd"] << 1) | (c["dmpd"] << 2) | (c["dischrg"] << 3) | (c["chrg"] << 4)
            | (c["extvbus"] << 7))


class TranslatorBench:
    """One elaboration of UTMITranslator; `run(script)` resets the simulator and executes a script:

    script = {"n": cycles,
              "choices": [PHY choice per cycle (missing -> idle, acc)],
              "ctrl0": {initial control values}, "ctrl": {cycle: {control name: value}},
              "packets": [[bytes], ...], "starts": set of cycles at which the UTMI side wants to start the
                         next queued packet, or "asap",
              "phy": {ULPIPhy options},
              "gate_ctrl": None | "settled" | "converged" | "tx_idle",   # defer control changes:
                     "settled":   until the PHY registers equal the requested values and the last write settled;
                     "converged": additionally until no transmission is waiting for its TXCMD to be accepted;
                     "tx_idle":   additionally until no transmission is in progress at all
              "gate_tx": bool}       # defer transmission starts until the registers have converged
    Returns (records, phy, tx): one record per cycle with every input and observed output.
    """
    SETTLE = 3

    def __init__(self, config=None):
        from amaranth.sim import Simulator
        t = make_translator(config)
        self.dut, self.bus, self.cfg, self.cds, self.xsigs = t["dut"], t["bus"], t["cfg"], t["cds"], t["xsigs"]
        self.domain = self.cfg["domain"]
        self.sim = Simulator(t["frag"])
        if self.cfg["record"] == "clki":
            bus = self.bus

            async def phy_clock(ctx):
                while True:
                    await ctx.delay(1 / 120e6)
                    ctx.set(bus.clk.i, 1)
                    await ctx.delay(1 / 120e6)
                    ctx.set(bus.clk.i, 0)
            self.sim.add_testbench(phy_clock, background=True)
        else:
            for name in self.cds:
                self.sim.add_clock(1 / 60e6, domain=name)
        self._script = None
        self._out = None
        self._first = True
        self.sim.add_testbench(self._bench)

    async def _bench(self, ctx):
        s = self._script
        dut, bus = self.dut, self.bus
        phy = ULPIPhy(**s.get("phy", {}))
        xaddrs = [a for a, _, _, _ in self.cfg["extra"]] + \
                 (sorted((self.cfg["platform"] or {}).get("extra") or {}) if self.cfg["use_platform_registers"] else [])
        xconst = {a: v for a, k, v, _ in self.cfg["extra"] if k == "const"}
        if self.cfg["use_platform_registers"]:
            xconst.update((self.cfg["platform"] or {}).get("extra") or {})
        xval = {a: v for a, k, v, _ in self.cfg["extra"] if k == "sig"}
        xchanges = s.get("xsig", {})                 # {cycle: {addr: value}} for dynamic extra registers
        phy0 = dict(RESET_REGS)
        phy0.update(self.cfg["phy_regs"])
        phy.regs = dict(phy0)
        has_rst = hasattr(bus, "rst")
        resets = s.get("resets", ())
        tx = UTMITransmitter()
        for p in s.get("packets", []):
            tx.offer(p)
        starts = s.get("starts", "asap")
        ctrl = dict(CONTROL_DEFAULTS)
        ctrl.update(s.get("ctrl0", {}))
        changes = s.get("ctrl", {})
        choices = s.get("choices", [])
        gate_ctrl = s.get("gate_ctrl")
        gate_tx = s.get("gate_tx", False)
        pend_changes = []
        want_start = False
        tx_recent = False
        recs = []
        for k, v in ctrl.items():
            ctx.set(getattr(dut, CONTROL_ATTR[k]), v)

        def xreq(a):
            return xval[a] if a in xval else xconst[a]

        def unsettled(t):
            return (function_control(ctrl) != phy.regs[0x04] or otg_control(ctrl) != phy.regs[0x0A]
                    or any(phy.regs.get(a) != xreq(a) for a in xaddrs)
                    or t - phy.last_write_t <= self.SETTLE)

        for t in range(s["n"]):
            # domain reset (ResetSignal) for one cycle; the UTMI side shares the domain and restarts as well
            in_reset = t in resets
            for cd in self.cds.values():
                ctx.set(cd.rst, 1 if in_reset else 0)
            if in_reset:
                tx.cur = None
                want_start = False
            for a, sig in self.xsigs:
                if t in xchanges and a in xchanges[t]:
                    xval[a] = xchanges[t][a]
                    ctx.set(sig, xval[a])
            d, n, di = phy.outputs()
            ctx.set(bus.dir.i, d)
            ctx.set(bus.nxt.i, n)
            ctx.set(bus.data.i, di)
            # control inputs
            if t in changes:
                pend_changes.append(changes[t])
            tx_pending = tx.active and phy.phase != TX_DATA
            hold = False
            if gate_ctrl:
                hold = unsettled(t) or (gate_ctrl != "settled" and tx_pending) or \
                    (gate_ctrl == "tx_idle" and (tx.active or tx_recent))
            if pend_changes and not hold:
                for k, v in pend_changes.pop(0).items():
                    ctrl[k] = v
                    ctx.set(getattr(dut, CONTROL_ATTR[k]), v)
            # UTMI transmitter
            if starts == "asap" or t in starts:
                want_start = True
            allow = want_start and not (gate_tx and unsettled(t))
            was_active = tx.active
            txv, txd = tx.drive(allow)
            if tx.active and not was_active:
                want_start = False
            tx_recent = bool(txv)                   # the next cycle may be this packet's STP cycle
            ctx.set(dut.tx_valid, txv)
            ctx.set(dut.tx_data, txd)
            do = ctx.get(bus.data.o)
            oe = ctx.get(bus.data.oe)
            stp = ctx.get(bus.stp.o)
            txr = ctx.get(dut.tx_ready)
            rst_o = ctx.get(bus.rst.o) if has_rst else 0
            r = {"rst": 1 if in_reset else 0, "rsto": rst_o, "x1": xreq(xaddrs[0]) if xaddrs else 0,
                 "x2": xreq(xaddrs[1]) if len(xaddrs) > 1 else 0,
                 "p1": phy.regs.get(xaddrs[0], 0) if xaddrs else 0,
                 "p2": phy.regs.get(xaddrs[1], 0) if len(xaddrs) > 1 else 0,
                 "dir": d, "nxt": n, "di": di, "rr": phy.rr, "txv": txv, "txd": txd,
                 "do": do, "oe": oe, "stp": stp, "txr": txr,
                 "rxd": ctx.get(dut.rx_data), "rxv": ctx.get(dut.rx_valid), "rxa": ctx.get(dut.rx_active),
                 "busy": ctx.get(dut.busy), "r4": phy.regs[0x04], "ra": phy.regs[0x0A]}
            for k, a in STATUS.items():
                r[k] = ctx.get(getattr(dut, a))
            r.update(ctrl)
            recs.append(r)
            ch = choices[t] if t < len(choices) else {"acc": True}
            if rst_o:
                # RESETB asserted: the PHY returns to its reset state (register file included)
                events, tt = phy.events, phy.t
                phy = ULPIPhy(**s.get("phy", {}))
                phy.regs = dict(phy0)
                phy.events, phy.t = events + [(tt, "phy_reset", 0)], tt + 1
            else:
                phy.observe(do, stp, oe, ch)
            if not in_reset:
                tx.observe(txr)
            await ctx.tick(self.domain)
        self._out = (recs, phy, tx)

    def run(self, script):
        self._script = script
        if not self._first:
            self.sim.reset()
        self._first = False
        self.sim.run()
        return self._out


class WindowDecoderBench:
    """ULPIRegisterWindow + ULPIRxEventDecoder wired as inside UTMITranslator (the translator itself never
    issues register reads), for the register-read clause of C22.

    script = {"n": cycles, "choices": [...], "ops": {cycle: ("read", addr) | ("write", addr, data)},
              "regs": {addr: value}, "phy": {...}}
    Records carry the fields of the UlpiRx trace format (no UTMI data path: rxv = rxd = rxa = 0).
    """

    def __init__(self):
        from amaranth import Module, Elaboratable
        from amaranth.hdl.rec import Record
        from amaranth.sim import Simulator
        from luna.gateware.interface.ulpi import ULPIRegisterWindow, ULPIRxEventDecoder
        bus = Record([("data", [("i", 8), ("o", 8)]), ("nxt", [("i", 1)]), ("stp", [("o", 1)]), ("dir", [("i", 1)])])
        win = ULPIRegisterWindow()
        dec = ULPIRxEventDecoder(ulpi_bus=bus)

        class Top(Elaboratable):
            def elaborate(self, platform):
                m = Module()
                m.submodules.win = win
                m.submodules.dec = dec
                m.d.comb += [win.ulpi_data_in.eq(bus.data.i), win.ulpi_dir.eq(bus.dir.i), win.ulpi_next.eq(bus.nxt.i),
                             bus.data.o.eq(win.ulpi_data_out), bus.stp.o.eq(win.ulpi_stop),
                             dec.register_operation_in_progress.eq(
                                 getattr(win, "read_in_progress", win.busy))]
                return m
        self.bus, self.win, self.dec = bus, win, dec
        self.sim = Simulator(Top())
        self.sim.add_clock(1 / 60e6, domain="usb")
        self._script = None
        self._out = None
        self._first = True
        self.sim.add_testbench(self._bench)

    async def _bench(self, ctx):
        s = self._script
        bus, win, dec = self.bus, self.win, self.dec
        phy = ULPIPhy(**s.get("phy", {}))
        phy.regs.update(s.get("regs", {}))
        ops = dict(s.get("ops", {}))
        choices = s.get("choices", [])
        pend = []
        recs = []
        reads = []
        xa = s.get("xaddrs", (0x16, 0x31))            # registers whose requested value is tracked (x1/x2, p1/p2)
        req = {a: phy.regs.get(a, 0) for a in xa}
        scramble = s.get("scramble")                  # rng: change address/write_data right after the request strobe
        issued = False
        for t in range(s["n"]):
            d, n, di = phy.outputs()
            ctx.set(bus.dir.i, d)
            ctx.set(bus.nxt.i, n)
            ctx.set(bus.data.i, di)
            if t in ops:
                pend.append(ops[t])
            ctx.set(win.read_request, 0)
            ctx.set(win.write_request, 0)
            if issued and scramble is not None:
                # the arguments are only sampled with the request: present something else from now on
                ctx.set(win.address, scramble.randrange(64))
                ctx.set(win.write_data, scramble.randrange(256))
            issued = False
            if pend and not ctx.get(win.busy):
                issued = True
                op = pend.pop(0)
                ctx.set(win.address, op[1])
                if op[0] == "read":
                    ctx.set(win.read_request, 1)
                else:
                    ctx.set(win.write_data, op[2])
                    ctx.set(win.write_request, 1)
                    if op[1] in req:
                        req[op[1]] = op[2]
            do = ctx.get(bus.data.o)
            stp = ctx.get(bus.stp.o)
            if ctx.get(win.done):
                reads.append((t, ctx.get(win.read_data)))
            r = {"dir": d, "nxt": n, "di": di, "rr": phy.rr, "rxv": 0, "rxd": 0, "rxa": 0,
                 "do": do, "stp": stp, "oe": 1 - d, "busy": ctx.get(win.busy), "txv": 0, "txd": 0, "txr": 0,
                 "r4": phy.regs[0x04], "ra": phy.regs[0x0A], "x1": req[xa[0]], "x2": req[xa[1]],
                 "p1": phy.regs.get(xa[0], 0), "p2": phy.regs.get(xa[1], 0)}
            r.update(CONTROL_DEFAULTS)
            for k, a in STATUS.items():
                r[k] = ctx.get(getattr(dec, a))
            recs.append(r)
            phy.observe(do, stp, 1 - d, choices[t] if t < len(choices) else {"acc": True})
            await ctx.tick("usb")
        self._out = (recs, phy, reads)

    def run(self, script):
        self._script = script
        if not self._first:
            self.sim.reset()
        self._first = False
        self.sim.run()
        return self._out
