----------------------------- MODULE MCStretch -----------------------------
(* Exhaustive instance of Stretch: every stretch length 1..MaxN, with and without allowed *)
(* delay (chosen in Init), every strobe pattern (the ghost history is bounded by itself).   *)
EXTENDS Stretch, TLC
=============================================================================
