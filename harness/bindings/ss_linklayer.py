"""Composition engine `ss_linklayer`: the real, whole `USB3LinkLayer` (luna/gateware/usb/usb3/link/layer.py) against
specs/ss_linklayer/LinkLayer.tla -- the link training state machine, training-set unit, idle handshake, U0 timers, header
receiver and header transmitter *as wired together*, observed only at the PHY-facing word streams and the protocol-facing
header queues.  It owns no property: it contributes EXTRA sub-checks to C33, C37, C38, C39, C41 and C44 (the unit-level
engines never see the wiring of layer.py)."""
import json
import os
import time
from concurrent.futures import ThreadPoolExecutor

from .. import tlc
from ..hosts import ss_partner as P

ENGINE = "ss_linklayer"
SPEC_DIR = "ss_linklayer"
META = {}            # owns no property
CHECKS = {}

FREQ = 1e6           # scaled ss clock: 10 us = 10, 1 ms = 1000, 2 ms = 2000, 12 ms = 12000 cycles
SLACK = dict(KaEarly=0, KaSlack=8, RecSlack=6, DownSlack=3, RstSlack=2, TsSlack=4)
AUTO = {"auto_ack": 4, "auto_ka": 150}
POOL = 6


def _cfg(name):
    with open(os.path.join(tlc.SPECS, SPEC_DIR, name)) as f:
        return f.read()


# =====================================================================================================
# Running scripts on the real layer (one elaboration, forked workers)
# =====================================================================================================
_BENCH = None


def _bench():
    global _BENCH
    if _BENCH is None:
        from ..hosts.ss_linklayer_bench import LinkBench
        _BENCH = LinkBench(freq=FREQ)
    return _BENCH


def _job(j):
    script, seed, stall = j
    ev, info = _BENCH.run(script, seed, stall_p=stall)
    return ev, {"cycles": info["cycles"], "skipped": info["skipped"], "aborted": info.get("aborted", False),
                "ups": len(info["up_t"]), "downs": len(info["down_t"])}


def run_scripts(jobs):
    """jobs: [(script, seed, stall_p)] -> [(events, info)], in order; simulated in forked workers that inherit the compiled
    design (each run starts from a simulator reset, so the result does not depend on which worker ran it)."""
    _bench()
    if len(jobs) < 4 or os.environ.get("VERIF_SSLL_SERIAL"):
        return [_job(j) for j in jobs]
    import multiprocessing
    n = min(POOL, max(1, (os.cpu_count() or 2) - 1), len(jobs))
    with multiprocessing.get_context("fork").Pool(n) as pool:
        return pool.map(_job, jobs, chunksize=1)


# =====================================================================================================
# Script building blocks
# =====================================================================================================
def bringup(train=None, cfg=None, settle=True):
    s = [("power_on",), ("config", dict(AUTO, **(cfg or {}))), ("train", dict(train or {})), ("wait_ready",)]
    if settle:
        s.append(("quiet",))
    return s


def traffic(rng, n, bad=True, retry=True):
    """Random U0 traffic in both directions (stays inside the Env assumptions through the partner's mirrors)."""
    s = []
    if rng.random() < 0.5:
        s.append(("autoconsume", rng.choice([0.05, 0.3, 1.0])))
    for _ in range(n):
        r = rng.random()
        if r < 0.30:
            s.append(("hdr", "good", 0, {"gap": rng.choice([1, 1, 2, 4])}))
        elif r < 0.38 and bad:
            s.append(("hdr", rng.choice(["bad5", "bad16"]), rng.choice([0, 0, 1]), {"gap": rng.choice([1, 2, 4])}))
            s.append(("wait", rng.randint(0, 8)))
            s.append(("lc", P.LRTY))
        elif r < 0.52:
            s.append(("consume", rng.randint(1, 2)))
        elif r < 0.78:
            s.append(("offer", {"nowait": rng.random() < 0.3}))
        elif r < 0.84 and retry:
            # the partner rejects the next header: hold the acknowledgements back, LBAD, expect LRTY + retransmission
            s += [("config", {"auto_ack": None}), ("offer",), ("sync", "hp_start", 40), ("wait", rng.randint(5, 9)),
                  ("lc", P.LBAD), ("wait", rng.randint(14, 24)), ("config", {"auto_ack": 3}),
                  ("lc", P.LGOOD, "ok"), ("lc", P.LCRD, "ok"), ("wait", 4)]
        elif r < 0.94:
            s.append(("wait", rng.randint(1, 14)))
        else:
            s.append(("quiet",))
    s += [("lc", P.LRTY), ("consume", 4), ("quiet",)]
    return s


def fix_ops(s):
    """`autoconsume` is a config op of the bench."""
    return [("config", {"auto": op[1]}) if op[0] == "autoconsume" else op for op in s]


def retrain(kind, rng, opts=None):
    """Leave U0 and come back: 'recover' (partner TS1), 'hot' (recovery with hot reset), 'warm' (warm reset),
    'silence' (the partner stops sending: the DUT's 1 ms timer must ask for recovery)."""
    o = dict(opts or {})
    if kind == "recover":
        return [("recover", o), ("wait_ready",), ("quiet",)]
    if kind == "hot":
        o["hot"] = o.get("hot", 2)
        return [("recover", o), ("wait_ready",), ("quiet",)]
    if kind == "warm":
        return [("warm_reset", o.pop("len", rng.choice([2, 3, 8]))), ("train", o), ("wait_ready",), ("quiet",)]
    if kind == "silence":
        return [("config", {"auto_ka": None}), ("wait_down", 1100), ("config", {"auto_ka": AUTO["auto_ka"]}),
                ("train", o), ("wait_ready",), ("quiet",)]
    raise ValueError(kind)


# =====================================================================================================
# Scenario families
# =====================================================================================================
def sc_training(rng, quick):
    """C41: ways into (and back into) U0; the partner delays each of its steps, asks for hot resets, resets at
    different points of the training and of U0."""
    out = []
    out.append(("bringup", bringup() + fix_ops(traffic(rng, 6, bad=False, retry=False))))
    out.append(("late-ts2", bringup({"ts1_extra": 3})))
    out.append(("late-idle", bringup({"ts2_extra": 3})))
    # uncooperative partners: the link must stay down (the 12 ms time-outs themselves are C41's unit-level business)
    out.append(("partner-skips-ts2", [("power_on",), ("config", dict(AUTO)), ("train", {"skip_ts2": True, "limit": 420}),
                                      ("quiet",)]))
    out.append(("partner-never-idles", [("power_on",), ("config", dict(AUTO)), ("train", {"never_idle": True, "limit": 420}),
                                        ("quiet",)]))
    out.append(("hot-at-polling", bringup({"hot": 2}) + [("hdr", "good", 0), ("consume", 1), ("quiet",)]))
    for kind in ("recover", "hot", "warm"):
        out.append(("u0-" + kind, bringup() + fix_ops(traffic(rng, 5, bad=False, retry=False)) + retrain(kind, rng)
                    + fix_ops(traffic(rng, 4, bad=False, retry=False))))
    # a warm reset at different points of the training sequence (each phase of the transmitter)
    for i, n in enumerate([6, 70, 200, 245] if quick else range(4, 256, 12)):
        out.append(("reset-in-training-%d" % n,
                    [("power_on",), ("config", dict(AUTO)), ("train", {"limit": n}), ("warm_reset", 2 + i % 3),
                     ("train", {}), ("wait_ready",), ("quiet",)]))
    # ... and of a recovery
    for n in ([10, 170] if quick else range(5, 190, 15)):
        out.append(("reset-in-recovery-%d" % n,
                    bringup() + [("recover", {"limit": n}), ("warm_reset", 3), ("train", {}), ("wait_ready",),
                                 ("quiet",)]))
    # recovery that the partner abandons half-way is not needed here (time-outs are C41's unit-level business)
    out.append(("double-recovery", bringup() + retrain("recover", rng) + retrain("recover", rng, {"ts2_extra": 2})))
    out.append(("hot-then-warm", bringup() + [("hdr", "good", 0), ("consume", 1)] + retrain("hot", rng)
                + [("hdr", "good", 0), ("consume", 1)] + retrain("warm", rng)))
    return out


def sc_epochs(rng, quick):
    """C38: every way of leaving U0, at different offsets relative to the link's own commands and packets, after traffic
    that moved the sequence numbers; then the re-advertisement is checked."""
    out = []
    pre = [("hdr", "good", 0, {"gap": 2}), ("hdr", "good", 0, {"gap": 2}), ("hdr", "good", 0, {"gap": 1}),
           ("consume", 2), ("offer",), ("wait", 12)]
    post = [("hdr", "good", 0), ("consume", 4), ("offer",), ("quiet",)]
    for kind in ("recover", "hot", "warm"):
        offs = [0, 2, 3, 5] if quick else range(0, 14)
        for d in offs:
            # leave U0 d cycles after one of the DUT's own link commands started (keep-alive, LGOOD, LCRD ...)
            for anchor in (("lc_start",), ("hp_start",)):
                if anchor[0] == "hp_start":
                    mid = [("offer", {"nowait": True}), ("sync", "hp_start", 40), ("wait", d)]
                    if quick and d not in (0, 3):
                        continue
                else:
                    mid = [("hdr", "good", 0, {"nowait": True, "gap": 0}), ("sync", "lc_start", 40), ("wait", d)]
                o = {"lead": 0} if kind != "warm" else {"len": 2 + d % 3}
                out.append(("%s-at-%s+%d" % (kind, anchor[0], d),
                            bringup() + pre + mid + retrain(kind, rng, o) + post))
    # leaving U0 during the advertisement itself
    for kind in ("recover", "warm"):
        for d in ([1, 7] if quick else range(0, 16)):
            o = {"lead": 0} if kind != "warm" else {"len": 3}
            out.append(("%s-in-advertisement+%d" % (kind, d),
                        bringup(settle=False)[:3] + [("wait", d)] + retrain(kind, rng, o) + post))
    out.append(("three-epochs", bringup() + pre + retrain("recover", rng) + pre + retrain("hot", rng) + pre
                + retrain("recover", rng) + post))
    return out


def sc_data(rng, quick):
    """C33: data packets of every tail size (header packet + payload on the wire), between keep-alives and other traffic."""
    out = []
    sizes = [0, 1, 2, 3, 4, 5, 8, 13, 64] if quick else [0, 1, 2, 3, 4, 5, 6, 7, 8, 9, 13, 31, 64, 257, 1024]
    seq = []
    for n in sizes:
        seq += [("dp", n), ("wait", rng.randint(0, 9))]
    out.append(("data-packets", bringup() + seq + [("quiet",)]))
    seq = []
    for d in range(0, 14, 2 if quick else 1):
        seq += [("sync", "lc_end", 40), ("wait", d), ("dp", rng.choice([4, 7, 12, 40]))]
    out.append(("data-vs-keepalive", bringup(cfg={"auto": 1.0}) + seq + [("hdr", "good", 0), ("offer",), ("quiet",)]))
    return out


def sc_retry_down(rng, quick):
    """C39 (witness class of finding C39-retransmission-survives-link-down): the link leaves U0 -- warm reset, or
    recovery because the partner's next LGOOD does not match -- while it is retransmitting after an LBAD (LRTY owed,
    LRTY being sent, headers being sent again)."""
    out = []
    post = [("config", {"auto_ack": 4}), ("hdr", "good", 0), ("consume", 4), ("offer",), ("quiet",)]
    for kind in ("warm", "mismatch"):
        for d in ([0, 6, 13] if quick else range(0, 22)):
            pre = bringup(cfg={"auto_ack": None}) + [("offer",), ("offer",), ("offer",), ("wait", 20),
                                                     ("lc", P.LBAD, "ok", None, "nowait"), ("wait", 2 + d)]
            if kind == "warm":
                mid = retrain("warm", rng, {"len": 3})
            else:
                mid = [("lc", P.LGOOD, ("rel", 2), None, "nowait"), ("wait_down", 40), ("train", {}), ("wait_ready",),
                       ("quiet",)]
            out.append(("%s-in-retry+%d" % (kind, d), pre + mid + post))
    return out


def sc_timers(rng, quick):
    """C44: keep-alives while idle, keep-alive timer against traffic at every offset, 1 ms silence -> recovery, receptions
    shortly before the time-out."""
    out = []
    out.append(("idle-u0", bringup() + [("wait", 120), ("quiet",)]))
    # the timers start at U0 entry, however long the idle handshake before it took
    out.append(("long-idle-handshake", bringup({"ts2_extra": 3}) + [("wait", 30)] + retrain("hot", rng, {"ts2_extra": 2})
                + [("wait", 30), ("quiet",)]))
    # a header / an offer / a partner command d cycles after the DUT's last link command: the keep-alive timer expires
    # around the reaction
    seq = []
    for d in range(0, 15):
        seq += [("sync", "lc_end", 40), ("wait", d), ("hdr", "good", 0, {"nowait": True}), ("wait", 3)]
    out.append(("hdr-vs-keepalive", bringup(cfg={"auto": 1.0}) + seq + [("quiet",)]))
    seq = []
    for d in range(0, 15):
        seq += [("sync", "lc_end", 40), ("wait", d), ("offer", {"nowait": True}), ("wait", 5)]
    out.append(("offer-vs-keepalive", bringup() + seq + [("quiet",)]))
    seq = []
    for d in range(0, 15, 2):
        seq += [("sync", "lc_end", 40), ("wait", d), ("lc", P.LDN, 0, None, "nowait"), ("wait", 6)]
    out.append(("partner-ka-vs-keepalive", bringup() + seq + [("quiet",)]))
    # silence
    if not quick:          # (quick tier: family last_reception has the same history with a link command as last reception)
        out.append(("silence-after-bringup", bringup() + retrain("silence", rng)))
    out.append(("silence-after-traffic", bringup() + [("hdr", "good", 0), ("consume", 1), ("offer",), ("quiet",)]
                + retrain("silence", rng) + [("offer",), ("quiet",)]))
    # a received header packet restarts the 1 ms timer just as a link command does
    out.append(("header-restarts-recovery-timer",
                bringup(cfg={"auto_ka": None, "auto": 1.0}) + [("wait", 560), ("hdr", "good", 0), ("wait", 640),
                                                               ("lc", P.LDN, 0), ("config", {"auto_ka": 150}),
                                                               ("quiet",)]))
    # the partner speaks again shortly before the time-out: no recovery
    for back in ([8] if quick else [200, 40, 12, 8, 6]):
        out.append(("reception-%d-before-timeout" % back,
                    bringup(cfg={"auto_ka": None}) + [("wait", 1000 - back - 45), ("lc", P.LDN, 0),
                                                      ("wait", 60), ("config", {"auto_ka": 150}), ("quiet",)]))
    return out


def sc_last_reception(rng, quick):
    """C44, "never earlier / within one cycle of 1 ms without any received link command or header packet": every kind of
    reception as the LAST thing the partner sends before it falls silent.  The partner's last intact link command is
    sent at a known point, `gap` cycles later comes the reception under test, then silence until the DUT asks for
    recovery: TLC judges the moment `trained` falls against the last *intact* header packet / link command (a
    corrupted one, or a header with an unexpected number, must not restart the 1 ms; an intact header must, also while
    the receiver discards headers after its LBAD)."""
    out = []
    gaps = [300] if quick else [60, 300, 700]

    def case(name, ops, gap):
        out.append(("last-%s-gap%d" % (name, gap),
                    # (no automatic partner reactions: no keep-alives, no LRTY after the DUT's LBAD)
                    bringup(cfg={"auto_ka": None, "auto": 1.0, "auto_ack": None}) + [("lc", P.LDN, 0), ("wait", gap)] + ops
                    + [("wait_down", 1100), ("config", dict(AUTO)), ("train", {}), ("wait_ready",),
                       ("hdr", "good", 0), ("offer",), ("quiet",)]))

    ign = [("hdr", "bad16", 0), ("wait", 30)]          # the DUT sends LBAD and ignores headers from here on
    for g in gaps:
        case("good-header", [("hdr", "good", 0)], g)
        case("bad-crc5-header", [("hdr", "bad5", 0)], g)
        case("bad-crc16-header", [("hdr", "bad16", 0)], g)
        case("wrong-number-header-while-ignoring", ign + [("wait", 200), ("hdr", "good", 2)], g)
        case("good-header-while-ignoring", ign + [("wait", 200), ("hdr", "good", 0)], g)
        case("good-header-after-corrupted-lrty", ign + [("lc", P.LRTY, 0, "crc"), ("wait", 150), ("hdr", "good", 0)], g)
        case("good-header-after-replica-corrupted-lrty", ign + [("lc", P.LRTY, 0, "replica"), ("wait", 200),
                                                                ("hdr", "good", 0), ("wait", 90), ("hdr", "good", 0)], g)
        case("good-header-after-lrty", ign + [("lc", P.LRTY), ("wait", 150), ("hdr", "good", 0)], g)
        case("link-command", [("lc", P.LDN, 0)], g)
        case("crc-corrupted-link-command", [("lc", P.LDN, 0, "crc")], g)
        case("replica-corrupted-link-command", [("lc", P.LDN, 0, "replica")], g)
    return out


def sc_last_transmission(rng, quick):
    """C44, keep-alive side: every kind of link command of the DUT (LGOOD, LCRD, LBAD, LRTY, LUP) and a header packet as
    its last transmission before an idle stretch: the next keep-alive is due K cycles after the last link *command*."""
    s = bringup()
    s += [("hdr", "good", 0), ("wait", 45), ("consume", 1), ("wait", 45)]                       # LGOOD ... LCRD ...
    s += [("hdr", "bad16", 0), ("wait", 45), ("lc", P.LRTY), ("wait", 20)]                       # LBAD ...
    s += [("config", {"auto_ack": None}), ("offer",), ("wait", 45), ("lc", P.LBAD), ("wait", 45),   # header packet, LRTY
          ("config", {"auto_ack": 3}), ("lc", P.LGOOD, "ok"), ("lc", P.LCRD, "ok"), ("wait", 45), ("quiet",)]
    return [("last-transmission-kinds", s)]


def sc_flow(rng, quick, n=None):
    """C37 / C39 / C33: traffic in both directions with stalls, corrupted headers, LBAD / LRTY, credit exhaustion."""
    out = []
    for i in range(n or (8 if quick else 60)):
        out.append(("random-%d" % i, bringup(cfg={"auto_ack": rng.choice([2, 4, 9])})
                    + fix_ops(traffic(rng, 22 if quick else 40))))
    # credit exhaustion both ways
    out.append(("rx-buffers-full", bringup() + [("hdr", "good", 0, {"gap": 1})] * 4 + [("quiet",), ("consume", 4),
                                                                                      ("quiet",)]
                + [("hdr", "good", 0, {"gap": 1}), ("consume", 1)] * 6 + [("quiet",)]))
    out.append(("tx-credits-used-up", bringup(cfg={"auto_ack": None}) + [("offer",)] * 4 + [("offer", {"limit": 10})]
                + [("quiet",)] + [("lc", P.LGOOD, "ok"), ("lc", P.LCRD, "ok")] * 4 + [("offer",), ("quiet",)]))
    # mismatching acknowledgements: the link must retrain
    out.append(("lgood-mismatch", bringup(cfg={"auto_ack": None}) + [("offer",), ("wait", 12), ("lc", P.LGOOD, ("rel", 1)),
                                                                      ("wait_down", 30), ("train", {}), ("wait_ready",),
                                                                      ("offer",), ("quiet",)]))
    out.append(("lcrd-mismatch", bringup() + [("lc", P.LCRD, 2), ("wait_down", 30), ("train", {}), ("wait_ready",),
                                              ("quiet",)]))
    out.append(("bad-sequence-header", bringup() + [("hdr", "good", 1), ("wait_down", 30), ("train", {}), ("wait_ready",),
                                                    ("hdr", "good", 0), ("consume", 1), ("quiet",)]))
    return out


# =====================================================================================================
# Trace preparation, classification, validation
# =====================================================================================================
def prepare(items):
    """Replace header words by an index into a shared table (TLC computes each CRC once per run)."""
    table, index, out = [], {}, []
    for trace, meta in items:
        t2 = []
        for r in trace:
            if r["e"] == "hdr":
                key = tuple(r["w"])
                if key not in index:
                    table.append(list(key))
                    index[key] = len(table)
                r = {"e": "hdr", "h": index[key], "t": r["t"]}
            t2.append(r)
        out.append((t2, meta))
    return out, table or [[0] * 8]


GROUPS = {
    "C41": ("up_", "reset_link_ready", "hot_reset_ignored", "training_while_link_ready", "link_not_up_after_handshake",
            "recovery_request_ignored", "link_command_while_down", "header_while_down", "data_while_down",
            "header_delivered_while_down", "header_offered_while_down", "header_accepted_while_down", "tx_garbage"),
    "C44": ("keepalive_", "recovery_late", "link_down_without_cause", "quiet_keepalive"),
    "C33": ("skp_",),
}


PHANTOM = ("header_while_down", "header_before_advertisement", "header_without_queue_entry", "hp_sequence_number",
           "hp_content", "void_header_unknown", "hp_delayed_bit_missing", "tx_overlap", "quiet_unit_unfinished")


def link_down_during_retransmission(trace, k):
    """Normalised cause for finding C39-retransmission-survives-link-down, computed from the recorded events before
    record k: the link left U0 after an LBAD arrived and before every header that was unacknowledged at that moment had
    been completely sent again (counted from the DUT's LRTY)."""
    unacked, adv_seen, owed, resent, lrty, hit = 0, False, None, 0, False, False
    for r in trace[:k]:
        e = r["e"]
        if e == "up":
            unacked, adv_seen, owed, resent, lrty = 0, False, None, 0, False
        elif e == "acc":
            unacked += 1
        elif e == "lc_rx":
            pc = P.parse_link_command_word(r["lo"] | (r["hi"] << 16))
            if pc["ok"] and r["ctrl"] == 0:
                if pc["cmd"] == P.LGOOD:
                    if not adv_seen:
                        adv_seen = True
                    elif unacked > 0:
                        unacked -= 1
                elif pc["cmd"] == P.LBAD:
                    owed, resent, lrty = unacked, 0, False
        elif e == "txe" and ((r["lo"] >> 7) & 0xF) == P.LRTY:
            lrty = True
        elif e == "hpe" and owed is not None and lrty:
            resent += 1
        elif e == "down":
            if owed is not None and resent < owed:
                hit = True
            owed = None
    return hit


def classify(trace, matched, status, meta):
    k = matched if status != "ok" else matched + 1
    if status.startswith("env_") or status in ("unknown_record", "log_time_not_monotonic"):
        raise tlc.TLCError("stimulus left the Env assumptions (%s) in %s at step %d: %s"
                           % (status, meta, k, trace[max(0, k - 4):k]))
    group = "flow"
    for g, pre in GROUPS.items():
        if any(status.startswith(p) for p in pre):
            group = g
    pattern = "other"
    if status in PHANTOM and link_down_during_retransmission(trace, k):
        group, pattern = "phantom_header", "link_down_during_retransmission"
    return {"clause": status, "pattern": pattern, "group": group, "engine": ENGINE, "family": meta.get("family")}


def validate(rep, items, bench):
    """One TLC batch: all recorded traces + a corrupted copy of one of them (machinery self-test: it must be rejected).
    Same accounting as pipeline.validate_group."""
    if not items:
        return 0
    prepared, table = prepare(items)
    sub = dict(NBuf=4, K=bench.K, R=bench.R, TCap=bench.R + 50, **SLACK)
    cfg = tlc.render_cfg(_cfg("LinkLayerTrace.cfg.tmpl"), sub)
    bad = _corrupt(prepared)
    batch = [t for t, _ in prepared] + ([bad] if bad is not None else [])
    with tlc.scratch("ss-linklayer-") as d:
        hf = os.path.join(d, "hdrs.json")
        with open(hf, "w") as f:
            json.dump(table, f)
        verdicts, _res = tlc.validate_traces(SPEC_DIR, "LinkLayerTrace", cfg, batch, env={"HDR_FILE": hf})
    if bad is not None:
        m, st = verdicts.pop()
        if st == "ok" and m == len(bad):
            raise tlc.TLCError("self-test: a corrupted trace (letter of a transmitted LCRD changed) was accepted")
    ok = steps = 0
    for (trace, meta), (matched, status) in zip(prepared, verdicts):
        n = len(trace)
        if status == "ok" and matched == n:
            ok += 1
            steps += n
            continue
        sig = classify(trace, matched, status, meta)
        k = matched if status != "ok" else matched + 1
        ctx = [{a: b for a, b in r.items() if a != "w"} for r in trace[max(0, k - 4):k]]
        what = "USB3LinkLayer %s: real-gateware trace rejected by LinkLayerTrace at step %d/%d, clause '%s' (%s); last " \
               "records: %s" % (meta, k, n, status, sig.get("pattern"), ctx)
        rep.violation(sig, what, {"meta": meta, "failing_step": k, "clause": status, "trace_prefix": trace[:k + 1]})
    rep.add_traces(ok, steps)
    return ok


def _corrupt(prepared):
    for tr, _ in prepared:
        for i, r in enumerate(tr):
            if r["e"] == "txe" and ((r["lo"] >> 7) & 0xF) == P.LCRD:
                t2 = [dict(x) for x in tr]
                w = P.link_command_word(P.LCRD, (r["lo"] & 3) ^ 2)
                t2[i]["lo"] = t2[i]["hi"] = w
                return t2
    return None


# =====================================================================================================
# Model checking (focused configurations of MCLinkLayer) and simulated behaviours
# =====================================================================================================
UNTIMED = dict(K=1000, R=1000, KaEarly=0, KaSlack=1, RecSlack=1, DownSlack=0, RstSlack=0, TsSlack=0, TCap=0)
TIMED = dict(K=2, R=5, KaEarly=0, KaSlack=1, RecSlack=1, DownSlack=1, RstSlack=1, TsSlack=1, TCap=8)

def _mc(base, unc, **kw):
    d = dict(base, NBuf=2, MaxRx=0, MaxTx=0, MaxEpochs=1, MaxRst=0, Kinds='{"good"}', Deltas="{0}", Numbers="{0}",
             WithHot="FALSE", WithRetry="FALSE")
    d.update(kw)
    return d, tuple(unc)


NO_FLOW = ("MLbad", "MLrty", "MConsume", "MTau", "MKaReq", "MLother")
MC = {
    # name: (constants, actions that cannot occur within these bounds)
    # -- quick tier
    "training": _mc(UNTIMED, NO_FLOW, MaxEpochs=2, MaxRst=1, WithHot="TRUE"),
    "epochs": _mc(UNTIMED, ("MLbad", "MLrty", "MTau", "MKaReq", "MLother"), NBuf=1, MaxRx=1, MaxEpochs=2, MaxRst=1),
    "timers": _mc(TIMED, ("MLgood", "MLcrd", "MLbad", "MLrty", "MConsume", "MTau", "MAcc"), NBuf=1, Numbers="{}"),
    "flow_rx": _mc(UNTIMED, ("MLbad", "MTau", "MKaReq", "MLother"), MaxRx=1, Kinds='{"good", "bad16"}', Deltas="{0, 1}",
                   WithRetry="TRUE"),
    "flow_tx": _mc(UNTIMED, ("MKaReq", "MLother", "MLrty", "MConsume"), MaxTx=1, Numbers="{0, 1}", WithRetry="TRUE"),
    # -- thorough tier
    "training+": _mc(UNTIMED, NO_FLOW, MaxEpochs=2, MaxRst=2, WithHot="TRUE"),
    "epochs+": _mc(UNTIMED, ("MLbad", "MTau", "MKaReq", "MLother"), MaxRx=1, MaxEpochs=2, MaxRst=1,
                   Kinds='{"good", "bad5"}', WithRetry="TRUE"),
    "timers+": _mc(TIMED, ("MLbad", "MLrty", "MConsume", "MTau"), NBuf=1, MaxRst=1),
    "flow_rx+": _mc(UNTIMED, ("MLbad", "MTau", "MKaReq", "MLother"), MaxRx=2, Kinds='{"good", "bad16"}', Deltas="{0, 1}",
                    WithRetry="TRUE"),
    "flow_tx+": _mc(UNTIMED, ("MKaReq", "MLother", "MLrty"), MaxTx=2, MaxRx=1, Numbers="{0, 1}", WithRetry="TRUE"),
}


def model_check(name):
    """One exhaustive TLC run of a focused configuration (see docs/ss_linklayer.md for the bounds)."""
    consts, uncovered = MC[name]
    cfg = tlc.render_cfg(_cfg("MCLinkLayer.cfg.tmpl"), consts)
    res = tlc.model_check(SPEC_DIR, "MCLinkLayer", cfg, workers=4, timeout=1500, allow_uncovered=uncovered + tuple(os.environ.get("SSLL_ALLOW","").split(",")))
    return name, res, consts


def script_from_behaviour(beh, rng):
    """Env projection of a TLC behaviour of MCLinkLayer (spec -> code).  The partner of the bench is reactive, so the
    training events become one cooperative `train` / `recover` with the options the behaviour chose; U0 events are
    replayed in order; DUT events become short waits."""
    s = [("power_on",), ("config", dict(AUTO, auto_ack=None, auto_adv=False))]
    up = False
    pending_hot = 0
    in_reset = False
    trained_once = False
    prev = beh[0][1]
    for _a, stv in beh[1:]:
        e = stv["ev"]
        k = e.get("e")
        before, prev = prev, stv
        if k == "rst":
            if e["on"] and not in_reset:
                s.append(("warm_reset", rng.choice([2, 3, 6])))
                up = False
            in_reset = bool(e["on"])
        elif k == "ts":
            if e["k"] == "ts2" and e.get("hot"):
                pending_hot = 2
            if e["k"] == "ts1" and up:
                s.append(("recover", {"lead": 0, "limit": 6}))
                up = False
        elif k == "up":
            o = {"hot": pending_hot} if pending_hot else {}
            pending_hot = 0
            s.append(("recover" if trained_once and s[-1][0] == "recover" else "train", o))
            s.append(("wait_up", 30))
            up = True
            trained_once = True
        elif k == "down":
            up = False
        elif not up:
            continue
        elif k == "hdr":
            s.append(("hdr", e["kind"], e["d"], {"gap": rng.choice([1, 2, 4])}))
        elif k == "lc":
            if not e["valid"]:
                s.append(("lc", P.LDN, 0, "crc"))
            elif e["cmd"] == P.LGOOD:
                if not before["t_bringup"]:
                    s.append(("lc", P.LGOOD, e["sub"] % 8))           # the partner's advertisement: any number
                else:
                    s.append(("lc", P.LGOOD, ("rel", (e["sub"] - before["t_nextAck"]) % 8)))
            elif e["cmd"] == P.LCRD:
                s.append(("lc", P.LCRD, ("rel", (e["sub"] - before["t_letter"]) % 4)))
            elif e["cmd"] in (P.LBAD, P.LRTY, P.LDN):
                s.append(("lc", e["cmd"], "ok"))
        elif k == "acc":
            s.append(("offer", {"limit": 12}))
        elif k == "consume":
            s.append(("consume", 1))
        elif k == "quiet":
            s.append(("quiet",))
        elif k == "tick":
            s.append(("wait", 1))
        elif k in ("txs", "txe", "hps", "hpe"):
            s.append(("wait", rng.choice([0, 1, 2])))
    if not up:
        s += [("train", {}), ("wait_up", 30)]
    s += [("wait", 20), ("quiet",)]
    return s


# =====================================================================================================
# The sub-checks
# =====================================================================================================
def _run(rep, prop, families, mc_names, sim_from=None, extra_assume=()):
    quick = rep.tier == "quick"
    t0 = time.time()
    rep.notes.append("ss_linklayer sub-check for %s: whole USB3LinkLayer (layer.py wiring) against LinkLayer.tla" % prop)
    rep.assume("ss_linklayer: ss clock scaled to 1 MHz (keep-alive 10, recovery 1000 cycles); TSEQ burst of Polling.RxEQ "
               "scaled from 65536 to 4 sets; the physical layer is a stub (bare signals) with the real CTCSkipInserter "
               "attached to the layer's transmit stream as USB3PhysicalLayer does")
    rep.assume("ss_linklayer: the partner starts U0 traffic only after the DUT reported link-up, sends a header that would "
               "be accepted only while it holds a credit, LRTY only after the DUT's LBAD, an LBAD / matching LGOOD only for "
               "a header it can have received; no partner packet word within 8 cycles before a warm reset; PHY stalls "
               "<= 2 cycles per word")
    rep.assume("ss_linklayer: latencies are free within the slacks %s (cycles); obligations are judged when the DUT has "
               "shown nothing but idle and keep-alives for 26 cycles" % SLACK)
    for a in extra_assume:
        rep.assume(a)
    # exhaustive part (and the behaviour generation) in the background while the real layer is simulated
    if not quick:
        mc_names = list(mc_names) + [n + "+" for n in mc_names]
    pool = ThreadPoolExecutor(max_workers=len(mc_names) + 1)
    futs = [pool.submit(model_check, n) for n in mc_names]
    fsim = None
    if sim_from:
        consts = dict(MC[sim_from][0], MaxRx=1000, MaxTx=1000, MaxEpochs=3, MaxRst=1)
        cfg = tlc.render_cfg(_cfg("MCLinkLayer_sim.cfg.tmpl"), consts)
        fsim = pool.submit(tlc.simulate, SPEC_DIR, "MCLinkLayer", cfg, 6 if quick else 100, 120, rep.seed * 7 + 1)
    bench = _bench()
    t1 = time.time()
    named = []
    for fname, fam in families:
        for name, script in fam(rep.rng, quick):
            named.append((fname, name, script))
    jobs = [(script, rep.seed * 100003 + i, 0.0) for i, (_f, _n, script) in enumerate(named)]
    results = run_scripts(jobs)
    # spec -> code: Env projections of TLC-simulated behaviours of the bounded model
    if fsim is not None:
        more = [("tlc-simulate", "beh-%d" % i, script_from_behaviour(b, rep.rng)) for i, b in enumerate(fsim.result())]
        jobs2 = [(script, rep.seed * 100003 + 5000 + i, 0.0) for i, (_f, _n, script) in enumerate(more)]
        results += run_scripts(jobs2)
        named += more
        jobs += jobs2
    t2 = time.time()
    items = []
    cycles = 0
    for (fam, name, script), (ev, info), job in zip(named, results, jobs):
        meta = {"family": fam, "scenario": name, "seed": job[1], "cycles": info["cycles"]}
        if info["aborted"]:
            raise tlc.TLCError("scenario %s did not finish within the cycle budget" % name)
        items.append((ev, meta))
        cycles += info["cycles"]
        for r in ev:
            e = r["e"]
            if e == "txe":
                rep.nontriv((prop, "txe", (r["lo"] >> 7) & 0xF, r["lo"] & 0xF))
            elif e in ("up", "down", "hpe", "hdr", "acc", "consume"):
                rep.nontriv((prop, e, fam))
            elif e in ("ts", "txph"):
                rep.nontriv((prop, e, r.get("k", r.get("ph")), r.get("hot")))
    rep.add_eval(cycles)
    rep.rule = rep.rule or ("real-gateware event traces validated by TLC; non-trivial = a link-state change, training event, "
                            "transmitted link command (by command / sub-type) or header event, per scenario family")
    rep.sample({"engine": ENGINE, "scenario": items[0][1], "first_events": items[0][0][:12]})
    n_ok = validate(rep, items, bench)
    t3 = time.time()
    for f in futs:
        name, res, consts = f.result()
        rep.add_mc("MCLinkLayer[%s]" % name, res, consts)
    pool.shutdown()
    rep.notes.append("ss_linklayer %s: %d scenarios (%d accepted), %d real cycles; wall: elaborate %.1fs, drive %.1fs, "
                     "validate %.1fs, model checking (parallel) done at %.1fs"
                     % (prop, len(items), n_ok, cycles, t1 - t0, t2 - t1, t3 - t2, time.time() - t0))


def extra_C41(rep):
    _run(rep, "C41", [("training", sc_training)], ["training"])


def extra_C38(rep):
    _run(rep, "C38", [("epochs", sc_epochs)], ["epochs"], sim_from="epochs")


def extra_C44(rep):
    _run(rep, "C44", [("timers", sc_timers), ("last_reception", sc_last_reception),
                      ("last_transmission", sc_last_transmission)], ["timers"],
         extra_assume=("ss_linklayer C44 reading: a header packet counts as received (restarts the 1 ms recovery time) when it "
                       "arrives with both CRCs good and the expected sequence number, also while the receiver discards "
                       "headers between its LBAD and the partner's LRTY; corrupted headers / link commands and headers "
                       "with an unexpected number do not count",))


def extra_C33(rep):
    _run(rep, "C33", [("flow", lambda rng, q: sc_flow(rng, q, n=6 if q else 40)), ("data", sc_data),
                      ("training", lambda rng, q: sc_training(rng, q)[:7])], ["flow_tx"])


def extra_C37(rep):
    _run(rep, "C37", [("flow", sc_flow)], ["flow_rx"], sim_from="flow_rx")


def extra_C39(rep):
    _run(rep, "C39", [("flow", sc_flow), ("retry_down", sc_retry_down)], ["flow_tx"], sim_from="flow_tx",
         extra_assume=("ss_linklayer: clean stimuli let a retransmission (LBAD .. LRTY .. all unacknowledged headers sent "
                       "again) finish before the link leaves U0; witness stimuli (family retry_down) reset the link or make "
                       "it recover in the middle of it (finding C39-retransmission-survives-link-down)",))


EXTRA = {"C33": extra_C33, "C37": extra_C37, "C38": extra_C38, "C39": extra_C39, "C41": extra_C41, "C44": extra_C44}
