------------------------------- MODULE LinkCrc -------------------------------
(***************************************************************************)
(* The two CRCs of the USB3 link layer, bit-serial exactly as in CRC.tla   *)
(* ([USB3.2 7.2.1.1.2 / 7.2.1.1.3 / 7.2.2.1]: W-bit register preloaded     *)
(* with ones; per wire bit: feedback = register MSB xor data bit, shift     *)
(* left, xor the polynomial if feedback; field = inverted register, MSB    *)
(* first) -- but with the register kept as an integer instead of a bit     *)
(* sequence, which TLC evaluates ~50x faster.  MCSsRx / MCSsTx ASSUME that *)
(* these agree with CRC.tla (all 2048 CRC-5 inputs, sample headers).       *)
(***************************************************************************)
EXTENDS Naturals, Sequences
LOCAL INSTANCE Bitwise

\* one shift of a W-bit register; H = 2^(W-1)
CrcStep(reg, bit, poly, H) ==
    LET fb == ((reg \div H) + bit) % 2
        s  == (reg % H) * 2
    IN IF fb = 1 THEN s ^^ poly ELSE s

\* feed the n low bits of v, least-significant first (wire order)
RECURSIVE CrcFeed(_, _, _, _, _)
CrcFeed(reg, v, n, poly, H) ==
    IF n = 0 THEN reg ELSE CrcFeed(CrcStep(reg, v % 2, poly, H), v \div 2, n - 1, poly, H)

\* the field: inverted register sent MSB first, as the integer whose bit 0 is the first bit sent
\* (RevBits(v, n, 0) = the n low bits of v in reverse order)
RECURSIVE RevBits(_, _, _)
RevBits(v, n, acc) == IF n = 0 THEN acc ELSE RevBits(v \div 2, n - 1, (acc * 2) + (v % 2))

\* CRC-5 (x^5 + x^2 + 1) over the 11 information bits of a link command word / link control word
LinkCrc5(v11) == RevBits(31 - CrcFeed(31, v11, 11, 5, 16), 5, 0)

\* CRC-16 (x^16 + x^12 + x^3 + x + 1) over DW0..DW2 given as six 16-bit limbs (low limb of DW0 first)
RECURSIVE FeedLimbs(_, _, _)
FeedLimbs(reg, limbs, k) ==
    IF k > Len(limbs) THEN reg ELSE FeedLimbs(CrcFeed(reg, limbs[k], 16, 4107, 32768), limbs, k + 1)
LinkCrc16(limbs6) == RevBits(65535 - FeedLimbs(65535, limbs6, 1), 16, 0)
=============================================================================
