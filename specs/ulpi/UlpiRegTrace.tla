---------------------------- MODULE UlpiRegTrace ----------------------------
(***************************************************************************)
(* Trace validation for UlpiReg.  Per-cycle records of the real            *)
(* UTMITranslator + PHY model; fields used: dir, nxt, txv, the ten control *)
(* inputs (xcvr, term, opm, susp, idpu, dppd, dmpd, dischrg, chrg,         *)
(* extvbus), do, oe, stp, and r4 / ra = the PHY model's register file as   *)
(* it stood at the start of the cycle (cross-check of the two PHY models). *)
(***************************************************************************)
EXTENDS UlpiReg, TLC, TLCExt, Json, IOUtils

Logs == JsonDeserialize(IOEnv.TRACE_FILE)

VARIABLES tid, l, status
tvars == <<gvars, tid, l, status>>

ASSUME \A i \in 1..Len(Logs) : TLCSet(i, <<0, "ok">>)

CtrlOf(r) == [xcvr |-> r.xcvr, term |-> r.term, opm |-> r.opm, susp |-> r.susp, idpu |-> r.idpu,
              dppd |-> r.dppd, dmpd |-> r.dmpd, dischrg |-> r.dischrg, chrg |-> r.chrg, extvbus |-> r.extvbus,
              x1 |-> r.x1, x2 |-> r.x2]
InOf(r)  == [dir |-> r.dir, nxt |-> r.nxt, txv |-> r.txv, c |-> CtrlOf(r)]
OutOf(r) == [do |-> r.do, oe |-> r.oe, stp |-> r.stp]

TInit == RegInit /\ tid \in 1..Len(Logs) /\ l = 1 /\ status = "ok"

\* A record with rst = 1 is a cycle in which the link's clock domain was reset (it is the first record of its
\* trace: the harness cuts traces there).  The PHY must be reset with the link (RESETB = rsto), and only then.
TNext == /\ status = "ok"
         /\ l <= Len(Logs[tid])
         /\ LET r == Logs[tid][l] IN
              IF r.rst = 1
              THEN /\ status' = IF r.rsto # 1 THEN "resetb_not_asserted_in_reset" ELSE "ok"
                   /\ UNCHANGED gvars
              ELSE /\ RegStep(InOf(r), OutOf(r))
                   /\ status' = IF r.rsto = 1 THEN "resetb_asserted_outside_reset"
                                ELSE IF ~LegalPhy(InOf(r)) THEN "env_illegal_phy"
                                ELSE IF r.r4 # phyReg[FunctionControlAddr] \/ r.ra # phyReg[OtgControlAddr]
                                        \/ (X1Addr # NoReg /\ r.p1 # phyReg[X1Addr]) \/ (X2Addr # NoReg /\ r.p2 # phyReg[X2Addr])
                                     THEN "env_phy_models_differ"
                                ELSE Failing(InOf(r), OutOf(r))
         /\ l' = l + 1
         /\ UNCHANGED tid

TSpec == TInit /\ [][TNext]_tvars

TraceProp == WritesCarryRequestedValue /\ ConvergesWithinBound /\ TransmitterNotStarved

Verdict == IF status # "ok" THEN status ELSE IF TraceProp THEN "ok" ELSE "prop_invariant"
\* a failing step stops the trace here, so the recorded verdict is not overwritten by later steps
Progress == TLCSet(tid, <<l - 1, Verdict>>) /\ Verdict = "ok"

Verdicts == JsonSerialize(IOEnv.VERDICT_FILE, [i \in 1..Len(Logs) |-> TLCGet(i)])
=============================================================================
