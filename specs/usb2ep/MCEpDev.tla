------------------------------- MODULE MCEpDev -------------------------------
(***************************************************************************)
(* Exhaustive model of the composition (C12, C14): NIn IN endpoints and    *)
(* NOut OUT endpoints numbered 1.., one further number with no endpoint    *)
(* behind it ("void"), a host that addresses any of them in any order --   *)
(* including while another endpoint's IN packet is un-ACKed --, arbitrary  *)
(* OUT toggles / sizes / corruption, every answer the reference relations  *)
(* allow, consumers, and CLEAR_FEATURE(ENDPOINT_HALT) naming every         *)
(* (number, direction) between any two transactions.                       *)
(* The control transfer is one atomic action here; EpTrace decodes the raw *)
(* SETUP / status stage on real traces (EpDev!DevData, DevHs).             *)
(***************************************************************************)
EXTENDS EpDev, TLC

CONSTANTS NIn, NOut,      \* endpoint numbers 1..NIn (IN), 1..NOut (OUT)
          MaxPkt, Depth,
          MaxStream,      \* bytes offered per IN endpoint
          MaxPackets,     \* OUT data packets in total
          MaxBad, MaxLost, MaxClear, MaxVoid

VARIABLES d, ev, npk, nbad, nlost, nclear, nvoid
vars == <<d, ev, npk, nbad, nlost, nclear, nvoid>>
cnt  == <<npk, nbad, nlost, nclear, nvoid>>

InEps  == 1..NIn
OutEps == 1..NOut
Numbers == 1..((IF NIn > NOut THEN NIn ELSE NOut) + 1)       \* the last one is void in both directions
Cfg == [ins  |-> [i \in InEps  |-> [n |-> i, max |-> MaxPkt]],
        outs |-> [i \in OutEps |-> [n |-> i, max |-> MaxPkt, depth |-> Depth]],
        opq  |-> <<>>]

Init == /\ d = DevInit(Cfg) /\ ev = [e |-> "init", dir |-> "none", ep |-> 0]
        /\ npk = 0 /\ nbad = 0 /\ nlost = 0 /\ nclear = 0 /\ nvoid = 0

\* nobody owes an answer (the host waits for the answer or its time-out before going on)
Quiet == /\ \A e \in InEps  : d.ins[e].ph # "tok"
         /\ \A e \in OutEps : d.outs[e].ph \notin {"data", "ping"}

Beat == \E e \in InEps, l \in BOOLEAN :
          /\ Len(d.ins[e].off) < MaxStream
          /\ InPend(d.ins[e]) < 2 * MaxPkt
          /\ d' = DevBeat(d, e, 10 * e + Len(d.ins[e].off) + 1, l).d
          /\ ev' = [e |-> "beat", dir |-> "in", ep |-> e]
          /\ UNCHANGED cnt

Token == /\ Quiet
         /\ \E pid \in {"IN", "OUT", "PING"}, n \in Numbers :
              /\ (d.bus.k = "out" /\ d.outs[d.bus.ep].ph = "out") => FALSE     \* an OUT token is followed by its data
              /\ LET void == (pid = "IN" /\ n \notin InEps) \/ (pid # "IN" /\ n \notin OutEps) IN
                 /\ (void => nvoid < MaxVoid)
                 /\ nvoid' = IF void THEN nvoid + 1 ELSE nvoid
              /\ (pid = "OUT" /\ n \in OutEps => npk < MaxPackets)
              /\ d' = DevTok(d, Cfg, pid, n).d
              /\ ev' = [e |-> "tok", dir |-> IF pid = "IN" THEN "in" ELSE "out", ep |-> n, pid |-> pid]
         /\ UNCHANGED <<npk, nbad, nlost, nclear>>

Data == /\ d.bus.k = "out" /\ d.outs[d.bus.ep].ph = "out"
        /\ \E pid \in {0, 1}, n \in 0..MaxPkt, ok \in BOOLEAN :
              /\ (~ok => nbad < MaxBad)
              /\ nbad' = IF ok THEN nbad ELSE nbad + 1
              /\ d' = DevData(d, Cfg, pid, [i \in 1..n |-> 4 * npk + i], ok).d
              /\ ev' = [e |-> "data", dir |-> "out", ep |-> d.bus.ep, pid |-> pid, ok |-> ok]
        /\ npk' = npk + 1
        /\ UNCHANGED <<nlost, nclear, nvoid>>

RespIn == /\ d.bus.k = "in" /\ d.ins[d.bus.ep].ph = "tok"
          /\ LET e == d.bus.ep  s == d.ins[e] IN
             \/ \E n \in InAllowedLens(s, MaxPkt) :
                   LET r == [k |-> "data", pid |-> s.tog, payload |-> InBytes(s, s.done, n), ok |-> TRUE] IN
                   /\ DevResp(d, Cfg, r).st = "ok"
                   /\ d' = DevResp(d, Cfg, r).d
                   /\ ev' = [e |-> "resp", dir |-> "in", ep |-> e, k |-> "data", pid |-> s.tog]
             \/ /\ InNakAllowed(s)
                /\ d' = DevResp(d, Cfg, [k |-> "nak", pid |-> 0, payload |-> <<>>, ok |-> TRUE]).d
                /\ ev' = [e |-> "resp", dir |-> "in", ep |-> e, k |-> "nak", pid |-> 0]
          /\ UNCHANGED cnt

RespOut == /\ d.bus.k = "out" /\ d.outs[d.bus.ep].ph \in {"data", "ping"}
           /\ LET e == d.bus.ep  s == d.outs[e] IN
              \E k \in OutAllowed(s, MaxPkt, Depth) :
                 LET r == [k |-> k, pid |-> 0, payload |-> <<>>, ok |-> TRUE] IN
                 /\ d' = DevResp(d, Cfg, r).d
                 /\ ev' = [e |-> "resp", dir |-> "out", ep |-> e, k |-> k,
                           newdata |-> (s.ph = "data" /\ s.dok /\ s.dpid = s.exp)]
           /\ UNCHANGED cnt

Hs == /\ d.bus.k = "in" /\ d.ins[d.bus.ep].ph = "sent"
      /\ \E ack \in BOOLEAN, hrx \in BOOLEAN :
            /\ (ack => hrx)
            /\ (~ack => nlost < MaxLost)
            /\ nlost' = IF ack THEN nlost ELSE nlost + 1
            /\ d' = DevHs(d, Cfg, ack, hrx).d
            /\ ev' = [e |-> "hs", dir |-> "in", ep |-> d.bus.ep, ack |-> ack]
      /\ UNCHANGED <<npk, nbad, nclear, nvoid>>

Pop == \E e \in OutEps :
         /\ d.outs[e].q \o d.outs[e].tent # <<>>
         /\ LET x == (d.outs[e].q \o d.outs[e].tent)[1] IN
              /\ DevPop(d, e, x).st = "ok"
              /\ d' = DevPop(d, e, x).d
         /\ ev' = [e |-> "pop", dir |-> "out", ep |-> e]
         /\ UNCHANGED cnt

\* a whole CLEAR_FEATURE(ENDPOINT_HALT) control transfer naming (n, dir), completed
Clear == /\ Quiet /\ nclear < MaxClear
         /\ ~(d.bus.k = "out" /\ d.outs[d.bus.ep].ph = "out")
         /\ \E n \in Numbers, dir \in {"in", "out"} :
              /\ d' = [DevClear(AbortAll(d), n, dir) EXCEPT !.bus = [k |-> "none", ep |-> 0]]
              /\ ev' = [e |-> "clear", dir |-> dir, ep |-> n]
         /\ nclear' = nclear + 1
         /\ UNCHANGED <<npk, nbad, nlost, nvoid>>

Next == Beat \/ Token \/ Data \/ RespIn \/ RespOut \/ Hs \/ Pop \/ Clear
Spec == Init /\ [][Next]_vars

-----------------------------------------------------------------------------
Inv == DevInv(d, Cfg)

Owns(e, dir) == ev'.dir = dir /\ ev'.ep = e

(* C14 *)
\* an IN toggle changes only by one flip at the host's ACK of that endpoint's packet, or to DATA0 by a
\* CLEAR_FEATURE naming exactly (number, IN)
InToggleSteps ==
    [][\A e \in InEps :
         d'.ins[e].tog # d.ins[e].tog =>
            \/ (ev'.e = "hs" /\ ev'.ack /\ Owns(e, "in") /\ d.ins[e].ph = "sent")
            \/ (ev'.e = "clear" /\ Owns(e, "in") /\ d'.ins[e].tog = 0)]_vars
\* ... and every such ACK does flip it
InAckFlips ==
    [][\A e \in InEps :
         (ev'.e = "hs" /\ ev'.ack /\ Owns(e, "in") /\ d.ins[e].ph = "sent") => d'.ins[e].tog = 1 - d.ins[e].tog]_vars
OutToggleSteps ==
    [][\A e \in OutEps :
         d'.outs[e].exp # d.outs[e].exp =>
            \/ (ev'.e = "resp" /\ ev'.k = "ack" /\ ev'.newdata /\ Owns(e, "out"))
            \/ (ev'.e = "clear" /\ Owns(e, "out") /\ d'.outs[e].exp = 0)]_vars
OutAckFlips ==
    [][\A e \in OutEps :
         (ev'.e = "resp" /\ ev'.k = "ack" /\ ev'.newdata /\ Owns(e, "out")) => d'.outs[e].exp = 1 - d.outs[e].exp]_vars
\* a completed CLEAR_FEATURE resets the named endpoint and no other
ClearExact ==
    [][ev'.e = "clear" =>
         /\ \A e \in InEps  : d'.ins[e].tog  = IF Owns(e, "in")  THEN 0 ELSE d.ins[e].tog
         /\ \A e \in OutEps : d'.outs[e].exp = IF Owns(e, "out") THEN 0 ELSE d.outs[e].exp]_vars

(* C12 *)
\* an action that is not this endpoint's own leaves what it will send / deliver / expect untouched
NonInterference ==
    [][/\ \A e \in InEps  : ~Owns(e, "in")  => InEss(d'.ins[e])   = InEss(d.ins[e])
       /\ \A e \in OutEps : ~Owns(e, "out") => OutEss(d'.outs[e]) = OutEss(d.outs[e])]_vars
\* a token to a number/direction nobody listens to is never answered
VoidSilent == d.bus.k = "void" => /\ \A e \in InEps  : d.ins[e].ph # "tok"
                                  /\ \A e \in OutEps : d.outs[e].ph = "idle"
=============================================================================
