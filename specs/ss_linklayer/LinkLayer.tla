----------------------------- MODULE LinkLayer -----------------------------
(***************************************************************************)
(* The USB3 link layer as a COMPOSITION (luna ... usb3/link/layer.py,      *)
(* USB3LinkLayer): link training state machine + training-set unit + idle  *)
(* handshake + U0 link timers + header receiver + header transmitter, as   *)
(* seen from outside: at the PHY-facing word streams and at the protocol-  *)
(* facing header queues.  The units have their own specifications (C35-C44 *)
(* at unit level); this module specifies what their WIRING must achieve,   *)
(* at EVENT grain, from [USB3.2 7.2.4, 7.3, 7.5] and the property texts of *)
(* C33, C37, C38, C39, C41, C44.                                           *)
(*                                                                         *)
(* One step = one event record r; r.dt = clock cycles since the previous   *)
(* record (explicit time, event-compressed).                               *)
(*                                                                         *)
(*  Env  (link partner / PHY)                                              *)
(*    rst(on)        warm-reset signalling starts / stops                  *)
(*    det, lfps      receiver detected, polling LFPS burst received        *)
(*    ts(k,hot,..)   eight consecutive TS1 / TS2 sets were delivered       *)
(*    pidle          the partner sends logical idle from now on            *)
(*    hdr(kind,d,c)  a header packet arrived (good / CRC-5 / CRC-16 bad,   *)
(*                   sequence offset d, content c)                         *)
(*    lc(valid,cmd,sub)  a link command word arrived                       *)
(*  Env  (protocol layer) -- the handshakes are observed, the offers are   *)
(*                   the environment's                                     *)
(*    acc(c)         a header offered on header_sink was taken             *)
(*    consume(c)     the header offered on header_source was taken         *)
(*  Dut  (observable reactions; Ref says which are legal)                  *)
(*    up / down      `trained` rises / falls                               *)
(*    txph(ph,hot)   what the transmitter visibly does changes: electrical *)
(*                   idle, polling LFPS, TSEQ, TS1, TS2 (hot = Hot Reset   *)
(*                   bit set), logical idle                                *)
(*    txs, txe(..)   a link command starts / its command word went out     *)
(*    hps, hpe(..)   a header packet starts / its last word went out       *)
(*    dps, dpe       a data packet payload starts / ends                   *)
(*    (Env) dp_offer the protocol layer presents a data packet on data_sink *)
(*    tx_abort       electrical idle began in the middle of a unit         *)
(*    quiet(..)      nothing but idle and keep-alives for a long time      *)
(*  every transmitted unit reports cs / sk = how many of its words were    *)
(*  flagged "SKP may replace this word" / were replaced by a SKP set, and  *)
(*  ns = idle filler words since the previous unit that were NOT flagged.  *)
(*                                                                         *)
(* Ref = link state `lk` (up/down, what the partner and the DUT have done  *)
(* since the last reset / since training was (re-)entered, cycles since    *)
(* the last transmitted / received link traffic) composed with the header  *)
(* flow-control obligations of SsRx (C37, C38) and SsTx (C39) -- the very  *)
(* modules of engine ss_linkb, INSTANCEd, not re-derived:                  *)
(*    up    = Rx!LinkUp  /\ Tx!LinkUp        down = Rx!LinkDown /\ Tx!LinkDown *)
(*    LBAD received  = Tx!PartnerLbad ; (Tx!RetryReq /\ Rx!RetryReq)       *)
(*    our LRTY sent  = Rx!TxEndFresh(LRTY) /\ Tx!LrtyDone                  *)
(*    keep-alive     = timer-driven Rx!KeepaliveReq ; Rx!TxEndFresh(LUP)   *)
(*    hot / warm reset = Rx!UsbReset / Rx!LinkDown(TRUE)                   *)
(* The internal strobes (retry_required, lrty_pending, schedule_keepalive, *)
(* usb_reset, enable) are NOT observed: they are the wiring under test.    *)
(* Steps the composition takes without an observable record are kept in    *)
(* `todo` and taken before the next record.                                *)
(*                                                                         *)
(* Prop: Judge(r) names the first clause a record violates; the theorems   *)
(* at the end are checked by TLC on every reachable state of the bounded   *)
(* model and on every state of every observed execution.                   *)
(***************************************************************************)
EXTENDS Naturals, Sequences

CONSTANTS NBuf,        \* header buffers / credits per direction (4)
          K,           \* keep-alive interval in cycles   (10 us)       [USB3.2 7.5.6.1]
          R,           \* recovery time-out in cycles      (1 ms)
          KaEarly,     \* a keep-alive may start this many cycles before K
          KaSlack,     \* ... and must have started K + KaSlack cycles after the last link command (idle stream)
          RecSlack,    \* link must have left U0 R + RecSlack cycles after the last reception
          DownSlack,   \* a header taken at most this many cycles after `down` was offered before it
          RstSlack,    \* `trained` falls within RstSlack cycles of a warm reset
          TsSlack,     \* ... and within TsSlack cycles of eight TS1 sets received in U0
          TCap         \* counters saturate here (model: small; traces: above every threshold)

VARIABLES
    \* ---- SsRx (receive-side flow control), prefix r_
    r_enabled, r_expSeq, r_pendRst, r_buf, r_acks, r_advPending, r_credOwed, r_nextCred, r_adv, r_ignore,
    r_lbadOwed, r_lrtyOwed, r_lrtyMay, r_kaOwed, r_kaMay, r_cur, r_ev, r_gAcc, r_gDel, r_gGood, r_gAdv, r_gCred,
    r_gRecov,
    \* ---- SsTx (transmit-side flow control), prefix t_
    t_enabled, t_bringup, t_credits, t_letter, t_txSeq, t_nextAck, t_unacked, t_rp, t_resend, t_dn, t_lbadSeen,
    t_limbo, t_recovOwed, t_cur, t_ev, t_gCredRx, t_gAccepted,
    \* ---- the link itself
    lk,          \* record, see LkInit
    todo,        \* internal steps still to be taken before the next record
    ev           \* the record that led to this state (behaviour generation / replay)

Rx == INSTANCE SsRx WITH enabled <- r_enabled, expSeq <- r_expSeq, pendRst <- r_pendRst, buf <- r_buf,
        acks <- r_acks, advPending <- r_advPending, credOwed <- r_credOwed, nextCred <- r_nextCred, adv <- r_adv,
        ignore <- r_ignore, lbadOwed <- r_lbadOwed, lrtyOwed <- r_lrtyOwed, lrtyMay <- r_lrtyMay,
        kaOwed <- r_kaOwed, kaMay <- r_kaMay, cur <- r_cur, ev <- r_ev, gAcc <- r_gAcc, gDel <- r_gDel,
        gGood <- r_gGood, gAdv <- r_gAdv, gCred <- r_gCred, gRecov <- r_gRecov

Tx == INSTANCE SsTx WITH enabled <- t_enabled, bringup <- t_bringup, credits <- t_credits, letter <- t_letter,
        txSeq <- t_txSeq, nextAck <- t_nextAck, unacked <- t_unacked, rp <- t_rp, resend <- t_resend, dn <- t_dn,
        lbadSeen <- t_lbadSeen, limbo <- t_limbo, recovOwed <- t_recovOwed, cur <- t_cur, ev <- t_ev,
        gCredRx <- t_gCredRx, gAccepted <- t_gAccepted

rxv == <<r_enabled, r_expSeq, r_pendRst, r_buf, r_acks, r_advPending, r_credOwed, r_nextCred, r_adv, r_ignore,
         r_lbadOwed, r_lrtyOwed, r_lrtyMay, r_kaOwed, r_kaMay, r_cur, r_ev, r_gAcc, r_gDel, r_gGood, r_gAdv,
         r_gCred, r_gRecov>>
txv == <<t_enabled, t_bringup, t_credits, t_letter, t_txSeq, t_nextAck, t_unacked, t_rp, t_resend, t_dn,
         t_lbadSeen, t_limbo, t_recovOwed, t_cur, t_ev, t_gCredRx, t_gAccepted>>
\* everything of SsTx but the header packet in flight
txvNoCur == <<t_enabled, t_bringup, t_credits, t_letter, t_txSeq, t_nextAck, t_unacked, t_rp, t_resend, t_dn,
              t_lbadSeen, t_limbo, t_recovOwed, t_ev, t_gCredRx, t_gAccepted>>
vars == <<rxv, txv, lk, todo, ev>>

LGOOD == 0    LCRD == 1    LRTY == 2    LBAD == 3    LUP == 8    LDN == 11
Min(a, b) == IF a < b THEN a ELSE b
Sat(n) == Min(n, TCap)

Phases == {"EI", "LFPS", "TSEQ", "TS1", "TS2", "LI", "TSX", "NONE"}

-----------------------------------------------------------------------------
(* The link state.                                                          *)
LkInit == [
    up      |-> FALSE,    \* `trained`
    rst     |-> FALSE,    \* warm-reset signalling present
    sRst    |-> Min(RstSlack + 1, TCap),      \* cycles since it started
    sDown   |-> Min(DownSlack + 1, TCap),     \* cycles since `down`
    ph      |-> "NONE",   \* what the transmitter visibly does
    phHot   |-> FALSE,    \* ... with the Hot Reset bit in its TS2 sets
    \* since the last reset / fall-back to electrical idle
    det     |-> FALSE,    \* the partner's receiver was detected
    lfps    |-> FALSE,    \* polling LFPS (or, loosened, TS1) received while we were polling
    \* since training was (re-)entered (Polling.Active, Recovery.Active)
    pTs2    |-> FALSE,    \* eight TS2 received while we sent TS1 / TS2
    dTs2    |-> FALSE,    \* we sent TS2
    pHot    |-> FALSE,    \* a received TS2 group carried the Hot Reset bit
    dHot    |-> FALSE,    \* we answered with the Hot Reset bit in our TS2
    pIdling |-> FALSE,    \* the partner has been sending logical idle since its last other word
    \* U0 timers: cycles since the last link command word we sent / since the last reception
    ks      |-> 0,
    rs      |-> 0,
    rarmed  |-> FALSE,    \* rs is meaningful (the recovery timer runs: the link is up)
    ts1Req  |-> 0,        \* > 0: cycles since eight TS1 sets arrived in U0 (recovery requested by the partner)
    busy    |-> "none",   \* unit on the wire: none | lc | hp | dp
    \* A link command / header packet that was committed when the link left U0 and lost the wire to the training
    \* sets is not withdrawn: it may still come out while the link is down (at most one of each; the properties do
    \* not speak about it).  TRUE = that one has not been seen yet.
    staleLc |-> FALSE,
    staleHp |-> FALSE,
    dpPend  |-> FALSE,    \* the protocol layer presented a data packet whose header has not been queued yet
    dpHdr   |-> FALSE,    \* the header packet last completed was a data packet header: its payload may follow
    \* ghosts of the current U0 epoch
    gFirst  |-> "none",   \* first thing we transmitted: none | adv (LGOOD advertisement) | other
    gDownTx |-> 0,        \* units started / headers delivered while the link was down beyond DownSlack (never)
    gSkp    |-> 0         \* words of link commands / packets / training sets that a SKP could replace (never)
  ]

\* dt cycles pass.  A counter is only kept up to the point where it has passed every threshold it is compared with
\* (and not at all if that threshold lies beyond TCap, i.e. the timer is switched off in this model).
Adv(k, dt) == [k EXCEPT !.sRst   = Min(@ + dt, Min(RstSlack + 1, TCap)),
                        !.sDown  = Min(@ + dt, Min(DownSlack + 1, TCap)),
                        !.ks     = IF K + KaSlack < TCap THEN Min(@ + dt, K + KaSlack + 1) ELSE 0,
                        !.rs     = IF R + RecSlack < TCap THEN Min(@ + dt, R + RecSlack + 1) ELSE 0,
                        !.ts1Req = IF @ > 0 THEN Min(@ + dt, Min(TsSlack + 2, TCap)) ELSE 0]

\* what has to be the case after dt more cycles, whatever happens then (lateness)
RecentRst(k) == k.rst \/ k.sRst <= RstSlack
LateJudge(k) ==        \* k = link state with time already advanced
    IF k.up /\ k.rst /\ RstSlack < TCap /\ k.sRst > RstSlack THEN "reset_link_ready"
    ELSE IF k.up /\ TsSlack + 2 <= TCap /\ k.ts1Req > TsSlack + 1 THEN "recovery_request_ignored"
    ELSE IF k.up /\ k.rarmed /\ R + RecSlack < TCap /\ k.rs > R + RecSlack THEN "recovery_late"
    ELSE IF k.up /\ k.busy = "none" /\ K + KaSlack < TCap /\ k.ks > K + KaSlack THEN "keepalive_late"
    ELSE "ok"

\* the partner did everything a link needs: it must come (have come) up
HandshakeDone(k) == ~k.rst /\ k.det /\ k.lfps /\ k.pTs2 /\ k.pIdling /\ (k.pHot => k.dHot)

UpJudge(k) ==
    IF k.up THEN "up_while_up"
    ELSE IF k.rst THEN "reset_link_ready"
    ELSE IF ~k.det THEN "up_without_partner_detected"
    ELSE IF ~k.lfps THEN "up_without_lfps_exchange"
    ELSE IF ~k.pTs2 THEN "up_without_ts2_received"
    ELSE IF ~k.dTs2 THEN "up_without_ts2_sent"
    ELSE IF k.ph \notin {"LI", "TS2"} THEN "up_without_sending_idle"     \* (TS2: a stale unit cut the idle run short)
    ELSE IF ~k.pIdling THEN "up_without_idle_received"
    ELSE IF k.pHot /\ ~k.dHot THEN "hot_reset_ignored"
    ELSE "ok"

\* why the link may leave U0
DownJudge(k) ==
    IF ~k.up THEN "down_while_down"
    ELSE IF RecentRst(k) \/ k.ts1Req > 0 THEN "ok"
    ELSE IF t_recovOwed \/ r_gRecov THEN "ok"                 \* lost header / credit synchronisation [7.2.4.1.5]
    ELSE IF ~k.rarmed THEN "ok"
    ELSE IF k.rs >= R THEN "ok"                               \* 1 ms without reception
    ELSE "link_down_without_cause"

-----------------------------------------------------------------------------
(* Judging a record: name of the first violated clause, or "ok".            *)
(* (Env clauses are named env_*: the stimulus left the assumptions.)        *)
SkpJudge(r) == IF r.cs > 0 \/ r.sk > 0 THEN "skp_replaces_non_idle_word" ELSE "ok"
NsJudge(r)  == IF r.ns > 0 THEN "skp_opportunity_withheld" ELSE "ok"

First2(a, b) == IF a # "ok" THEN a ELSE b
First3(a, b, c) == First2(a, First2(b, c))

\* (k = the link state with r.dt cycles added; passed as an argument so that TLC evaluates it once)
JudgeK(k, r) ==
  IF LateJudge(k) # "ok" THEN LateJudge(k) ELSE
  CASE r.e = "tick"  -> "ok"
    [] r.e = "rst"   -> IF r.on = k.rst THEN "env_rst_level" ELSE "ok"
    [] r.e = "det"   -> "ok"
    [] r.e = "lfps"  -> "ok"
    [] r.e = "ts"    -> IF k.up /\ r.k # "ts1" THEN "env_ts2_in_u0" ELSE "ok"
    [] r.e = "pidle" -> "ok"
    [] r.e = "hdr"   -> IF ~k.up THEN "env_hdr_while_down"
                        ELSE IF Rx!HdrLegal(r.kind, r.d) THEN "ok" ELSE "env_hdr_illegal"
    [] r.e = "lc"    -> IF ~k.up THEN "env_lc_while_down"
                        ELSE IF ~r.valid THEN "ok"
                        ELSE IF r.cmd = LGOOD THEN (IF Tx!LgoodLegal(r.sub % 8) THEN "ok" ELSE "env_lgood_illegal")
                        ELSE IF r.cmd = LCRD THEN (IF r.sub < NBuf /\ Tx!LcrdLegal(r.sub) THEN "ok"
                                                   ELSE "env_lcrd_illegal")
                        ELSE IF r.cmd = LBAD THEN (IF Tx!LbadLegal THEN "ok" ELSE "env_lbad_illegal")
                        ELSE IF r.cmd = LRTY THEN (IF r_lbadOwed THEN "env_lrty_illegal" ELSE "ok")
                        ELSE "ok"
    [] r.e = "dp_offer" -> IF ~k.up THEN "env_data_while_down" ELSE IF k.dpPend THEN "env_data_overlap" ELSE "ok"
    \* (a header taken in the very cycle the link drops is dropped with everything else that was queued)
    [] r.e = "acc"   -> IF k.dpPend THEN "env_offer_during_data_packet"
                        ELSE IF ~k.up /\ k.sDown = 0 THEN "ok" ELSE Tx!AcceptJudge
    [] r.e = "consume" ->
                        IF r_buf = <<>> THEN "consume_nothing_buffered"
                        ELSE IF Head(r_buf).c # r.c THEN "consume_wrong_header"
                        ELSE IF ~k.up /\ k.sDown > DownSlack THEN "header_delivered_while_down"
                        ELSE "ok"
    [] r.e = "up"    -> UpJudge(k)
    [] r.e = "down"  -> DownJudge(k)
    [] r.e = "txph"  -> IF k.up /\ r.ph # "LI" THEN "training_while_link_ready" ELSE "ok"
    [] r.e = "txs"   -> IF k.busy # "none" \/ r_cur # "none" THEN "tx_overlap"
                        ELSE IF ~k.up /\ ~k.staleLc THEN "link_command_while_down"
                        ELSE NsJudge(r)
    [] r.e = "txe"   -> IF k.busy # "lc" \/ r_cur = "none" THEN "tx_without_start"
                        ELSE IF SkpJudge(r) # "ok" THEN SkpJudge(r)
                        ELSE IF ~r.valid THEN "tx_malformed"
                        ELSE IF r_cur = "stale_up" THEN "ok"
                        ELSE IF r_cur = "stale" THEN (IF r_enabled THEN "stale_command_after_up" ELSE "ok")
                        ELSE IF r.cmd = LUP /\ ~r_kaMay THEN "keepalive_early"          \* (see KaDue)
                        ELSE Rx!TxJudge(r.cmd, r.sub)
    [] r.e = "hps"   -> IF k.busy # "none" \/ t_cur.k # "none" THEN "tx_overlap"
                        ELSE IF NsJudge(r) # "ok" THEN NsJudge(r)
                        ELSE IF ~k.up THEN (IF k.staleHp THEN "ok" ELSE "header_while_down")
                        ELSE IF r_advPending THEN "header_before_advertisement"
                        ELSE Tx!HpStartJudge
    [] r.e = "hpe"   -> IF k.busy # "hp" THEN "hp_without_start"
                        ELSE IF SkpJudge(r) # "ok" THEN SkpJudge(r)
                        ELSE IF ~r.ok THEN "hp_malformed"
                        ELSE Tx!HpEndJudge(r.s, r.dl, r.c)
    [] r.e = "dps"   -> IF k.busy # "none" THEN "tx_overlap"
                        ELSE IF ~k.dpHdr THEN "payload_without_data_header"
                        ELSE NsJudge(r)
    [] r.e = "dpe"   -> IF k.busy # "dp" THEN "dp_without_start" ELSE SkpJudge(r)
    [] r.e = "tx_abort" -> IF k.up THEN "training_while_link_ready" ELSE "ok"   \* electrical idle cut a unit short
    [] r.e = "ts_skp" -> "skp_replaces_non_idle_word"
    [] r.e = "tx_other" -> "tx_garbage_in_u0"
    [] r.e = "quiet" -> IF NsJudge(r) # "ok" THEN NsJudge(r)
                        ELSE IF k.busy # "none" THEN "quiet_unit_unfinished"
                        ELSE IF ~k.up THEN (IF HandshakeDone(k) THEN "link_not_up_after_handshake"
                                            ELSE IF r.qv THEN "header_offered_while_down"
                                            ELSE IF r.qr THEN "header_accepted_while_down"
                                            ELSE First2(Rx!QuietJudge, Tx!QuietJudge))
                        ELSE IF r_gRecov \/ t_recovOwed THEN "quiet_recovery_missing"
                        ELSE IF Rx!QuietJudge # "ok" THEN Rx!QuietJudge
                        ELSE IF Tx!QuietJudge # "ok" THEN Tx!QuietJudge
                        ELSE IF r.qv # (r_buf # <<>>) THEN "quiet_queue_valid"
                        \* (header_sink sits behind the header arbiter: ready may be low while nothing is offered)
                        ELSE IF r.qr /\ ~Tx!ReadyExpected THEN "quiet_queue_ready"
                        ELSE "ok"
    [] OTHER -> "unknown_record"

\* The keep-alive timer: a keep-alive (LUP) is requested once no link command has gone out for K - KaEarly cycles
\* (an internal step -- schedule_keepalive is not observable; it is taken right before the record of the next link
\* command start, whatever command that is: the request stays pending until the LUP went out); it must have started
\* K + KaSlack cycles after the last link command unless another unit holds the wire (LateJudge).
KaDue(k) == k.up /\ ~r_kaMay /\ k.ks + KaEarly >= K

-----------------------------------------------------------------------------
(* Applying a record (only when Judge(r) = "ok").                           *)
ClearTraining(k) == [k EXCEPT !.pTs2 = FALSE, !.dTs2 = FALSE, !.pHot = FALSE, !.dHot = FALSE]

ApplyK(k, r) ==
  /\ ev' = r
  /\ CASE r.e = "tick"  -> lk' = k /\ UNCHANGED <<rxv, txv, todo>>
       [] r.e = "rst"   ->
            /\ lk' = IF ~r.on THEN [k EXCEPT !.rst = FALSE]
                     ELSE IF k.up THEN [k EXCEPT !.rst = TRUE, !.sRst = 0]           \* (the rest at "down")
                     ELSE [ClearTraining(k) EXCEPT !.rst = TRUE, !.sRst = 0, !.det = FALSE, !.lfps = FALSE]
            /\ IF r.on /\ ~r_enabled THEN Rx!UsbReset ELSE UNCHANGED rxv     \* (while up: see "down")
            /\ UNCHANGED <<txv, todo>>
       [] r.e = "det"   -> lk' = [k EXCEPT !.det = ~k.rst] /\ UNCHANGED <<rxv, txv, todo>>
       [] r.e = "lfps"  -> lk' = [k EXCEPT !.lfps = @ \/ (k.ph = "LFPS" /\ ~k.rst)] /\ UNCHANGED <<rxv, txv, todo>>
       [] r.e = "ts"    ->
            /\ lk' = IF k.up THEN [k EXCEPT !.ts1Req = IF @ > 0 THEN @ ELSE 1, !.pIdling = FALSE]
                     ELSE [k EXCEPT !.pIdling = FALSE,
                                    !.lfps = @ \/ (k.ph = "LFPS" /\ ~k.rst /\ r.k \in {"ts1", "its1"}),
                                    !.pTs2 = @ \/ (r.k = "ts2" /\ k.ph \in {"TS1", "TS2"}),
                                    !.pHot = @ \/ (r.k = "ts2" /\ r.hot /\ k.ph \in {"TS1", "TS2"})]
            /\ UNCHANGED <<rxv, txv, todo>>
       [] r.e = "pidle" -> lk' = [k EXCEPT !.pIdling = TRUE] /\ UNCHANGED <<rxv, txv, todo>>
       [] r.e = "hdr"   ->
            /\ Rx!HdrArrive(r.kind, r.d, r.c)
            \* C44 "1 ms without any received link command or header packet": a header packet is received when it
            \* arrives intact (both CRCs good) with the number the receiver expects -- whether or not the flow control
            \* then keeps it (it is discarded while the receiver ignores packets between its LBAD and the partner's
            \* LRTY: the link is alive all the same).  A corrupted header, or one with an unexpected number, is not a
            \* reception: the time keeps running from the last intact one.
            /\ lk' = IF r.kind = "good" /\ r.d = 0 THEN [k EXCEPT !.rs = 0, !.rarmed = TRUE] ELSE k
            /\ UNCHANGED <<txv, todo>>
       [] r.e = "lc"    ->
            /\ lk' = IF r.valid THEN [k EXCEPT !.rs = 0, !.rarmed = TRUE] ELSE k
            /\ IF ~r.valid THEN UNCHANGED <<rxv, txv, todo>>
               ELSE IF r.cmd = LGOOD THEN Tx!PartnerLgood(r.sub % 8) /\ UNCHANGED <<rxv, todo>>
               ELSE IF r.cmd = LCRD THEN Tx!PartnerLcrd(r.sub) /\ UNCHANGED <<rxv, todo>>
               ELSE IF r.cmd = LBAD THEN Tx!PartnerLbad /\ todo' = Append(todo, "retry") /\ UNCHANGED rxv
               ELSE IF r.cmd = LRTY THEN Rx!PartnerLrty /\ UNCHANGED <<txv, todo>>
               ELSE UNCHANGED <<rxv, txv, todo>>
       [] r.e = "dp_offer" -> lk' = [k EXCEPT !.dpPend = TRUE] /\ UNCHANGED <<rxv, txv, todo>>
       [] r.e = "acc"   -> (IF k.up THEN Tx!Accept(r.c) ELSE UNCHANGED txv) /\ lk' = k /\ UNCHANGED <<rxv, todo>>
       [] r.e = "consume" -> Rx!Consume /\ lk' = k /\ UNCHANGED <<txv, todo>>
       [] r.e = "up"    ->
            /\ Rx!LinkUp /\ Tx!LinkUp
            /\ lk' = [k EXCEPT !.up = TRUE, !.ks = 0, !.rs = 0, !.rarmed = TRUE, !.ts1Req = 0, !.gFirst = "none",
                               !.staleLc = FALSE, !.staleHp = FALSE]
            /\ UNCHANGED todo
       [] r.e = "down"  ->
            /\ Rx!LinkDown(RecentRst(k)) /\ Tx!LinkDown
            /\ lk' = [ClearTraining(k) EXCEPT !.up = FALSE, !.sDown = 0, !.ts1Req = 0, !.rarmed = FALSE,
                                              !.staleLc = (k.busy # "lc"), !.staleHp = (k.busy # "hp"),
                                              !.dpPend = FALSE,
                                              !.det = @ /\ ~RecentRst(k), !.lfps = @ /\ ~RecentRst(k)]
            /\ todo' = <<>>
       [] r.e = "txph"  ->
            /\ lk' = LET k1 == [k EXCEPT !.ph = r.ph, !.phHot = r.hot] IN
                     IF r.ph = "TS1" THEN ClearTraining(k1)                       \* Polling.Active / Recovery.Active
                     ELSE IF r.ph = "TS2" /\ r.hot THEN [k1 EXCEPT !.dTs2 = TRUE, !.dHot = TRUE, !.pTs2 = FALSE]
                     ELSE IF r.ph = "TS2" THEN [k1 EXCEPT !.dTs2 = TRUE]
                     ELSE IF r.ph \in {"EI", "LFPS"} THEN
                          [ClearTraining(k1) EXCEPT !.det = @ /\ r.ph = "LFPS", !.lfps = @ /\ r.ph = "LFPS"]
                     ELSE k1
            \* announcing Hot Reset is a USB reset for the header sequence numbers [7.5.12, 7.2.4.1.1]
            /\ IF r.ph = "TS2" /\ r.hot /\ ~r_enabled THEN Rx!UsbReset ELSE UNCHANGED rxv
            /\ UNCHANGED <<txv, todo>>
       [] r.e = "txs"   ->
            /\ Rx!TxStart
            /\ lk' = [k EXCEPT !.busy = "lc", !.ks = 0, !.staleLc = FALSE,
                               !.gDownTx = IF ~k.up /\ ~k.staleLc THEN @ + 1 ELSE @]
            /\ UNCHANGED <<txv, todo>>
       [] r.e = "txe"   ->
            /\ IF r_cur \in {"stale", "stale_up"} THEN Rx!TxEndStale /\ UNCHANGED txv
               ELSE /\ Rx!TxEndFresh(r.cmd, r.sub)
                    /\ IF r.cmd = LRTY /\ t_limbo THEN Tx!LrtyDone ELSE UNCHANGED txv
            /\ lk' = [k EXCEPT !.busy = "none", !.ks = 0, !.gSkp = @ + r.cs + r.sk,
                               !.gFirst = IF @ # "none" \/ r_cur # "fresh" THEN @
                                          ELSE IF r.cmd = LGOOD /\ r_advPending THEN "adv" ELSE "other"]
            /\ UNCHANGED todo
       [] r.e = "hps"   ->
            /\ IF k.up THEN Tx!HpStart ELSE t_cur' = [k |-> "stale"] /\ UNCHANGED txvNoCur
            /\ lk' = [k EXCEPT !.busy = "hp", !.staleHp = FALSE, !.gFirst = IF @ = "none" /\ k.up THEN "other" ELSE @,
                               !.gDownTx = IF ~k.up /\ ~k.staleHp THEN @ + 1 ELSE @]
            /\ UNCHANGED <<rxv, todo>>
       [] r.e = "hpe"   ->
            /\ Tx!HpEnd(r.s, r.dl, r.c)
            /\ lk' = [k EXCEPT !.busy = "none", !.ks = Min(@, K), !.gSkp = @ + r.cs + r.sk, !.dpHdr = r.dph]
            /\ UNCHANGED <<rxv, todo>>
       [] r.e = "dps"   -> lk' = [k EXCEPT !.busy = "dp", !.dpHdr = FALSE] /\ UNCHANGED <<rxv, txv, todo>>
       [] r.e = "dpe"   -> lk' = [k EXCEPT !.busy = "none", !.ks = Min(@, K), !.gSkp = @ + r.cs + r.sk]
                           /\ UNCHANGED <<rxv, txv, todo>>
       [] r.e = "tx_abort" ->
            /\ lk' = [k EXCEPT !.busy = "none"]
            /\ IF r_cur # "none" THEN Rx!TxEndStale ELSE UNCHANGED rxv
            /\ t_cur' = [k |-> "none"] /\ UNCHANGED txvNoCur
            /\ UNCHANGED todo
       [] r.e = "quiet" -> lk' = k /\ UNCHANGED <<rxv, txv, todo>>

Judge(r) == JudgeK(Adv(lk, r.dt), r)
Apply(r) == ApplyK(Adv(lk, r.dt), r)

\* one observable step
Step(r) == todo = <<>> /\ Judge(r) = "ok" /\ Apply(r)

\* internal steps of the composition (no record)
Tau ==
    /\ todo # <<>>
    /\ ev' = [e |-> "tau", what |-> Head(todo)]
    /\ todo' = Tail(todo)
    /\ lk' = lk
    /\ CASE Head(todo) = "retry" ->      \* the transmitter noticed the LBAD; the receiver half owes the LRTY
                IF t_lbadSeen /\ r_enabled THEN Tx!RetryReq /\ Rx!RetryReq ELSE UNCHANGED <<rxv, txv>>

\* the keep-alive timer fired (dt = cycles that passed since the last record)
KaReq(dt) ==
    /\ todo = <<>> /\ KaDue(Adv(lk, dt)) /\ r_enabled
    /\ ev' = [e |-> "tau", what |-> "ka"]
    /\ Rx!KeepaliveReq
    /\ UNCHANGED <<txv, lk, todo>>

\* The header of a data packet is queued inside the link layer (DataPacketTransmitter -> header arbiter): its
\* acceptance is not observable.  It is taken right before the record of the data header's start; c = its content.
DpAccept(c) ==
    /\ todo = <<>> /\ lk.dpPend /\ lk.up /\ Tx!AcceptJudge = "ok"
    /\ ev' = [e |-> "tau", what |-> "dp_acc"]
    /\ Tx!Accept(c)
    /\ lk' = [lk EXCEPT !.dpPend = FALSE]
    /\ UNCHANGED <<rxv, todo>>

Init == Rx!Init /\ Tx!Init /\ lk = LkInit /\ todo = <<>> /\ ev = [e |-> "init"]

-----------------------------------------------------------------------------
(* Prop: theorems about the composition (TLC: every reachable state).      *)

LkTypeOK == /\ lk.ph \in Phases /\ lk.busy \in {"none", "lc", "hp", "dp"}
            /\ lk.gFirst \in {"none", "adv", "other"}
            /\ lk.ks \in 0..TCap /\ lk.rs \in 0..TCap /\ lk.sDown \in 0..TCap /\ lk.sRst \in 0..TCap

\* the two flow-control halves are enabled exactly while the link is up (enable wiring)
EnabledAgree == r_enabled = lk.up /\ t_enabled = lk.up

\* C41: the link is up only while, since the last reset, a partner was detected and the LFPS exchange happened;
\* the TS2 exchange / idle handshake facts are consumed by `up` (UpJudge) and cleared by `down`
UpOnlyTrained == lk.up => (lk.det /\ lk.lfps /\ ~(lk.rst /\ lk.sRst > RstSlack))

\* C41 / C38 (a): nothing of U0 is transmitted or delivered while the link is down
NothingWhileDown == lk.gDownTx = 0

\* one wire: the unit in flight belongs to exactly one of the two halves
BusyAgree == /\ (lk.busy = "lc") = (r_cur # "none")
             /\ (lk.busy = "hp") = (t_cur.k # "none")

\* C38 (b): the first thing transmitted in every U0 epoch is the sequence-number advertisement; no credit, no
\* other link command and no header packet precedes it
AdvertisementFirst == lk.up => /\ lk.gFirst \in {"none", "adv"}
                               /\ r_advPending => (lk.gFirst = "none" /\ r_gGood = <<>> /\ r_gCred = <<>>)

\* C33 (d): a SKP ordered set never replaces a word of a link command, header / data packet or training set
SkpOnlyReplacesIdle == lk.gSkp = 0

\* C44 (c): in U0 with an idle transmitter the time since the last link command stays bounded; the link never
\* stays up beyond the recovery time-out
KeepaliveBounded == (lk.up /\ lk.busy = "none" /\ K + KaSlack < TCap) => lk.ks <= K + KaSlack
RecoveryBounded  == (lk.up /\ lk.rarmed /\ R + RecSlack < TCap) => lk.rs <= R + RecSlack

\* C37 / C38 / C39 (e): the theorems of the flow-control halves hold in the composition
RxTheorems == /\ Rx!TypeOK /\ Rx!CreditConservation /\ Rx!BufferedPlusAdvertised /\ Rx!DeliveredInOrder
              /\ Rx!LgoodNumbers /\ Rx!LcrdLetters /\ Rx!LbadOnlyWhenIgnoring /\ Rx!AdvFirst
TxTheorems == Tx!TypeOK /\ Tx!CreditsRespected /\ Tx!ConsecutiveNumbers /\ Tx!SentPrefix

\* an LRTY is owed by the receive half exactly while the transmit half waits for it
RetryCoupling == t_limbo => (r_lrtyOwed /\ r_lrtyMay)
=============================================================================
