---------------------------- MODULE IpTimerTrace ----------------------------
(* Trace validation against IpTimer.  A trace is [view |-> "timer" | "token", steps |-> records]:     *)
(*  view "timer" (real USBInterpacketTimer):  start, speed, outs = <<[txa, txt, rxt] per interface>>       *)
(*  view "token" (real USBTokenDetector):     nt (new_token), speed, rfr (ready_for_response)          *)
(* outputs sampled after the inputs settled, before the clock edge.                                    *)
EXTENDS IpTimer, Sequences, TLC, TLCExt, Json, IOUtils

Logs == JsonDeserialize(IOEnv.TRACE_FILE)

VARIABLES tid, l, status
tvars == <<vars, tid, l, status>>

ASSUME \A i \in 1..Len(Logs) : TLCSet(i, <<0, "ok">>)

TInit == Init /\ tid \in 1..Len(Logs) /\ l = 1 /\ status = "ok"

\* r.outs = the strobes of every attached InterpacketTimerInterface (all must be right)
TimerNext(r) == LET i == [start |-> r.start, speed |-> r.speed, rst |-> r.rst]
                    bad == {q \in 1..Len(r.outs) : OutViolation(i, r.outs[q]) # "ok"}
                IN /\ status' = IF r.speed \notin Speeds THEN "env_speed_not_a_usb2_speed"
                                ELSE IF bad = {} THEN "ok"
                                ELSE OutViolation(i, r.outs[CHOOSE q \in bad : \A q2 \in bad : q <= q2])
                   /\ Step(i)
TokenNext(r) == /\ status' = IF r.speed \notin Speeds THEN "env_speed_not_a_usb2_speed" ELSE TokViolation(r)
                /\ TokStep(r)

TNext == /\ status = "ok"
         /\ l <= Len(Logs[tid].steps)
         /\ LET r == Logs[tid].steps[l] IN
              IF Logs[tid].view = "timer" THEN TimerNext(r) ELSE TokenNext(r)
         /\ l' = l + 1
         /\ UNCHANGED tid

TSpec == TInit /\ [][TNext]_tvars

TraceProp == CountIsExact /\ ExactlyAtDocumentedTimes

\* the constraint is FALSE after a failure: the trace is not followed further, the verdict cannot be overwritten
Verdict == IF status # "ok" THEN status ELSE IF TraceProp THEN "ok" ELSE "prop_invariant"
Progress == TLCSet(tid, <<l - 1, Verdict>>) /\ Verdict = "ok"

Verdicts == JsonSerialize(IOEnv.VERDICT_FILE, [i \in 1..Len(Logs) |-> TLCGet(i)])
=============================================================================
