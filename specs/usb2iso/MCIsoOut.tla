------------------------------ MODULE MCIsoOut ------------------------------
(* Bounded instance of IsoOut for exhaustive TLC exploration. *)
EXTENDS IsoOut, TLC

CONSTANTS Sizes,         \* sizes explored, each coded 100 * MaxPkt + BufSize (cfg files have no tuples);
                        \* endpoint number 1, device address 0
          MaxPackets

MCConfigs == {[maxPkt |-> s \div 100, bufSize |-> s % 100, epNum |-> 1, devAddr |-> 0] : s \in Sizes}

\* tokens: OUT to us, OUT to another endpoint, OUT to another address, SETUP / IN to our endpoint number
MCTokens == {<<"OUT", DevAddr, EpNum>>, <<"OUT", DevAddr, EpNum + 1>>, <<"OUT", DevAddr + 1, EpNum>>,
             <<"SETUP", DevAddr, EpNum>>, <<"IN", DevAddr, EpNum>>}

\* payload bytes are numbered so that every byte ever offered is distinct
MCPayload(n) == [i \in 1..n |-> 10 * (nOffered + 1) + i]

MCToken == \E t \in MCTokens : Token(t[1], t[2], t[3])
MCData  == \E n \in 0..MaxPkt, good \in BOOLEAN, deliver \in BOOLEAN :
               Data("DATA0", MCPayload(n), good, deliver)
MCRead  == Read
MCNext  == MCToken \/ MCData \/ MCRead
MCSpec  == Init /\ [][MCNext]_vars

Bounded == nOffered <= MaxPackets
=============================================================================
