------------------------------ MODULE MCDataTx ------------------------------
(* Bounded instance of DataTx: every request sequence / payload / tx_ready pattern within the   *)
(* bounds, and every output the relation allows.  Actions are split by the Ref branch taken.     *)
EXTENDS DataTx, TLC

CONSTANTS Data,        \* payload byte alphabet
          Pids,        \* data_pid values
          MaxLen,      \* payload length bound
          MaxReq,      \* number of requests
          MaxStall,    \* consecutive tx_ready-low cycles
          MaxResets    \* number of domain resets

VARIABLES stall, nrst
mcvars == <<vars, stall, nrst>>

Rdys == IF stall < MaxStall THEN BOOLEAN ELSE {TRUE}

MCInputs ==
    IF req = "none" THEN
        {[sv |-> FALSE, sf |-> FALSE, sl |-> FALSE, sp |-> 0, pid |-> 0, rdy |-> r] : r \in Rdys}
        \cup (IF nreq < MaxReq THEN
                {[sv |-> TRUE, sf |-> FALSE, sl |-> TRUE, sp |-> 0, pid |-> p, rdy |-> r] : p \in Pids, r \in Rdys}
                \cup {[sv |-> TRUE, sf |-> TRUE, sl |-> l, sp |-> d, pid |-> p, rdy |-> r] :
                         l \in (IF MaxLen = 1 THEN {TRUE} ELSE BOOLEAN), d \in Data, p \in Pids, r \in Rdys}
              ELSE {})
    ELSE IF Held THEN {[in EXCEPT !.rdy = r] : r \in Rdys}
    ELSE IF req = "data" /\ ~fin THEN
        {[sv |-> TRUE, sf |-> FALSE, sl |-> l, sp |-> d, pid |-> rpid, rdy |-> r] :
             l \in (IF Len(offd) + 1 >= MaxLen THEN {TRUE} ELSE BOOLEAN), d \in Data, r \in Rdys}
    ELSE {[sv |-> FALSE, sf |-> FALSE, sl |-> FALSE, sp |-> 0, pid |-> p, rdy |-> r] :
             p \in (IF out.tv /\ Len(wire) >= 1 THEN Pids ELSE {rpid}), r \in Rdys}

\* the byte the frame has at wire position k, given that `sr` is this cycle's stream.ready
RightTd(i, sr) ==
    LET o0 == [sr |-> sr, tv |-> TRUE, td |-> 0]
        c1 == Cons1(i, o0)
        k  == Len(Wire0) + 1
    IN IF k = 1 THEN PidByte(Pid1(i))
       ELSE IF k <= Len(c1) + 1 THEN c1[k - 1]
       ELSE IF ~Fin1(i, o0) THEN 0
       ELSE IF k = Len(c1) + 2 THEN Crc1(i, o0) % 256
       ELSE IF k = Len(c1) + 3 THEN Crc1(i, o0) \div 256 ELSE 0

MCOutputs(i) == {[sr |-> s, tv |-> v, td |-> IF v /\ i.rdy THEN RightTd(i, s) ELSE 0] : s, v \in BOOLEAN}

Do(i, o) == /\ Failing(i, o) = "ok" /\ Step(i, o)
            /\ stall' = (IF i.rdy THEN 0 ELSE stall + 1)
            /\ UNCHANGED nrst

K(i) == Len(Wire0) + 1
\* the step relation, split by the Ref branch taken (each must be covered)
PidBeat     == \E i \in MCInputs : \E o \in MCOutputs(i) : WBeat(i, o) /\ K(i) = 1 /\ Do(i, o)
PayloadBeat == \E i \in MCInputs : \E o \in MCOutputs(i) : WBeat(i, o) /\ K(i) >= 2 /\ K(i) <= Len(Cons1(i, o)) + 1 /\ Do(i, o)
CrcLoBeat   == \E i \in MCInputs : \E o \in MCOutputs(i) : WBeat(i, o) /\ K(i) = Len(Cons1(i, o)) + 2 /\ Do(i, o)
CrcHiBeat   == \E i \in MCInputs : \E o \in MCOutputs(i) : WBeat(i, o) /\ K(i) = Len(Cons1(i, o)) + 3 /\ Do(i, o)
Stalled     == \E i \in MCInputs : \E o \in MCOutputs(i) : o.tv /\ ~i.rdy /\ Do(i, o)
PacketEnd   == \E i \in MCInputs : \E o \in MCOutputs(i) : BurstEnd(o) /\ Do(i, o)
Waiting     == \E i \in MCInputs : \E o \in MCOutputs(i) : ~o.tv /\ ~BurstEnd(o) /\ Req1(i) # "none" /\ Do(i, o)
Idle        == \E i \in MCInputs : \E o \in MCOutputs(i) : ~o.tv /\ ~BurstEnd(o) /\ Req1(i) = "none" /\ Do(i, o)

DomainReset == /\ nrst < MaxResets
               /\ \E i \in {j \in MCInputs : ResetLegal(j)} : \E o \in MCOutputs(i) :
                     Failing(i, o) = "ok" /\ ResetStep(i, o)
               /\ nrst' = nrst + 1 /\ stall' = 0

MCInit == Init /\ stall = 0 /\ nrst = 0
MCNext == PidBeat \/ PayloadBeat \/ CrcLoBeat \/ CrcHiBeat \/ Stalled \/ PacketEnd \/ Waiting \/ Idle \/ DomainReset
MCSpec == MCInit /\ [][MCNext]_mcvars

\* a ZLP request yields PID + two CRC bytes
ZlpFramed == (sent.ok /\ sent.payload = <<>>) => Len(sent.wire) = 3
=============================================================================
