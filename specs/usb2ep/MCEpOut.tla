------------------------------- MODULE MCEpOut -------------------------------
(***************************************************************************)
(* Exhaustive model of one OUT endpoint (C13) with a protocol-abiding host *)
(* (USB 2.0 8.6: retransmit with the same toggle until an ACK is heard):   *)
(* every packet size 0..MaxPkt, CRC corruption, PING, every handshake the  *)
(* reference relation allows, device ACKs lost on the way to the host, and *)
(* every consumer schedule (a beat may be taken in any state).             *)
(* Prop = EpOut!OutInv (exactly once, in order, marks, room) plus the      *)
(* end-to-end statement against the host's own bookkeeping.                *)
(***************************************************************************)
EXTENDS EpOut, TLC

CONSTANTS MaxPkt, Depth,
          MaxPackets,   \* distinct packets the host starts
          MaxBad,       \* corrupted transmissions
          MaxLost,      \* device ACKs not heard by the host
          MaxPing

VARIABLES s, ev,
          htog,   \* host: toggle of the packet in flight / next packet
          hpl,    \* host: payload in flight
          hfly,   \* host: a packet is in flight (sent at least once, no ACK heard)
          hmiss,  \* ghost: the endpoint accepted the packet in flight but the host has not heard the ACK
          hdone,  \* host: bytes of all packets it believes delivered
          npk, nbad, nlost, nping

vars == <<s, ev, htog, hpl, hfly, hmiss, hdone, npk, nbad, nlost, nping>>
hostvars == <<htog, hpl, hfly, hmiss, hdone, npk>>

Init == /\ s = OutInit /\ ev = [e |-> "init"]
        /\ htog = 0 /\ hpl = <<>> /\ hfly = FALSE /\ hmiss = FALSE /\ hdone = <<>>
        /\ npk = 0 /\ nbad = 0 /\ nlost = 0 /\ nping = 0

Sent == Len(hdone) + (IF hfly THEN Len(hpl) ELSE 0)

TokOut == /\ s.ph = "idle"
          /\ \/ /\ hfly /\ UNCHANGED <<hpl, hfly, npk>>                      \* retransmission
             \/ /\ ~hfly /\ npk < MaxPackets
                /\ \E n \in 0..MaxPkt : hpl' = [i \in 1..n |-> Sent + i]      \* byte value = position
                /\ hfly' = TRUE /\ npk' = npk + 1
          /\ s' = OutTok(s, Depth, "out")
          /\ ev' = [e |-> "tok", pid |-> "OUT"]
          /\ UNCHANGED <<htog, hmiss, hdone, nbad, nlost, nping>>

TokPing == /\ s.ph = "idle" /\ nping < MaxPing
           /\ s' = OutTok(s, Depth, "ping")
           /\ ev' = [e |-> "tok", pid |-> "PING"]
           /\ nping' = nping + 1
           /\ UNCHANGED <<hostvars, nbad, nlost>>

Data == /\ s.ph = "out"
        /\ \E ok \in BOOLEAN :
              /\ (~ok => nbad < MaxBad)
              /\ nbad' = IF ok THEN nbad ELSE nbad + 1
              /\ s' = OutData(s, MaxPkt, htog, hpl, ok)
              /\ ev' = [e |-> "data", pid |-> htog, payload |-> hpl, ok |-> ok]
        /\ UNCHANGED <<hostvars, nlost, nping>>

Resp == /\ s.ph \in {"data", "ping"}
        /\ \E k \in OutAllowed(s, MaxPkt, Depth) :
             /\ s' = OutResp(s, MaxPkt, k)
             /\ IF s.ph = "data" /\ k = "ack"
                THEN \E heard \in BOOLEAN :
                        /\ (~heard => nlost < MaxLost)
                        /\ nlost' = IF heard THEN nlost ELSE nlost + 1
                        /\ ev' = [e |-> "resp", k |-> k, heard |-> heard]
                        /\ IF heard
                           THEN /\ hdone' = hdone \o hpl /\ htog' = 1 - htog
                                /\ hfly' = FALSE /\ hmiss' = FALSE /\ UNCHANGED <<hpl, npk>>
                           ELSE /\ hmiss' = (hmiss \/ (s.dok /\ s.dpid = s.exp))
                                /\ UNCHANGED <<htog, hpl, hfly, hdone, npk>>
                ELSE /\ ev' = [e |-> "resp", k |-> k, heard |-> TRUE]
                     /\ UNCHANGED <<hostvars, nlost>>
        /\ UNCHANGED <<nbad, nping>>

Pop == /\ s.q \o s.tent # <<>>
       /\ LET x == (s.q \o s.tent)[1] IN
            /\ OutPopStatus(s, x) = "ok"
            /\ s' = OutPop(s, x)
            /\ ev' = [e |-> "pop", b |-> x.b, first |-> x.f, last |-> x.l]
       /\ UNCHANGED <<hostvars, nbad, nlost, nping>>

Next == TokOut \/ TokPing \/ Data \/ Resp \/ Pop
Spec == Init /\ [][Next]_vars

-----------------------------------------------------------------------------
Inv == OutInv(s, MaxPkt, Depth)

\* what the endpoint accepted is what the host believes delivered (plus the packet whose ACK got lost)
EndToEnd == /\ s.acc = hdone \o (IF hmiss THEN hpl ELSE <<>>)
            /\ s.exp = (IF hmiss THEN 1 - htog ELSE htog)
\* the reference always allows some handshake
RefTotal == s.ph \in {"data", "ping"} => OutAllowed(s, MaxPkt, Depth) # {}
\* with room for a whole packet at token time, a good packet must be ACKed (progress)
MustAckWithRoom == (s.ph = "data" /\ s.dok /\ s.spTok >= MaxPkt) => OutAllowed(s, MaxPkt, Depth) = {"ack"}
\* a corrupted packet gets no handshake and contributes nothing
CorruptSilent == (s.ph = "data" /\ ~s.dok) => (OutAllowed(s, MaxPkt, Depth) = {"none"} /\ s.tent = <<>>)

\* the expected toggle advances exactly when new data is ACKed; accepted data only grows then
ToggleOnlyOnAccept == [][(s'.exp # s.exp \/ s'.acc # s.acc) =>
                           (ev'.e = "resp" /\ ev'.k = "ack" /\ s.ph = "data" /\ s.dok /\ s.dpid = s.exp)]_vars
\* held data changes only by accepting a packet or by the consumer taking a beat
QueueOnlyByAcceptOrPop == [][s'.q # s.q => (ev'.e = "pop" \/ (ev'.e = "resp" /\ ev'.k = "ack"))]_vars
=============================================================================
