---------------------------- MODULE DataRxTrace ----------------------------
(***************************************************************************)
(* Trace validation for DataRx (C40): every record is one clock cycle of   *)
(* the real DataPacketReceiver: the word on its sink and the observed      *)
(* packet_good / packet_bad / source stream.                               *)
(***************************************************************************)
EXTENDS DataRx, TLC, TLCExt, Json, IOUtils

Logs == JsonDeserialize(IOEnv.TRACE_FILE)

VARIABLES p, tid, l, status,
          jv      \* verdict/successor record of the step (assigned once, so Judge is evaluated once)
tvars == <<p, tid, l, status, jv>>

ASSUME \A i \in 1..Len(Logs) : TLCSet(i, <<0, "ok">>)
ASSUME Crc5TableOk
ASSUME Crc32StreamOk

TInit == /\ p = RxInit
         /\ tid \in 1..Len(Logs)
         /\ l = 1
         /\ status = "ok"
         /\ jv = <<>>

TNext == /\ status = "ok"
         /\ l <= Len(Logs[tid])
         /\ \E p0 \in {RxConsume(p, Logs[tid][l].iw)} : \E p1 \in {RxResolve(p0)} : jv' = JudgeE(p, p1, Logs[tid][l])
         /\ status' = jv'.f
         /\ p' = jv'.n
         /\ l' = l + 1
         /\ UNCHANGED tid

TSpec == TInit /\ [][TNext]_tvars

Verdict == status
Progress == TLCSet(tid, <<l - 1, Verdict>>) /\ Verdict = "ok"

Verdicts == JsonSerialize(IOEnv.VERDICT_FILE, [i \in 1..Len(Logs) |-> TLCGet(i)])
=============================================================================
