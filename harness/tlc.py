"""Running TLC: exhaustive model checking, simulation (behaviour generation), batch trace validation."""
import json
import os
import re
import shutil
import subprocess
import tempfile
import time
from contextlib import contextmanager

from . import tlaval

VERIF = os.path.dirname(os.path.dirname(os.path.abspath(__file__)))
SPECS = os.path.join(VERIF, "specs")
LIB = os.path.join(SPECS, "lib")
JAR = "/opt/veriftools/tla/tla2tools.jar:/opt/veriftools/tla/CommunityModules-deps.jar"


def _default_workers():
    """All cores normally; fewer when the machine is already oversubscribed (keeps parallel checks from thrashing)."""
    n = os.cpu_count() or 4
    try:
        load = os.getloadavg()[0]
    except OSError:
        load = 0
    if load > 2 * n:
        return max(2, n // 4)
    if load > n:
        return max(2, n // 2)
    return min(16, n)


class TLCError(Exception):
    """Machinery failure (parse error, timeout, spec-only counterexample, vacuity)."""


@contextmanager
def scratch(prefix="verif-"):
    d = tempfile.mkdtemp(prefix=prefix, dir=os.environ.get("TMPDIR", "/tmp"))
    try:
        yield d
    finally:
        shutil.rmtree(d, ignore_errors=True)


def stage(engine_dir, dest):
    """Copy an engine's .tla files and the shared library modules into a scratch directory."""
    for src in (LIB, os.path.join(SPECS, engine_dir)):
        if not os.path.isdir(src):
            continue
        for f in os.listdir(src):
            if f.endswith(".tla") or f.endswith(".cfg"):
                shutil.copy(os.path.join(src, f), os.path.join(dest, f))


def render_cfg(template_text, subst):
    out = template_text
    for k, v in subst.items():
        out = out.replace("@%s@" % k, v if isinstance(v, str) else tlaval.to_tla(v))
    left = re.findall(r"@\w+@", out)
    if left:
        raise TLCError("unsubstituted cfg placeholders: %s" % left)
    return out


def _java_cmd(extra_props=()):
    cmd = ["java", "-XX:+UseParallelGC", "-Xmx6g", "-Xss128m"]
    cmd += list(extra_props)
    cmd += ["-cp", JAR, "tlc2.TLC"]
    return cmd


def _run(cmd, cwd, timeout, env=None):
    e = dict(os.environ)
    e.pop("JAVA_TOOL_OPTIONS", None)
    if env:
        e.update(env)
    t0 = time.time()
    try:
        p = subprocess.run(cmd, cwd=cwd, env=e, stdout=subprocess.PIPE, stderr=subprocess.STDOUT,
                           timeout=timeout, text=True, errors="replace")
    except subprocess.TimeoutExpired as ex:
        subprocess.run(["pkill", "-f", "tlc2[.]TLC.*" + re.escape(cwd)], check=False)
        raise TLCError("TLC timed out after %ss in %s" % (timeout, cwd)) from ex
    return p.returncode, p.stdout, time.time() - t0


_RE_STATES = re.compile(r"(\d+) states generated, (\d+) distinct states found, (\d+) states left on queue")
_RE_DEPTH = re.compile(r"The depth of the complete state graph search is (\d+)")
_RE_COV = re.compile(r"^<(\w+) line (\d+), col \d+ to line \d+, col \d+ of module (\w+)((?: \([\d ]+\))?)>: (\d+):(\d+)", re.M)
_RE_ERR = re.compile(r"^Error: (.*)$", re.M)


def parse_mc_output(out):
    res = {"ok": "Model checking completed. No error has been found." in out}
    m = None
    for m in _RE_STATES.finditer(out):
        pass
    if m:
        res["generated"] = int(m.group(1))
        res["distinct"] = int(m.group(2))
        res["queue"] = int(m.group(3))
    m = _RE_DEPTH.search(out)
    if m:
        res["depth"] = int(m.group(1))
    cov = {}
    for m in _RE_COV.finditer(out):
        name = m.group(1)
        d, g = int(m.group(5)), int(m.group(6))
        # multiple coverage dumps may appear; keep the last (largest)
        key = "%s@%s:%s%s" % (name, m.group(3), m.group(2), m.group(4))
        cov[key] = {"action": name, "distinct": d, "generated": g}
    res["coverage"] = cov
    res["errors"] = _RE_ERR.findall(out)
    return res


def model_check(engine_dir, module, cfg_text, workers=None, timeout=600, coverage=True,
                allow_uncovered=(), expect_ok=True, env=None):
    """Exhaustive TLC run.  Raises TLCError on anything but a clean, non-vacuous pass."""
    workers = workers or int(os.environ.get("VERIF_TLC_WORKERS", "0")) or _default_workers()
    with scratch("tlc-mc-") as d:
        stage(engine_dir, d)
        cfg = os.path.join(d, "run.cfg")
        with open(cfg, "w") as f:
            f.write(cfg_text)
        cmd = _java_cmd() + ["-workers", str(workers), "-metadir", os.path.join(d, "meta"),
                             "-noGenerateSpecTE"]
        if coverage:
            cmd += ["-coverage", "1"]
        cmd += ["-config", "run.cfg", module + ".tla"]
        rc, out, wall = _run(cmd, d, timeout, env)
    res = parse_mc_output(out)
    res["wall_s"] = round(wall, 2)
    res["rc"] = rc
    res["output_tail"] = out[-3000:]
    if expect_ok:
        if not res["ok"]:
            raise TLCError("TLC did not pass on %s/%s: %s\n%s" % (engine_dir, module, res["errors"], out[-4000:]))
        if coverage:
            dead = [v["action"] for k, v in res["coverage"].items()
                    if v["generated"] == 0 and v["action"] not in allow_uncovered
                    and v["action"] not in ("Init",)]
            if dead:
                raise TLCError("vacuous model %s/%s: actions never taken: %s" % (engine_dir, module, dead))
    return res


def simulate(engine_dir, module, cfg_text, num, depth, seed, timeout=300, env=None):
    """`tlc -simulate file=...` -> list of behaviours, each a list of (action, state-dict)."""
    with scratch("tlc-sim-") as d:
        stage(engine_dir, d)
        with open(os.path.join(d, "run.cfg"), "w") as f:
            f.write(cfg_text)
        os.mkdir(os.path.join(d, "beh"))
        cmd = _java_cmd() + ["-workers", "1", "-metadir", os.path.join(d, "meta"), "-noGenerateSpecTE",
                             "-simulate", "file=%s,num=%d" % (os.path.join(d, "beh", "b"), num),
                             "-depth", str(depth), "-seed", str(seed),
                             "-config", "run.cfg", module + ".tla"]
        rc, out, wall = _run(cmd, d, timeout, env)
        errs = _RE_ERR.findall(out)
        if errs and not any("Simulation" in e for e in errs):
            raise TLCError("TLC simulate failed on %s/%s: %s\n%s" % (engine_dir, module, errs, out[-3000:]))
        behs = []
        for f in sorted(os.listdir(os.path.join(d, "beh"))):
            with open(os.path.join(d, "beh", f)) as fh:
                b = tlaval.parse_behaviour_file(fh.read())
            if b:
                behs.append(b)
    if not behs:
        raise TLCError("TLC simulate produced no behaviours for %s/%s:\n%s" % (engine_dir, module, out[-3000:]))
    return behs


def validate_traces(engine_dir, module, cfg_text, traces, timeout=900, env=None, dfs=False):
    """Batch trace validation.

    `traces` is a list of traces (each a list of JSON-able records, or whatever the trace module
    expects as Logs[tid]).  Returns (verdicts, stats) where verdicts[i] = (matched, status).
    The trace module must define Logs == JsonDeserialize(IOEnv.TRACE_FILE), keep register `tid`
    up to date with <<matched, status>> and write them by POSTCONDITION to IOEnv.VERDICT_FILE.
    """
    if not traces:
        return [], {"generated": 0, "distinct": 0, "wall_s": 0.0}
    with scratch("tlc-trace-") as d:
        stage(engine_dir, d)
        tf = os.path.join(d, "traces.json")
        vf = os.path.join(d, "verdicts.json")
        with open(tf, "w") as f:
            json.dump(traces, f, separators=(",", ":"))
        with open(os.path.join(d, "run.cfg"), "w") as f:
            f.write(cfg_text)
        props = []
        if dfs:
            props.append("-Dtlc2.tool.queue.IStateQueue=StateDeque")
        cmd = _java_cmd(props) + ["-workers", "1", "-metadir", os.path.join(d, "meta"), "-noGenerateSpecTE",
                                  "-config", "run.cfg", module + ".tla"]
        e = {"TRACE_FILE": tf, "VERDICT_FILE": vf}
        if env:
            e.update(env)
        rc, out, wall = _run(cmd, d, timeout, e)
        if not os.path.exists(vf):
            raise TLCError("trace validation produced no verdicts (%s/%s):\n%s" % (engine_dir, module, out[-4000:]))
        with open(vf) as f:
            raw = json.load(f)
    res = parse_mc_output(out)
    if res["errors"]:
        raise TLCError("trace validation run reported errors (%s/%s): %s\n%s"
                       % (engine_dir, module, res["errors"], out[-3000:]))
    verdicts = []
    for v in raw:
        verdicts.append((int(v[0]), str(v[1])))
    if len(verdicts) != len(traces):
        raise TLCError("verdict count mismatch")
    res["wall_s"] = round(wall, 2)
    return verdicts, res


def sany(path):
    d = os.path.dirname(path)
    cmd = ["java", "-cp", JAR, "tla2sany.SANY", os.path.basename(path)]
    p = subprocess.run(cmd, cwd=d, stdout=subprocess.PIPE, stderr=subprocess.STDOUT, text=True)
    ok = p.returncode == 0 and "Semantic errors" not in p.stdout and "Parse Error" not in p.stdout \
        and "Fatal errors" not in p.stdout and "Could not" not in p.stdout
    return ok, p.stdout
