------------------------- MODULE TrainingSetsTrace -------------------------
(***************************************************************************)
(* Trace validation for TrainingSets (C43): one record per clock cycle of  *)
(* a real TSEmitter and a real TSBurstDetector built with the same set     *)
(* (fields: start rdy hr lb ns ow done | iw det dhr dlb dsd).              *)
(***************************************************************************)
EXTENDS TrainingSets, TLC, TLCExt, Json, IOUtils

Logs == JsonDeserialize(IOEnv.TRACE_FILE)

VARIABLES s, tid, l, status, jv
tvars == <<s, tid, l, status, jv>>

ASSUME \A i \in 1..Len(Logs) : TLCSet(i, <<0, "ok">>)

TInit == /\ s = SInit
         /\ tid \in 1..Len(Logs)
         /\ l = 1
         /\ status = "ok"
         /\ jv = <<>>

TNext == /\ status = "ok"
         /\ l <= Len(Logs[tid])
         /\ jv' = Judge(s, Logs[tid][l])
         /\ status' = IF jv'.f # "ok" THEN jv'.f
                       ELSE IF l = Len(Logs[tid]) /\ (jv'.n.d.owe # <<>> \/ jv'.n.e.st # "idle") THEN "end_not_quiescent"
                       ELSE "ok"
         /\ s' = jv'.n
         /\ l' = l + 1
         /\ UNCHANGED tid

TSpec == TInit /\ [][TNext]_tvars

Verdict == status
Progress == TLCSet(tid, <<l - 1, Verdict>>) /\ Verdict = "ok"

Verdicts == JsonSerialize(IOEnv.VERDICT_FILE, [i \in 1..Len(Logs) |-> TLCGet(i)])
=============================================================================
