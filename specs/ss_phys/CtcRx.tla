-------------------------------- MODULE CtcRx --------------------------------
(***************************************************************************)
(* Reference specification of the receive clock-tolerance-compensation      *)
(* stage (CTCSkipRemover, property C32).  Grain: one clock cycle.           *)
(*                                                                         *)
(* Symbols are integers 0..511 (bit 8 = K flag); SKP = K28.1.               *)
(*  Env : per cycle an input word [valid, w] - any symbols, SKP at any of   *)
(*        the 16 position masks, any number of consecutive all-SKP words;   *)
(*        downstream always ready (as wired in the physical layer).         *)
(*  Ref : pend = the non-SKP symbols accepted so far and not yet delivered, *)
(*        in arrival order (a sequence - no pointers, no shift register).   *)
(*        In a cycle the stage may deliver one word; if it does, the word   *)
(*        is the four oldest outstanding symbols.  *When* it delivers is    *)
(*        left free (latency is not part of the property), except that it   *)
(*        never sits on more than Cap symbols.                              *)
(*  Prop: delivered \o pend = (everything received) minus the SKPs          *)
(*        - nothing lost, duplicated, reordered, no SKP delivered.          *)
(***************************************************************************)
EXTENDS Naturals, Sequences

CONSTANT Cap                   \* buffering bound, symbols

SKP == 256 + 60

NotSkp(x) == x # SKP
NonSkp(w) == SelectSeq(w, NotSkp)

\* outstanding symbols once this cycle's input word has been taken in
Avail(pend, i) == IF i.valid THEN pend \o NonSkp(i.w) ELSE pend

\* o = [valid, w] is an allowed output for this cycle
OutOK(pend, i, o) == o.valid => /\ Len(Avail(pend, i)) >= 4
                                /\ o.w = SubSeq(Avail(pend, i), 1, 4)

PendNext(pend, i, o) == IF o.valid THEN SubSeq(Avail(pend, i), 5, Len(Avail(pend, i)))
                        ELSE Avail(pend, i)
=============================================================================
