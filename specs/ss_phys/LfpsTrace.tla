------------------------------ MODULE LfpsTrace ------------------------------
(***************************************************************************)
(* Trace validation for C42.  trace = [cfg |-> [...], steps |-> <<...>>]    *)
(*  cfg = [kind, pattern, period, rmin, rtyp, rmax]                         *)
(*     pattern \in {"polling","ping","reset"}: row of Table; period = clock *)
(*     period of the DUT in ns; rmin/rtyp/rmax > 0 replace the repeat       *)
(*     window (ns) - used for the ping-shaped pattern whose repeat window   *)
(*     is scaled so that both windows can be simulated at one clock.        *)
(*  kind "det": event-compressed trace of a real LFPSDetector.              *)
(*     step = [e, dt, det, stray]: e = "rise"/"fall"/"end" of the received  *)
(*     envelope, dt = cycles since the previous edge, det = number of       *)
(*     `detect` strobes in the cycle of this edge (after the DUT's constant *)
(*     output latency), stray = strobes strictly between the two edges.     *)
(*  kind "gen": event-compressed trace of a real LFPSGenerator with         *)
(*     `generate` held high from cycle 0.  step = [e, dt, idle_ok] over the *)
(*     edges of send_signaling; idle_ok = drive_electrical_idle stayed high *)
(*     since the previous event.                                            *)
(*  Both kinds may contain e = "reset": the `ss` domain reset was pulsed   *)
(*  (detector: while the line had been idle for a while; generator: at any  *)
(*  time).  Afterwards the detector must have forgotten every earlier burst *)
(*  and the generator must start a fresh, typical pattern.                  *)
(*  kind "table": the timing constants found in the gateware module (ns).   *)
(*     step = [bmin, btyp, bmax, rmin, rtyp, rmax, periodic]                *)
(***************************************************************************)
EXTENDS Lfps, TLC, TLCExt, Json, IOUtils

Logs == JsonDeserialize(IOEnv.TRACE_FILE)

VARIABLES tid, l, status, st, gs
tvars == <<tid, l, status, st, gs>>

Cfg == Logs[tid].cfg
NSteps(t) == Len(Logs[t].steps)

Pat == LET t == Table[Cfg.pattern] IN
       IF Cfg.rmax > 0 THEN [t EXCEPT !.rmin = Cfg.rmin, !.rtyp = Cfg.rtyp, !.rmax = Cfg.rmax] ELSE t
Pc  == InCycles(Pat, Cfg.period)

ASSUME \A i \in 1..Len(Logs) : TLCSet(i, <<0, "ok">>)

Judge(expected, got) == IF expected /\ got = 0 THEN "in_window_pattern_not_reported"
                        ELSE IF ~expected /\ got > 0 THEN "reported_outside_window"
                        ELSE IF got > 1 THEN "reported_more_than_once"
                        ELSE "ok"

FailDet(r) ==
    IF r.stray > 0 THEN "reported_between_edges"
    ELSE IF r.e = "rise" THEN Judge(RiseDetect(Pc, st, r.dt), r.det)
    ELSE IF r.e = "fall" THEN Judge(FallDetect(Pc, st, r.dt), r.det)
    ELSE Judge(FALSE, r.det)          \* "end", and "reset" (the ss domain reset pulsed while the line is idle)

GsInit == [since |-> 0, n |-> 0, high |-> FALSE]
FailGen(r) ==
    IF ~r.idle_ok THEN "electrical_idle_not_driven_while_generating"
    ELSE IF r.e = "rise" THEN
            (IF gs.n = 0 THEN (IF r.dt > GenStartLat THEN "generator_start_latency" ELSE "ok")
             ELSE IF ~GenPeriodOK(Pc, gs.since + r.dt) THEN "burst_period_not_typical" ELSE "ok")
    ELSE IF r.e = "fall" THEN (IF ~GenBurstOK(Pc, r.dt) THEN "burst_length_not_typical" ELSE "ok")
    ELSE IF r.e = "reset" THEN          \* domain reset with `generate` still high: the pattern in progress is abandoned
            (IF gs.high /\ r.dt > Pc.btyp THEN "burst_length_not_typical" ELSE "ok")
    ELSE (IF gs.high THEN (IF r.dt > Pc.btyp THEN "burst_length_not_typical" ELSE "ok")
          ELSE IF gs.n > 0 /\ gs.since + r.dt > Pc.rtyp + 1 THEN "burst_missing"
          ELSE IF gs.n = 0 /\ r.dt > GenStartLat THEN "generator_start_latency" ELSE "ok")

FailTable(r) ==
    LET t == Table[Cfg.pattern] IN
    IF r.bmin # t.bmin THEN "table_burst_min"
    ELSE IF r.bmax # t.bmax THEN "table_burst_max"
    ELSE IF t.btyp # 0 /\ r.btyp # t.btyp THEN "table_burst_typ"
    ELSE IF r.periodic # t.periodic THEN "table_periodicity"
    ELSE IF t.periodic /\ r.rmin # t.rmin THEN "table_repeat_min"
    ELSE IF t.periodic /\ r.rmax # t.rmax THEN "table_repeat_max"
    ELSE IF t.periodic /\ r.rtyp # t.rtyp THEN "table_repeat_typ"
    ELSE "ok"

TInit == /\ tid \in 1..Len(Logs) /\ l = 1 /\ status = "ok" /\ st = DetInit /\ gs = GsInit

TNext == /\ status = "ok"
         /\ l <= NSteps(tid)
         /\ LET r == Logs[tid].steps[l] IN
              CASE Cfg.kind = "det" ->
                     /\ status' = FailDet(r)
                     /\ st' = IF r.e = "rise" THEN DetRise(Pc, st, r.dt)
                              ELSE IF r.e = "fall" THEN DetFall(Pc, st, r.dt)
                              ELSE IF r.e = "reset" THEN DetInit       \* all history is forgotten
                              ELSE st
                     /\ UNCHANGED gs
                [] Cfg.kind = "gen" ->
                     /\ status' = FailGen(r)
                     /\ gs' = IF r.e = "rise" THEN [since |-> 0, n |-> gs.n + 1, high |-> TRUE]
                              ELSE IF r.e = "fall" THEN [since |-> r.dt, n |-> gs.n, high |-> FALSE]
                              ELSE IF r.e = "reset" THEN GsInit        \* starts over: first burst within GenStartLat
                              ELSE gs
                     /\ UNCHANGED st
                [] Cfg.kind = "table" ->
                     /\ status' = FailTable(r)
                     /\ UNCHANGED <<st, gs>>
         /\ l' = l + 1
         /\ UNCHANGED tid

TSpec == TInit /\ [][TNext]_tvars
TraceProp == st.streak \in {0, 1} /\ (st.burstOk => BurstOK(Pc, st.lastBurst))
\* a clause failure keeps its name; an invariant failure stops the trace there (it is not followed further)
Verdict == IF status # "ok" THEN status ELSE IF TraceProp THEN "ok" ELSE "prop_invariant"
Progress == TLCSet(tid, <<l - 1, Verdict>>) /\ Verdict = "ok"
Verdicts == JsonSerialize(IOEnv.VERDICT_FILE, [i \in 1..Len(Logs) |-> TLCGet(i)])
=============================================================================
