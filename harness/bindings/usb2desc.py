"""Engine `usb2desc` — C27 (constant-stream generators) and C09 (GET_DESCRIPTOR) vs specs/usb2desc/*.tla."""
import os

from .. import tlc
from ..core import use_repo

ENGINE = "usb2desc"
SPEC_DIR = "usb2desc"

META = {
    "C27": {
        "text": "ConstGen.tla specifies, per clock cycle, which word a started constant-stream generator must "
                "present (valid mask, bytes in the valid lanes, first, last) and when done may pulse, for a "
                "configuration (data, word width, byte order, with/without max_length) that TLC chooses itself; TLC "
                "explores every configuration within the bounds, every (start_position, max_length) request, every "
                "ready pattern and every allowed latency and proves that the accepted bytes are exactly "
                "data[start..) cut to max_length, first/last only on the first/final word, the masks cover exactly "
                "the bytes sent, done pulses exactly once, nothing for max_length = 0. The real "
                "ConstantStreamGenerator (8-bit and 32-bit, little and big endian, with and without max_length) "
                "and StreamSerializer are then driven with TLC-simulated request/ready schedules, an exhaustive "
                "sweep of (start, max_length, stall position) over small constants and random schedules over "
                "larger ones; every recorded cycle is validated by TLC against the specification.",
        "note": "Assumes: start only while no transmission is in progress (after done); start_position and "
                "max_length held from start until done; start position within the data (in words); generators "
                "without max_length use the data length; for big-endian constants the length limit does not cut "
                "inside a word (lane meaning undocumented). Latency (start to first word, last word to done) is "
                "free up to MaxLat cycles; a zero-length request may or may not pulse done. StreamSerializer is "
                "bound for 8-bit data only. Trusted base: TLC, amaranth.sim, the closed-loop cycle bench.",
        "technique": "TLA+ per-cycle stream spec with TLC-chosen configuration, TLC exhaustive + batch trace "
                     "validation of pysim traces (both directions)",
        "design_ref": "DESIGN.md §5 C27",
    },
}

MAXLAT = 4        # latency freedom granted by the specification to the real modules (they use 1)


def _cfg(name):
    with open(os.path.join(tlc.SPECS, SPEC_DIR, name)) as f:
        return f.read()


def data_of(n, salt=0):
    """Pairwise distinct bytes (as MCConstGen!DataOf for salt 0)."""
    return [((i + 1) * 37 + 11 + salt * 53) % 256 for i in range(n)]


def _decide(rep, module, cfg_text, items, classify, describe, canary):
    """TLC decides all recorded traces in one batch.  items = [(trace, meta)]; `canary(trace)` returns a copy of
    an accepted-looking trace with one observed output corrupted: it must be rejected, otherwise the binding is
    not sensitive (machinery error).  Returns {class: accepted count}."""
    import copy
    probes = []
    for t, _ in items[:40]:
        c = canary(copy.deepcopy(t))
        if c is not None:
            probes.append(c)
        if len(probes) >= 3:
            break
    verdicts, _ = tlc.validate_traces(SPEC_DIR, module, cfg_text, [t for t, _ in items] + probes, timeout=2400)
    for pr, (matched, status) in zip(probes, verdicts[len(items):]):
        if status == "ok" and matched == len(pr["steps"]):
            raise tlc.TLCError("self-test failed: a trace with a corrupted observation was accepted by %s" % module)
    if items and not probes:
        raise tlc.TLCError("self-test could not build a corrupted probe trace for %s" % module)
    accepted = {}
    ok = steps = 0
    for (trace, meta), (matched, status) in zip(items, verdicts):
        n = len(trace["steps"])
        if status == "ok" and matched == n:
            ok += 1
            steps += n
            accepted[meta.get("class", "clean")] = accepted.get(meta.get("class", "clean"), 0) + 1
            continue
        if status.startswith("env_"):
            raise tlc.TLCError("harness generated a stimulus outside the Env (%s) in %s at step %d: %s"
                               % (status, meta, matched, trace["steps"][max(0, matched - 3):matched]))
        sig = classify(trace, matched, status, meta)
        what = describe(trace, meta, matched, n, status, sig)
        res = rep.violation(sig, what, {"meta": meta, "cfg": trace["cfg"], "failing_step": matched,
                                        "clause": status, "trace_prefix": trace["steps"][:matched + 1]})
        if res == "known":
            meta["_known"] = True
    rep.add_traces(ok, steps)
    rep.extra["selftest"] = "%d corrupted probe traces rejected by %s" % (len(probes), module)
    return accepted


# =====================================================================================================
#  C27 — constant stream generators
# =====================================================================================================

class GenBench:
    """One elaborated generator; runs lists of transmissions closed-loop and records every cycle.

    gcfg: {"data": [...], "w": 1|2|4 bytes per word, "big": bool, "haslen": bool, "ser": bool,
           "mlw": max_length_width (default 16; serializer 8), "domain": clock domain ("sync" default, "usb", ...),
           "stream": None (StreamInterface / 2-bit-valid 16-bit stream / SuperSpeedStreamInterface by width) |
                     "usbin" (USBInStreamInterface, w=1) | "v1" (StreamInterface(payload_width=8w): ONE valid bit),
           "ints": constant given as an iterable of integers (one per word) instead of bytes}
    A transmission: {"sp", "ml", "pre": idle cycles before the start strobe, "ready": iterable of bits
    (consumed from the first of those idle cycles on; exhausted -> 1), "idle_sp"/"idle_ml": inputs while idle,
    "after": (sp, ml) applied from the cycle after the strobe on (inputs changed right after they were sampled),
    "rst_at": assert the domain reset for one cycle that many cycles after the strobe}.
    """

    def __init__(self, gcfg):
        use_repo()
        from amaranth import ClockDomain, Module
        from amaranth.sim import Simulator
        from luna.gateware.stream import StreamInterface
        from luna.gateware.stream.generator import ConstantStreamGenerator, StreamSerializer
        from luna.gateware.usb.stream import SuperSpeedStreamInterface, USBInStreamInterface
        self.gcfg = gcfg
        data, w = gcfg["data"], gcfg["w"]
        self.w = w
        self.mlw = gcfg.get("mlw") or (8 if gcfg["ser"] else 16)
        self.domain = dom = gcfg.get("domain") or "sync"
        st = gcfg.get("stream")
        self.v1 = bool(w > 1 and (st == "v1" or gcfg["ser"]))
        mlw = self.mlw if gcfg["haslen"] else None

        class HalfWordStream(StreamInterface):          # 16-bit payload with one valid bit per byte
            def __init__(self, payload_width=16):
                super().__init__(payload_width=16, valid_width=2)

        if gcfg["ser"]:
            assert len(data) % w == 0
            self.dut = StreamSerializer(len(data) // w, domain=dom, data_width=8 * w, max_length_width=mlw,
                                        **({"stream_type": USBInStreamInterface} if st == "usbin" else {}))
        else:
            if st == "usbin":
                stype, dw = USBInStreamInterface, None
            elif st == "v1":
                stype, dw = StreamInterface, 8 * w
            else:
                stype, dw = {1: (StreamInterface, None), 2: (HalfWordStream, 16), 4: (SuperSpeedStreamInterface, None)}[w]
            const = bytes(data)
            if gcfg.get("ints"):
                assert len(data) % w == 0 and not gcfg["big"]
                const = [int.from_bytes(bytes(data[i:i + w]), "little") for i in range(0, len(data), w)]
                dw = 8 if w == 1 else dw      # (SuperSpeedStreamInterface takes no payload_width: width from the stream)
            self.dut = ConstantStreamGenerator(const, domain=dom, stream_type=stype, data_width=dw,
                                               max_length_width=mlw,
                                               data_endianness="big" if gcfg["big"] else "little")
        # output_length = min(max_length, len(constant)): for a constant given as multi-byte integers the docstring
        # leaves open whether that length is in entries or bytes (the code counts entries) -> not checked there
        self.has_olen = bool(gcfg["haslen"] and not gcfg["ser"] and not (gcfg.get("ints") and w > 1))
        top = Module()
        self.cd = ClockDomain(dom)
        top.domains += self.cd
        top.submodules.dut = self.dut
        self.sim = Simulator(top)
        self.sim.add_clock(1e-6, domain=dom)
        self.sim.add_testbench(self._bench)
        self._first = True
        self._txs = None
        self._recs = None

    def spec_cfg(self, clean=True):
        g = self.gcfg
        return {"data": list(g["data"]), "w": g["w"], "big": bool(g["big"]), "haslen": bool(g["haslen"]),
                "mlmax": (1 << self.mlw) - 1 if g["haslen"] else len(g["data"]), "olen": self.has_olen,
                "v1": self.v1, "latched": not g["ser"], "clean": bool(clean)}

    async def _bench(self, ctx):
        dut, g, w, dom = self.dut, self.gcfg, self.w, self.domain
        if g["ser"]:
            for j in range(len(g["data"]) // w):
                ctx.set(dut.data[j], int.from_bytes(bytes(g["data"][j * w:(j + 1) * w]), "little"))
        recs = []
        n = len(g["data"])

        async def cycle(start, sp, ml, ready, rst=0):
            ctx.set(dut.start, int(start))
            ctx.set(dut.start_position, sp)
            if g["haslen"]:
                ctx.set(dut.max_length, ml)
            ctx.set(dut.stream.ready, int(ready))
            ctx.set(self.cd.rst, int(rst))
            p = ctx.get(dut.stream.payload)
            r = {"start": bool(start), "sp": int(ctx.get(dut.start_position)),
                 "ml": int(ctx.get(dut.max_length)) if g["haslen"] else n, "ready": bool(ready), "rst": bool(rst),
                 "valid": int(ctx.get(dut.stream.valid)),
                 "lanes": [(p >> (8 * j)) & 0xFF for j in range(w)],
                 "first": bool(ctx.get(dut.stream.first)), "last": bool(ctx.get(dut.stream.last)),
                 "done": bool(ctx.get(dut.done)),
                 "olen": int(ctx.get(dut.output_length)) if self.has_olen else 0}
            recs.append(r)
            await ctx.tick(dom)
            return r

        for tx in self._txs:
            rd = iter(tx.get("ready", ()))
            sp, ml = tx["sp"], (tx["ml"] if g["haslen"] else n)
            for _ in range(tx.get("pre", 0)):
                await cycle(0, tx.get("idle_sp", sp), tx.get("idle_ml", ml) if g["haslen"] else n, next(rd, 1))
            await cycle(1, sp, ml, next(rd, 1))
            sp2, ml2 = tx.get("after", (sp, ml))
            if not g["haslen"]:
                ml2 = n
            rst_at = tx.get("rst_at")
            if ml == 0 and rst_at is None:
                for _ in range(MAXLAT + 2):
                    await cycle(0, sp, ml, next(rd, 1))
                continue
            quiet = 0
            for c in range(40 + 8 * n + 4 * len(tx.get("ready", ()))):
                r = await cycle(0, sp2, ml2, next(rd, 1), rst=(c == rst_at))
                if r["done"] or c == rst_at:
                    break
                quiet = quiet + 1 if r["valid"] == 0 else 0
                if quiet > MAXLAT + 3:        # the module went silent without done: stop, TLC will say why
                    break
        await cycle(0, 0, 0 if g["haslen"] else n, 1)
        self._recs = recs

    def run(self, txs, clean=True):
        self._txs = txs
        if not self._first:
            self.sim.reset()
        self._first = False
        self.sim.run()
        return {"cfg": self.spec_cfg(clean), "steps": self._recs}


def _mlmax(g):
    return (1 << (g.get("mlw") or (8 if g["ser"] else 16))) - 1


def _nwords(g):
    return (len(g["data"]) + g["w"] - 1) // g["w"]


def _legal(g, sp, ml):
    """Mirror of ConstGen!LegalReq, used only to keep *stimuli* inside the Env (TLC re-checks it)."""
    n, w = len(g["data"]), g["w"]
    if sp >= _nwords(g):
        return False
    if not g["haslen"] and ml != n:
        return False
    if g["haslen"] and ml > _mlmax(g):
        return False
    if g["big"] or (w > 1 and (g.get("stream") == "v1" or g["ser"])):      # no cut inside a word
        avail = n - sp * w
        count = min(ml, avail)
        if count < avail and count % w != 0:
            return False
    return True


def _requests(g, extra=2):
    n = len(g["data"])
    mls = range(0, min(n + extra, _mlmax(g)) + 1) if g["haslen"] else [n]
    return [(sp, ml) for sp in range(_nwords(g)) for ml in mls if _legal(g, sp, ml)]


def _stall_pattern(pre, pos, length, lead=1):
    """ready bits (consumed from the first idle cycle on): high, except `length` low cycles exactly while word
    `pos` of the transmission is on offer (`lead` = cycles between strobe and first word in the real modules)."""
    return [1] * (pre + lead + pos) + [0] * length + [1]


def _txs_from_behaviour(beh):
    """Fold a TLC-simulated behaviour of MCConstGen into closed-loop transmissions."""
    txs, cur, idle_ready, prev_phase = [], None, [], "idle"
    for _, st in beh[1:]:
        i = st["in"]
        if i["start"]:
            cur = {"sp": i["sp"], "ml": i["ml"], "pre": len(idle_ready), "ready": idle_ready + [int(i["ready"])]}
            txs.append(cur)
            idle_ready = []
        elif prev_phase != "idle" and cur is not None:
            if i["rst"] and "rst_at" not in cur:
                cur["rst_at"] = len(cur["ready"]) - cur["pre"] - 1
            cur["ready"].append(int(i["ready"]))
        else:
            idle_ready.append(int(i["ready"]))
        prev_phase = st["phase"]
    return txs


def _gkey(g):
    return (len(g["data"]), g["w"], bool(g["big"]), bool(g["haslen"]), bool(g["ser"]), g.get("mlw"),
            g.get("domain"), g.get("stream"), bool(g.get("ints")))


def classify_c27(trace, matched, status, meta):
    steps = trace["steps"]
    k = matched if status != "ok" else matched + 1
    rec = steps[k - 1] if 0 < k <= len(steps) else None
    prev = steps[k - 2] if k >= 2 else None
    pattern = "other"
    latched_sp = None
    for r in steps[:max(k - 1, 0)]:
        if r["start"]:
            latched_sp = r["sp"]
    if rec is not None and status == "first" and trace["cfg"].get("latched") and latched_sp is not None \
            and rec["sp"] != latched_sp and not rec["first"]:
        return {"clause": "first", "pattern": "start_position_changed_after_strobe"}
    if rec is not None:
        if prev is not None and prev["valid"] and not prev["ready"]:
            pattern = "after_stall"
        elif rec["valid"] and rec["last"]:
            pattern = "on_last_word"
        elif rec["done"]:
            pattern = "on_done"
    return {"clause": status, "pattern": pattern}


def check_C27(rep):
    quick = rep.tier == "quick"
    rng = rep.rng
    rep.rule = ("transmissions (configuration, start_position, max_length) completed on the real generator and "
                "accepted cycle by cycle by ConstGenTrace; non-trivial = a start strobe was issued; distinct by "
                "(data length, width, byte order, has max_length, serializer?, start, max_length, stall seen)")
    rep.assume("start is asserted only while no transmission is in progress (strictly after the done pulse)")
    rep.assume("start_position and max_length are held from the start strobe until the transmission is over")
    rep.assume("the start position lies within the data (counted in words); generators built without "
               "max_length_width always send up to the data length")
    rep.assume("big-endian constants: the length limit does not cut inside a word (which lanes are 'the bytes "
               "sent' is undocumented there)")
    rep.assume("latency is free: <= %d cycles from start to the first word, between words while none is on "
               "offer, and from the last word to done; a zero-length request may or may not pulse done" % MAXLAT)
    rep.assume("StreamSerializer is bound with 8-bit data (its max_length counts words)")

    import time
    t0 = time.time()
    phases = {}
    # 1. exhaustive exploration of the specification (TLC chooses the configuration too)
    mcb = {"MaxLat": 2 if quick else 3, "NsByte": "{1, 2, 3}" if quick else "{1, 2, 3, 4, 5, 6, 9}",
           "NsHalf": "{3, 4}" if quick else "{1, 2, 3, 4, 5, 9}",
           "NsWide": "{1, 4, 5, 9}" if quick else "{1, 2, 3, 4, 5, 7, 8, 9, 12}",
           "PortMax": "{7, 65535}", "ExtraLen": 2}       # port maximum 7 = max_length_width 3: below 9 and 12
    res = tlc.model_check(SPEC_DIR, "MCConstGen", tlc.render_cfg(_cfg("MCConstGen.cfg.tmpl"), mcb),
                          workers=4 if quick else 8, timeout=1500)
    rep.add_mc("MCConstGen %s" % mcb, res, mcb)
    phases["model_check"] = round(time.time() - t0, 1)

    jobs = []      # (gcfg, [tx...], origin)

    # 2a. spec -> code: TLC-simulated behaviours, replayed closed-loop (generator and, byte-wide, serializer)
    simb = dict(mcb, NsByte="{1, 2, 3, 5, 9}", NsHalf="{2, 3, 5, 9}", NsWide="{1, 3, 4, 5, 6, 9, 12}")
    behs = tlc.simulate(SPEC_DIR, "MCConstGen", tlc.render_cfg(_cfg("MCConstGen_sim.cfg.tmpl"), simb),
                        num=60 if quick else 2000, depth=50, seed=rep.seed * 11 + 3)
    phases["simulate"] = round(time.time() - t0, 1)
    for b in behs:
        c = b[0][1]["cfg"]
        g = {"data": list(c["data"]), "w": c["w"], "big": c["big"], "haslen": c["haslen"], "ser": False,
             "mlw": {7: 3, 65535: 16}.get(c["mlmax"]) if c["haslen"] else None}
        txs = _txs_from_behaviour(b)
        if not txs:
            continue
        jobs.append((g, txs, "tlc-simulate"))
        if g["w"] == 1:
            jobs.append((dict(g, ser=True, mlw=3 if g["mlw"] == 3 else None), txs, "tlc-simulate"))

    # 2b. code -> spec: exhaustive (start, max_length, stall position) sweep over small constants
    sweep = []
    for n in ([1, 2, 3, 5, 8] if quick else [1, 2, 3, 4, 5, 6, 7, 8, 9, 15, 16, 17]):
        for haslen in (True, False):
            sweep.append({"data": data_of(n, 1), "w": 1, "big": False, "haslen": haslen, "ser": False})
            sweep.append({"data": data_of(n, 2), "w": 1, "big": False, "haslen": haslen, "ser": True})
    for n in ([1, 3, 4, 5, 8, 9, 11] if quick else [1, 2, 3, 4, 5, 6, 7, 8, 9, 10, 11, 12, 13, 15, 16, 17, 20, 21]):
        for big in (False, True):
            for haslen in (True, False):
                sweep.append({"data": data_of(n, 3), "w": 4, "big": big, "haslen": haslen, "ser": False})
    for g in sweep:
        txs = []
        for sp, ml in _requests(g):
            nw = -(-min(ml, len(g["data"]) - sp * g["w"]) // g["w"]) if ml else 0
            pats = [None]                                          # ready always high
            pats += list(range(nw))                                # a stall on every word, incl. the last
            if nw:
                pats.append("late")                                # ready low when the first word appears
            if quick and len(g["data"]) > 5 and len(pats) > 3:
                pats = [None, nw - 1, pats[rng.randrange(len(pats))]]
            for p in pats:
                pre = rng.choice([0, 0, 1, 2])
                ready = [] if p is None else [0, 0, 0, 0, 1, 0, 1, 1, 0, 0, 1] if p == "late" else \
                    _stall_pattern(pre, p, 1 + (p + sp) % 2)
                txs.append({"sp": sp, "ml": ml, "pre": pre, "ready": ready,
                            "idle_sp": rng.randrange(_nwords(g)), "idle_ml": rng.randrange(len(g["data"]) + 3)})
        rng.shuffle(txs)
        for i in range(0, len(txs), 40):
            jobs.append((g, txs[i:i + 40], "sweep"))

    # 2b'. code -> spec: narrow max_length ports (max_length_width 3, 4, 5) over constants both shorter and
    # longer than the port can express, every word width, max_length over the *whole* port range 0 .. 2^W - 1
    port = []
    for mlw, lens in ((3, (5, 12)), (4, (11, 20)), (5, (20, 37))):
        for n in lens:
            for w in (1, 2, 4):
                if quick and ((w == 1 and mlw == 5) or (mlw == 5 and n < 32 and w == 2)):
                    continue            # (quick keeps the multi-byte words, where count-after-word can overflow)
                port.append({"data": data_of(n, 5), "w": w, "big": False, "haslen": True, "ser": False, "mlw": mlw})
            if not quick or (mlw == 4 and n > 16):
                port.append({"data": data_of(n, 6), "w": 4, "big": True, "haslen": True, "ser": False, "mlw": mlw})
            if not quick or (mlw == 3 and n > 8):
                port.append({"data": data_of(n, 7), "w": 1, "big": False, "haslen": True, "ser": True, "mlw": mlw})
    for g in port:
        nwt, top = _nwords(g), _mlmax(g)
        sps = sorted({0, 1, max(0, nwt - top // g["w"] - 1), nwt - 1} & set(range(nwt))) if quick \
            else list(range(nwt))
        txs = []
        for sp in sps:
            for ml in range(top + 1):
                if not _legal(g, sp, ml):
                    continue
                nw = -(-min(ml, len(g["data"]) - sp * g["w"]) // g["w"]) if ml else 0
                pats = [None] + ([nw - 1] if nw else [])
                if not quick and nw:
                    pats += sorted({0, rng.randrange(nw), rng.randrange(nw)} - {nw - 1}) + ["late"]
                elif ml < top - 3 and nw > 1:
                    pats = [pats[rng.randrange(len(pats))]]          # (the top of the range keeps both patterns)
                for p in pats:
                    pre = rng.choice([0, 0, 1])
                    ready = [] if p is None else [0, 0, 0, 0, 1, 0, 1, 1, 0, 0, 1] if p == "late" else \
                        _stall_pattern(pre, p, 1 + (p + sp) % 2)
                    txs.append({"sp": sp, "ml": ml, "pre": pre, "ready": ready,
                                "idle_sp": rng.randrange(nwt), "idle_ml": rng.randrange(top + 1)})
        rng.shuffle(txs)
        for i in range(0, len(txs), 60):
            jobs.append((g, txs[i:i + 60], "port-range-sweep"))

    # 2b''. code -> spec: one configuration per constructor-parameter value class (docs: configuration coverage):
    # clock domain, stream_type (USB IN stream, one-valid-bit wide streams, SuperSpeed), constant given as integers,
    # max_length_width 1 and 2, multi-byte StreamSerializer; inputs changed right after the strobe; domain reset
    G = lambda **kw: dict({"big": False, "haslen": True, "ser": False}, **kw)
    classes = [
        G(data=data_of(6, 8), w=1, domain="usb", stream="usbin"),
        G(data=data_of(10, 8), w=4, domain="usb"),
        G(data=data_of(5, 8), w=1, ints=True, domain="fast"),
        G(data=data_of(12, 8), w=4, ints=True, mlw=5),
        G(data=data_of(7, 8), w=2, stream="v1", mlw=4),
        G(data=data_of(10, 8), w=4, stream="v1"),
        G(data=data_of(8, 8), w=2, ser=True, haslen=False),
        G(data=data_of(8, 8), w=4, ser=True, haslen=False, domain="usb"),
        G(data=data_of(3, 8), w=1, mlw=1),
        G(data=data_of(6, 8), w=4, mlw=2),
        G(data=data_of(3, 8), w=1, ser=True, mlw=1),
        G(data=data_of(5, 8), w=1, ser=True, domain="usb", stream="usbin", mlw=16),
        G(data=data_of(9, 8), w=4, big=True, domain="usb", mlw=4),
    ]
    if quick:                                    # all classes every run; their order/requests rotate with the seed
        rng.shuffle(classes)
    witnesses = []
    for ci, g in enumerate(classes):
        txs = []
        reqs = _requests(g)
        if quick and len(reqs) > 14:
            reqs = rng.sample(reqs, 14)
        for sp, ml in reqs:
            nw = -(-min(ml, len(g["data"]) - sp * g["w"]) // g["w"]) if ml else 0
            pre = rng.choice([0, 1])
            tx = {"sp": sp, "ml": ml, "pre": pre,
                  "ready": [] if not nw or rng.random() < 0.5 else _stall_pattern(pre, rng.randrange(nw), 2),
                  "idle_sp": rng.randrange(_nwords(g)), "idle_ml": rng.randrange(_mlmax(g) + 1) if g["haslen"] else 0}
            if not g["ser"] and g["haslen"] and rng.random() < 0.5:       # max_length changed right after the strobe
                tx["after"] = (sp, rng.randrange(_mlmax(g) + 1))
            if rng.random() < 0.25:                                       # domain reset in mid-operation
                tx["rst_at"] = rng.randrange(0, nw + 3)
            txs.append(tx)
        jobs.append((g, txs, "config-classes"))
        if not g["ser"] and _nwords(g) > 1:        # witness: start_position changed right after the strobe
            wtx = []
            for sp, ml in rng.sample(reqs, min(3, len(reqs))):
                if ml:
                    wtx.append({"sp": sp, "ml": ml, "pre": 1, "ready": [1, 0, 0, 1],
                                "after": ((sp + 1 + rng.randrange(_nwords(g) - 1)) % _nwords(g), ml)})
            if wtx:
                witnesses.append((g, wtx, "config-classes"))
    # the same two stimulus lessons on the classic configurations
    for g in (G(data=data_of(9, 9), w=1), G(data=data_of(11, 9), w=4), G(data=data_of(11, 9), w=4, big=True, mlw=8)):
        txs = []
        rq = _requests(g)
        for sp, ml in rng.sample(rq, min(len(rq), 12 if quick else 60)):
            nw = -(-min(ml, len(g["data"]) - sp * g["w"]) // g["w"]) if ml else 0
            tx = {"sp": sp, "ml": ml, "pre": rng.choice([0, 1]), "ready": [int(rng.random() > 0.3) for _ in range(12)],
                  "after": (sp, rng.randrange(len(g["data"]) + 3))}
            if g["big"]:
                tx.pop("after")
            if rng.random() < 0.4:
                tx["rst_at"] = rng.randrange(0, nw + 3)
            txs.append(tx)
        jobs.append((g, txs, "strobe-and-reset"))
        witnesses.append((g, [{"sp": 1, "ml": len(g["data"]), "pre": 0, "ready": [], "after": (0, len(g["data"]))}],
                          "strobe-and-reset"))

    # 2c. code -> spec: random constants and schedules beyond the model's bounds
    for _ in range(12 if quick else 400):
        w = rng.choice([1, 1, 2, 4, 4, 4])
        n = rng.choice([1, 2, 7, 12, 18, 31, 32, 33, 64, 100]) if w == 1 else rng.choice([1, 2, 6, 10, 15, 16, 17, 30, 63, 64, 65])
        g = {"data": [rng.randrange(256) for _ in range(n)], "w": w, "big": w == 4 and rng.random() < 0.4,
             "haslen": rng.random() < 0.8, "ser": w == 1 and n <= 34 and rng.random() < 0.4,
             "mlw": rng.choice([None, None, 3, 4, 5, 6, 7])}
        top = _mlmax(g)
        txs = []
        for _ in range(12 if quick else 30):
            for _ in range(50):
                sp = rng.randrange(_nwords(g))
                ml = rng.choice([0, 1, 2, 3, 4, 5, n - 1, n, n + 1, 1000, rng.randrange(n + 3),
                                 top, top - 1, top - 2, top - 3, rng.randrange(top + 1)])
                ml = min(max(ml, 0), top)
                if _legal(g, sp, ml if g["haslen"] else n):
                    break
            else:
                continue
            p = rng.choice([0.0, 0.2, 0.5, 0.8])
            txs.append({"sp": sp, "ml": ml, "pre": rng.choice([0, 0, 1, 3]),
                        "ready": [int(rng.random() >= p) for _ in range(3 * n // w + 12)],
                        "idle_sp": rng.randrange(_nwords(g)), "idle_ml": rng.randrange(min(n + 3, top + 1))})
        jobs.append((g, txs, "random"))

    # 3. run on the real modules
    benches = {}
    items = []
    unbuildable = set()
    by_origin = {}
    for g, txs, origin, clean in [j + (True,) for j in jobs] + [w + (False,) for w in witnesses]:
        key = (tuple(g["data"]),) + _gkey(g)
        if key not in benches:
            try:
                benches[key] = GenBench(g)
            except Exception as ex:          # configuration cannot be built at all: nothing to bind
                if g["haslen"]:
                    raise
                import warnings
                from amaranth.hdl import UnusedElaboratable
                warnings.simplefilter("ignore", UnusedElaboratable)     # the half-built module is dropped
                benches[key] = None
                unbuildable.add(("StreamSerializer" if g["ser"] else "ConstantStreamGenerator",
                                 "%s: %s" % (type(ex).__name__, str(ex).splitlines()[0][:120])))
        if benches[key] is None:
            continue
        trace = benches[key].run(txs, clean=clean)
        rep.add_eval(len(trace["steps"]))
        by_origin[origin] = by_origin.get(origin, 0) + len(trace["steps"])
        stalled = False
        cur = None
        for r in trace["steps"]:
            if r["start"]:
                if cur:
                    rep.nontriv(cur + (stalled,))
                cur, stalled = _gkey(g) + (r["sp"], r["ml"]), False
            elif r["valid"] and not r["ready"]:
                stalled = True
        if cur:
            rep.nontriv(cur + (stalled,))
        items.append((trace, {"dut": "StreamSerializer" if g["ser"] else "ConstantStreamGenerator",
                              "n": len(g["data"]), "w": g["w"], "big": g["big"], "haslen": g["haslen"],
                              "mlw": benches[key].mlw if g["haslen"] else None,
                              "domain": benches[key].domain, "stream": g.get("stream"), "ints": bool(g.get("ints")),
                              "class": "clean" if clean else "witness",
                              "origin": origin, "transmissions": len(txs)}))
    for dut, why in sorted(unbuildable):
        rep.notes.append("%s built without max_length_width does not elaborate on this tree (%s); that "
                         "configuration is therefore not bound (nothing to observe)" % (dut, why))
    for t, m in items[:3]:
        rep.sample({"meta": m, "cfg": t["cfg"], "first_cycles": t["steps"][:8]})


    phases["gateware_runs"] = round(time.time() - t0, 1)
    rep.extra["cycles_by_origin"] = by_origin
    # DRIFT info (never verdict-bearing): start positions beyond the data are outside the property's quantifier
    # ("start position within the data"); record whether the documented clamp (send the last word) is what happens.
    for g in ({"data": data_of(5, 4), "w": 1, "big": False, "haslen": True, "ser": False},
              {"data": data_of(11, 4), "w": 4, "big": False, "haslen": True, "ser": False}):
        bench = GenBench(g)
        nw = _nwords(g)
        odd = []
        for sp in range(nw, 1 << max(1, (len(g["data"]) - 1).bit_length())):
            t = bench.run([{"sp": sp, "ml": 1000, "ready": [1] * 40}])
            words = [r["lanes"] for r in t["steps"] if r["valid"] and r["ready"]]
            if len(words) != 1:
                odd.append((sp, len(words)))
        if odd:
            rep.drift.append({"info": "start_position beyond the data (outside the property): documented clamp "
                                      "(only the last word) not observed", "width_bytes": g["w"],
                              "data_bytes": len(g["data"]), "words": nw,
                              "(start_position, words emitted)": odd[:6]})

    # 4. TLC decides
    cfg = tlc.render_cfg(_cfg("ConstGenTrace.cfg.tmpl"), {"MaxLat": MAXLAT})

    def describe(trace, meta, k, n, status, sig):
        ctx = trace["steps"][max(0, k - 3):k]
        return ("C27 %s: real-gateware trace rejected by ConstGenTrace at cycle %d/%d, clause '%s' (%s); data=%s; "
                "last cycles: %s" % (meta, k, n, status, sig.get("pattern"), trace["cfg"]["data"][:16], ctx))

    def canary(t):
        for r in t["steps"]:                   # flip one payload bit of the first accepted word
            if r["valid"] and r["ready"]:
                r["lanes"][0] ^= 0x10
                return t
        return None

    _decide(rep, "ConstGenTrace", cfg, items, classify_c27, describe, canary)
    phases["trace_validation"] = round(time.time() - t0, 1)
    rep.extra["phase_end_s"] = phases


# =====================================================================================================
#  C09 — GET_DESCRIPTOR
# =====================================================================================================
# A *table* is a list of entries {"t": type, "i": index, "d": [bytes], "rt": runtime descriptor?}.
# DUT kinds: unit level "block" / "dist" / "mux" (bare handlers); end-to-end (USBDevice + standard control
# endpoint over UTMI) "dev-block" (avoid_blockram=False, ROM handler), "dev-mux" (avoid_blockram=False with
# runtime descriptors: StandardRequestHandler builds the multiplexer) and "dev-dist" (avoid_blockram=True).
# "block" / "dev-block" take every entry as a ROM descriptor (the rt flag is dropped).
MAXNAK = 3
UNIT_KINDS = ("block", "dist", "mux")
E2E_KINDS = ("dev-block", "dev-mux", "dev-dist")


def _served_by_distributed(kind, e):
    return kind in ("dist", "dev-dist") or (kind in ("mux", "dev-mux") and e["rt"])


def _is_mux(kind, table):
    return kind in ("mux", "dev-mux")


def spec_cfg_of(kind, table, maxpkt, clean):
    return {"table": [{"v": e["t"] * 256 + e["i"], "d": list(e["d"]), "dist": _served_by_distributed(kind, e)}
                      for e in table],
            "maxpkt": maxpkt, "level": "unit" if kind in UNIT_KINDS else "e2e" if kind in E2E_KINDS else "mc",
            "clean": bool(clean), "mux": _is_mux(kind, table),
            "autolang": kind == "dev-mux"}


# Mirrors of the KF_* predicates of GetDesc.tla — used only to sort *stimuli* into clean / witness classes
# (TLC re-checks every clean trace against the predicates themselves).
def _entry(table, v):
    return next((e for e in table if e["t"] * 256 + e["i"] == v), None)


def kf_dist_end(kind, table, maxpkt, v, wlen):
    e = _entry(table, v)
    return bool(e) and _served_by_distributed(kind, e) and len(e["d"]) % maxpkt == 0 and wlen > len(e["d"])


def kf_mux_lang(kind, table, v):
    return kind == "dev-mux" and v == 0x300


def split_stimuli(kind, table, maxpkt, plans, max_witness):
    """-> (clean plans, [(witness plans, finding id)]).  Clean: no KF_* trigger; in the multiplexer variants the
    transfers for ROM / missing descriptors come first, those for runtime descriptors last (KF_MuxStale)."""
    def served_rt(p):
        e = _entry(table, p["v"])
        return bool(e) and _served_by_distributed(kind, e)
    mux = _is_mux(kind, table)
    clean, wit = [], []
    for p in plans:
        if kf_dist_end(kind, table, maxpkt, p["v"], p["wlen"]):
            wit.append(([p], "C09-dist-no-zlp-at-descriptor-end"))
        elif kf_mux_lang(kind, table, p["v"]):
            wit.append(([p], "C09-mux-duplicate-language-descriptor"))
        else:
            clean.append(p)
    if mux:
        rt = [p for p in clean if served_rt(p) and p.get("stop_after") != 0]
        fx = [p for p in clean if _entry(table, p["v"]) and not served_rt(p) and p.get("stop_after") != 0]
        for a, b in list(zip(rt, fx))[:2]:
            wit.append(([dict(a), dict(b)], "C09-mux-stale-stall-latch"))
        clean = [p for p in clean if not served_rt(p)] + [p for p in clean if served_rt(p)]
    # a bounded, evenly spread selection of witnesses per finding
    out, seen = [], {}
    for w in wit:
        seen[w[1]] = seen.get(w[1], 0) + 1
        if seen[w[1]] <= max_witness:
            out.append(w)
    return clean, out


def _runtime_descriptor(data):
    """A runtime (non-ROM) descriptor the way LUNA does them: a StreamSerializer in the usb domain."""
    from amaranth import Elaboratable, Module
    from luna.gateware.stream.generator import StreamSerializer
    from luna.gateware.usb.stream import USBInStreamInterface

    class RuntimeDescriptor(Elaboratable):
        def __init__(self):
            self.ser = StreamSerializer(len(data), domain="usb", stream_type=USBInStreamInterface,
                                        max_length_width=16)
            self.data_length = self.ser.data_length          # (a StreamSerializer subclass has these)
            self.start, self.done, self.stream = self.ser.start, self.ser.done, self.ser.stream
            self.max_length, self.start_position = self.ser.max_length, self.ser.start_position

        def elaborate(self, platform):
            m = Module()
            m.submodules.ser = self.ser
            m.d.comb += [self.ser.data[j].eq(b) for j, b in enumerate(data)]
            return m
    return RuntimeDescriptor


def _collection(entries, runtime=True):
    from usb_protocol.emitters.descriptors import DeviceDescriptorCollection
    # an entry flagged "auto" is the (STRING, 0) language descriptor the collection adds by itself
    c = DeviceDescriptorCollection(automatic_language_descriptor=any(e.get("auto") for e in entries))
    for e in entries:
        if e.get("auto"):
            continue
        d = _runtime_descriptor(list(e["d"])) if (runtime and e["rt"]) else bytes(e["d"])
        c.add_descriptor(d, index=e["i"], descriptor_type=e["t"])
    return c


def table_for(kind, table):
    """The table as instantiated for a DUT kind."""
    if kind in ("block", "dev-block"):
        return [dict(e, rt=False) for e in table]
    return table


def kind_supports(kind, table):
    fixed = [e for e in table if not e["rt"]]
    rts = [e for e in table if e["rt"]]
    if any(len(e["d"]) == 0 for e in rts):
        return False
    if kind in ("mux", "dev-mux") and not (rts and fixed):
        return False
    if kind in ("block", "dev-block") and rts:
        return False
    if kind in E2E_KINDS:
        # StandardRequestHandler adds an automatic language descriptor to the ROM when (STRING, 0) is absent:
        # keep the table identical for all variants by always providing one.
        return any(e["t"] == 3 and e["i"] == 0 for e in table)
    return True


class HandlerBench:
    """A bare descriptor handler, driven the way StandardRequestHandler drives it (value/length held,
    start_position = k * MaxPkt, one-cycle start strobe per IN token) and observed by a USB IN-stream
    consumer: `lazy` (like USBDataPacketGenerator: ready low until a packet's first byte was seen and for the
    PID byte, then a bounded-stall pattern; a zero-length packet is seen, never accepted) or `eager`
    (ready always high, like the repository's unit tests)."""

    def __init__(self, kind, table, maxpkt, opts=None):
        use_repo()
        from amaranth import ClockDomain, Module
        from amaranth.sim import Simulator
        from luna.gateware.usb.usb2 import descriptor as D
        self.kind, self.table, self.maxpkt = kind, table, maxpkt
        opts = opts or {}
        self.domain = dom = opts.get("domain", "usb") if kind == "block" else "usb"
        if kind == "block":
            dut = D.GetDescriptorHandlerBlock(_collection(table), max_packet_length=maxpkt,
                                              **({"domain": dom} if "domain" in opts else {}))
        elif kind == "dist":
            dut = D.GetDescriptorHandlerDistributed(_collection(table), max_packet_length=maxpkt)
        else:   # exactly what StandardRequestHandler.get_descriptor_handler_submodule builds
            dut = D.GetDescriptorHandlerMux()
            dut.add_descriptor_handler(D.GetDescriptorHandlerBlock(
                _collection([e for e in table if not e["rt"]]), max_packet_length=maxpkt))
            dut.add_descriptor_handler(D.GetDescriptorHandlerDistributed(
                _collection([e for e in table if e["rt"]]), max_packet_length=maxpkt))
        self.dut = dut
        self.max_pkts = max(len(e["d"]) for e in table) // maxpkt + 3   # a host gives up eventually
        top = Module()
        self.cd = ClockDomain(dom)
        top.domains += self.cd
        top.submodules.dut = dut
        self.sim = Simulator(top)
        self.sim.add_clock(1 / 60e6, domain=dom)
        self.sim.add_testbench(self._bench)
        self._first = True
        self.cycles = 0

    async def _bench(self, ctx):
        dut, rng, maxpkt = self.dut, self._rng, self.maxpkt
        steps = []
        spur = 0
        eager = False

        async def quiet(n):
            nonlocal spur
            for _ in range(n):
                ctx.set(dut.start, 0)
                ctx.set(dut.tx.ready, 1 if eager else 0)
                if ctx.get(dut.tx.valid) or ctx.get(dut.stall):
                    spur += 1
                await ctx.tick(self.domain)
                self.cycles += 1

        def take_spur():
            nonlocal spur
            n, spur = spur, 0
            return n

        for tr in self._transfers:
            eager = tr.get("eager", False)
            p_stall = tr.get("p_stall", 0.0)
            ctx.set(dut.value, tr["v"])
            ctx.set(dut.length, tr["wlen"])
            ctx.set(dut.start_position, 0)
            await quiet(rng.randint(2, 5))
            steps.append({"e": "setup", "v": tr["v"], "wlen": tr["wlen"], "spur": take_spur()})
            acks = iter(tr.get("acks", ()))
            stop_after = tr.get("stop_after")
            off, got, npk, stalled, nin = 0, 0, 0, False, 0
            while True:
                if (stop_after is not None and npk >= stop_after) or npk >= self.max_pkts:
                    break
                ctx.set(dut.start_position, off)
                await quiet(rng.randint(1, 3))
                if tr.get("rst_in") == nin:
                    # reset of the handler's clock domain in the middle of this IN: whatever it was doing is
                    # abandoned (not observed); afterwards it must be silent and serve the next request normally
                    sp0 = take_spur()
                    for cyc in range(tr.get("rst_cyc", 3) + 1):
                        ctx.set(dut.start, 1 if cyc == 0 else 0)
                        ctx.set(dut.tx.ready, 1 if eager else 0)
                        ctx.set(self.cd.rst, 1 if cyc == tr.get("rst_cyc", 3) else 0)
                        await ctx.tick(self.domain)
                        self.cycles += 1
                    ctx.set(self.cd.rst, 0)
                    ctx.set(dut.start, 0)
                    steps.append({"e": "reset", "spur": sp0})
                    stalled = True
                    break
                nin += 1
                rec = {"e": "in", "off": off, "spur": take_spur()}
                # ---- response window -------------------------------------------------------------
                inpkt, zlp, stall, done = False, False, False, False
                beats, firsts, lasts, gaps, junk = [], [], [], 0, 0
                hold = 0          # cycles the lazy consumer still keeps ready low (PID byte)
                nstall = 0
                for cyc in range(60 + 8 * maxpkt):
                    ctx.set(dut.start, 1 if cyc == 0 else 0)
                    if eager:
                        ready = 1
                    elif not inpkt or hold > 0:
                        ready = 0
                    elif p_stall and nstall < 3 and rng.random() < p_stall:
                        ready = 0
                    else:
                        ready = 1
                    nstall = nstall + 1 if (inpkt and not ready) else 0
                    ctx.set(dut.tx.ready, ready)
                    valid, first, last = ctx.get(dut.tx.valid), ctx.get(dut.tx.first), ctx.get(dut.tx.last)
                    payload = ctx.get(dut.tx.payload)
                    if ctx.get(dut.stall):
                        stall, done = True, True
                    if valid:
                        if not inpkt:
                            if first:
                                inpkt, hold = True, (0 if eager else rng.randint(1, 2) + 1)
                            elif last:
                                zlp, done = True, True
                            else:
                                junk += 1
                        if inpkt and ready:
                            beats.append(int(payload)); firsts.append(bool(first)); lasts.append(bool(last))
                            if last:
                                done = True
                    elif inpkt:
                        gaps += 1
                    if hold > 0:
                        hold -= 1
                    await ctx.tick(self.domain)
                    self.cycles += 1
                    if done:
                        break
                ctx.set(dut.start, 0)
                ctx.set(dut.tx.ready, 1 if eager else 0)
                if stall and not beats and not zlp:
                    k = "stall"
                elif not stall and (beats or zlp) and not (beats and zlp) and done:
                    k = "data"
                elif not stall and not beats and not zlp:
                    k = "none"
                else:
                    k = "bad"
                ack = bool(next(acks, True))
                rec.update({"ack": ack, "k": k, "bytes": beats, "first": firsts, "last": lasts, "zlp": zlp,
                            "gaps": gaps, "junk": junk, "stall": stall})
                steps.append(rec)
                await quiet(rng.randint(2, 5))
                if k != "data":
                    stalled = True
                    break
                if ack:
                    npk += 1
                    got += len(beats)
                    off += maxpkt            # standard.py: start_position += max_packet_size on every ACK
                    if len(beats) < maxpkt or got >= tr["wlen"]:
                        break
            if not stalled:
                steps.append({"e": "status", "k": "none", "spur": take_spur()})
            await quiet(rng.randint(1, 4))
        await quiet(12)
        steps.append({"e": "end", "spur": take_spur()})
        self._steps = steps

    def run(self, transfers, rng):
        self._transfers, self._rng = transfers, rng
        if not self._first:
            self.sim.reset()
        self._first = False
        self.sim.run()
        return self._steps


class DeviceBench:
    """A real USBDevice (UTMI, full speed) with a standard control endpoint, driven by hosts/utmi.UTMIHost."""

    def __init__(self, kind, table, maxpkt, opts=None):
        use_repo()
        from amaranth import ClockDomain, Module
        from amaranth.sim import Simulator
        from luna.gateware.interface.utmi import UTMIInterface
        from luna.gateware.usb.usb2.control import USBControlEndpoint
        from luna.gateware.usb.usb2.device import USBDevice
        self.kind, self.table, self.maxpkt = kind, table, maxpkt
        self.bus = UTMIInterface()
        self.dev = USBDevice(bus=self.bus)
        ep = USBControlEndpoint(utmi=self.bus, max_packet_size=maxpkt)
        opts = opts or {}
        if opts.get("avoid_env"):             # avoid_blockram=None: the handler defers to LUNA_AVOID_BLOCKRAM
            old = os.environ.get("LUNA_AVOID_BLOCKRAM")
            if kind == "dev-dist":
                os.environ["LUNA_AVOID_BLOCKRAM"] = "1"
            else:
                os.environ.pop("LUNA_AVOID_BLOCKRAM", None)
            try:
                ep.add_standard_request_handlers(_collection(table))
            finally:
                os.environ.pop("LUNA_AVOID_BLOCKRAM", None)
                if old is not None:
                    os.environ["LUNA_AVOID_BLOCKRAM"] = old
        else:
            ep.add_standard_request_handlers(_collection(table), avoid_blockram=(kind == "dev-dist"))
        self.max_pkts = max(len(e["d"]) for e in table) // maxpkt + 3
        self.dev.add_endpoint(ep)
        top = Module()
        self.cd = ClockDomain("usb")
        top.domains += self.cd
        top.submodules.dev = self.dev
        self.sim = Simulator(top)
        self.sim.add_clock(1 / 12e6, domain="usb")
        self.sim.add_testbench(self._bench)
        self._first = True
        self.cycles = 0

    async def _bench(self, ctx):
        from ..hosts import utmi as H
        rng, maxpkt = self._rng, self.maxpkt
        H.prime_device(ctx, self.dev)
        host = H.UTMIHost(self.bus, rng, gap_prob=self._gap, stall_prob=self._stall)
        steps = []
        consumed = 0

        def take_spur():
            nonlocal consumed
            n = len(host.device_packets) - consumed
            consumed = len(host.device_packets)
            return n

        def kind_of(r):
            if r.get("kind") == "data":
                return "data"
            if r.get("kind") == "hs":
                return {"STALL": "stall", "NAK": "nak", "ACK": "ack"}.get(r["pid"], "bad")
            return "none" if r.get("kind") == "none" else "bad"

        await host.idle(ctx, 10)
        for tr in self._transfers:
            await host.idle(ctx, rng.randint(3, 8))
            spur = take_spur()
            r = await host.setup(ctx, 0, H.setup_bytes(0x80, 6, tr["v"], tr.get("windex", 0), tr["wlen"]))
            consumed = len(host.device_packets)
            steps.append({"e": "setup", "v": tr["v"], "wlen": tr["wlen"], "spur": spur,
                          "resp": r.get("pid", r.get("kind"))})
            acks = iter(tr.get("acks", ()))
            stop_after = tr.get("stop_after")
            got, npk, naks, stalled, nin = 0, 0, 0, False, 0
            while True:
                if (stop_after is not None and npk >= stop_after) or npk >= self.max_pkts:
                    break
                await host.idle(ctx, rng.randint(3, 8))
                spur = take_spur()
                if tr.get("rst_in") == nin:
                    # reset of the usb clock domain between two transactions of the data stage
                    ctx.set(self.cd.rst, 1)
                    await host.idle(ctx, 1)
                    ctx.set(self.cd.rst, 0)
                    await host.idle(ctx, 20)
                    steps.append({"e": "reset", "spur": spur})
                    stalled = True
                    break
                nin += 1
                ack = bool(next(acks, True))
                r = await host.in_transaction(ctx, 0, 0, ack=ack)
                consumed = len(host.device_packets)
                k = kind_of(r)
                k = "bad" if k == "ack" else k
                rec = {"e": "in", "ack": ack, "k": k, "bytes": list(r.get("payload", [])) if k == "data" else [],
                       "pid": r.get("pid", ""), "crc_ok": bool(r.get("crc_ok", False)), "spur": spur}
                if k == "bad":
                    rec["raw"] = {x: r[x] for x in r if x in ("why", "bytes", "pid")}
                steps.append(rec)
                if k == "nak":
                    naks += 1
                    if naks > MAXNAK:
                        stalled = True
                        break
                    continue
                naks = 0
                if k != "data":
                    stalled = True
                    break
                if not ack:
                    await host.idle(ctx, 12)
                    continue
                npk += 1
                got += len(rec["bytes"])
                if len(rec["bytes"]) < maxpkt or got >= tr["wlen"]:
                    break
            if not stalled:
                await host.idle(ctx, rng.randint(3, 8))
                spur = take_spur()
                r = await host.out_transaction(ctx, 0, 0, "DATA1", [])
                consumed = len(host.device_packets)
                steps.append({"e": "status", "k": kind_of(r), "resp": r.get("pid", r.get("kind")), "spur": spur})
        await host.idle(ctx, 60)
        steps.append({"e": "end", "spur": take_spur()})
        self.cycles += host.cycle_no
        self._steps = steps

    def run(self, transfers, rng, gap=0.0, stall=0.0):
        self._transfers, self._rng, self._gap, self._stall = transfers, rng, gap, stall
        if not self._first:
            self.sim.reset()
        self._first = False
        self.sim.run()
        return self._steps


def make_bench(kind, table, maxpkt, opts=None):
    return (HandlerBench if kind in UNIT_KINDS else DeviceBench)(kind, table, maxpkt, opts)


# ---- configuration families --------------------------------------------------------------------------
MC_KEYS = [(1, 0), (2, 0), (3, 0), (3, 2), (3, 5), (15, 0)]      # sparse string indices, a high type


def desc_bytes(j, n):
    return [(j * 40 + i * 3 + 1) % 256 for i in range(n)]


def mc_family(maxpkts, rots):
    """Tables whose descriptor lengths sit around the packet-size multiples; every key gets every length."""
    out = []
    for m in maxpkts:
        lens = [0, 1, m - 1, m, m + 1, 2 * m, 2 * m + 1]
        for rot in rots:
            table = []
            for j, (t, i) in enumerate(MC_KEYS):
                n = lens[(j + rot) % len(lens)]
                table.append({"t": t, "i": i, "d": desc_bytes(j, n), "rt": (t, i) in ((3, 2), (3, 5)) and n > 0})
            out.append((table, m))
    return out


def random_table(rng, maxpkt, big):
    n = rng.randint(2, 7)
    keys = {(3, 0)}
    while len(keys) < n:
        keys.add((rng.choice([1, 2, 3, 3, 3, 4, 6, 7, 0x0B, 0x0F, rng.randrange(16)]),
                  rng.choice([0, 0, 1, 2, 3, 5, 9, 100, 254, 255])))
    table = []
    for t, i in sorted(keys):
        m = maxpkt
        ln = rng.choice([1, 2, 4, 9, 18, m - 1, m, m + 1, 2 * m, 3 * m, rng.randrange(0, 40),
                         rng.randrange(0, 400 if big else 80)])
        if (t, i) == (3, 0):
            ln = max(ln, 4)         # (the ROM handler does not elaborate when its longest descriptor is < 2 bytes)
        table.append({"t": t, "i": i, "d": [rng.randrange(256) for _ in range(ln)],
                      # (STRING, 0) stays a ROM descriptor: StandardRequestHandler would add an automatic one
                      "rt": (t, i) != (3, 0) and 0 < ln <= 140 and rng.random() < 0.2})
    return table


def requests_for(rng, table, maxpkt, per_entry=3, missing=3):
    m = maxpkt
    reqs = []
    for e in table:
        n = len(e["d"])
        cands = [w for w in (1, m - 1, m, m + 1, 2 * m, n - 1, n, n + 1, 255, 65535, rng.randrange(1, n + 20)) if w >= 1]
        for w in rng.sample(cands, min(per_entry, len(cands))):
            reqs.append((e["t"] * 256 + e["i"], w))
    have = {e["t"] * 256 + e["i"] for e in table}
    for _ in range(missing):
        e = rng.choice(table)
        v = rng.choice([e["t"] * 256 + ((e["i"] + rng.choice([1, 2, 7])) % 256), rng.randrange(16) * 256 + rng.choice([0, 1, 9]),
                        rng.choice([16, 17, 0x21, 0x22, 0x42, 255]) * 256, (max(x["t"] for x in table) + 1) * 256])
        if v not in have:
            reqs.append((v, rng.choice([1, m, 64, 255, 65535])))
    rng.shuffle(reqs)
    return reqs


def _plans_from_behaviour(beh):
    """Fold a TLC-simulated behaviour of MCGetDesc into closed-loop transfer plans (host decisions only)."""
    plans, cur = [], None
    for _, st in beh[1:]:
        i = st["in"]
        if i["e"] == "setup":
            cur = {"v": i["v"], "wlen": i["wlen"], "acks": [], "stop_after": None, "_acked": 0, "_stage": "data"}
            plans.append(cur)
        elif i["e"] == "in" and cur is not None:
            if st["out"]["k"] == "data":
                cur["acks"].append(bool(i["ack"]))
                cur["_acked"] += 1 if i["ack"] else 0
            cur["_stage"] = st["stage"]
        elif i["e"] == "status" and cur is not None:
            if cur["_stage"] == "data":
                cur["stop_after"] = cur["_acked"]
            cur = None
        elif i["e"] == "reset" and cur is not None:
            cur["rst_in"] = len(cur["acks"])           # the reset replaces the IN that would come next
            cur = None
    for p in plans:
        p.pop("_acked"), p.pop("_stage")
    return plans


def classify_c09(trace, matched, status, meta):
    """Normalised cause of a rejection, computed from the recorded trace and its configuration."""
    steps, cfg = trace["steps"], trace["cfg"]
    k = matched if status != "ok" else matched + 1
    rec = steps[k - 1] if 0 < k <= len(steps) else {}
    by_v = {e["v"]: e for e in cfg["table"]}
    # replay the host-side history up to the failing record
    v = wlen = None
    got, zlp_seen, rt_since = 0, False, False
    for r in steps[:max(k - 1, 0)]:
        if r["e"] == "setup":
            v, wlen, got, zlp_seen = r["v"], r["wlen"], 0, False
        elif r["e"] == "in":
            if v in by_v:
                rt_since = by_v[v]["dist"]
            if r.get("k") == "data":
                zlp_seen = zlp_seen or len(r["bytes"]) == 0
                if r.get("ack"):
                    got += len(r["bytes"])
    # the transfer the failure belongs to: output nobody asked for belongs to the transfer *before* the record
    e = rec.get("e")
    entry = by_v.get(v)
    dist_end = (entry is not None and entry["dist"] and len(entry["d"]) % cfg["maxpkt"] == 0
                and wlen > len(entry["d"]))
    if dist_end and e == "in" and got == len(entry["d"]) and status != "spurious_output":
        return {"clause": "zlp_at_descriptor_end", "pattern": "dist_handler_offset_equals_descriptor_length",
                "manifestation": "descriptor_bytes_sent_again_instead_of_zlp", "observed_clause": status}
    if dist_end and status == "spurious_output" and zlp_seen:
        return {"clause": "zlp_at_descriptor_end", "pattern": "dist_handler_offset_equals_descriptor_length",
                "manifestation": "zlp_beat_never_released_keeps_transmitting", "observed_clause": status}
    if cfg.get("autolang") and v == 0x300 and (e == "in" or status == "spurious_output"):
        return {"clause": "language_descriptor", "pattern": "mux_runtime_half_answers_string0_too",
                "observed_clause": status}
    if (cfg.get("mux") and status == "unexpected_stall" and rt_since and entry is not None and not entry["dist"]
            and got == 0):
        return {"clause": "unexpected_stall", "pattern": "mux_rom_descriptor_after_runtime_descriptor"}
    pattern = "other"
    if e == "in":
        pattern = "%s_descriptor_%s" % ("missing" if entry is None else "runtime" if entry["dist"] else "rom",
                                        "first_packet" if got == 0 else "continuation")
    return {"clause": status, "pattern": pattern}


def _describe_c09(trace, meta, k, n, status, sig):
    ctx = [{x: y for x, y in r.items() if x not in ("first", "last")} for r in trace["steps"][max(0, k - 3):k]]
    return ("C09 %s stimulus on %s (MaxPkt %d, %s): real-gateware trace rejected by GetDescTrace at step %d/%d, "
            "clause '%s' (%s); descriptor lengths %s; last records: %s"
            % (meta["class"], meta["dut"], trace["cfg"]["maxpkt"], meta["origin"], k, n, status, sig.get("pattern"),
               {hex(e["v"]): len(e["d"]) for e in trace["cfg"]["table"]}, ctx))


def _canary_c09(t):
    for r in t["steps"]:                       # flip one bit of the last byte of the first non-empty data packet
        if r["e"] == "in" and r.get("k") == "data" and r["bytes"]:
            r["bytes"][-1] ^= 0x01
            return t
    return None


META["C09"] = {
    "text": "GetDesc.tla specifies GET_DESCRIPTOR at bus-transaction grain, independent of the handler variant: "
            "for a configuration (descriptor table with sparse indices, MaxPkt) chosen by TLC, a request "
            "(wValue, wLength) and the host's ACK / no-ACK / early-status schedule, the packet at continuation "
            "offset Len(sent) must carry the descriptor's bytes [off, min(off+MaxPkt, min(wLength,len))) and an "
            "unknown descriptor must be STALLed; TLC proves on every behaviour within the bounds that the "
            "concatenated data stage is exactly the first min(wLength,len) bytes, packets are <= MaxPkt with only "
            "the last short, and the stage ends with a zero-length packet exactly when the total is a multiple "
            "of MaxPkt below wLength. The same configurations are instantiated as real gateware - "
            "GetDescriptorHandlerBlock, GetDescriptorHandlerDistributed, GetDescriptorHandlerMux (ROM + runtime "
            "StreamSerializer descriptors) at their stream interface, and a real USBDevice over UTMI with "
            "avoid_blockram both ways - driven with TLC-simulated transfer schedules and with random tables up "
            "to several hundred bytes; every recorded transaction (packet bytes, first/last framing, data PID, "
            "CRC, stall, spurious output) is validated by TLC against the specification.",
    "note": "Assumes a spec-conforming host: wLength >= 1, IN transactions only while the data stage is "
            "incomplete, every transfer carried through its status stage or STALLed before the next SETUP "
            "(abandonment is C07), descriptor types 0..15, device at address 0, full speed. The device may NAK up "
            "to 3 times in a row. End-to-end tables always contain a (STRING,0) descriptor (StandardRequestHandler "
            "would otherwise add an automatic one to the ROM variant only). CRC16 is checked by the host model. "
            "Trusted base: TLC, amaranth.sim, hosts/utmi.py, the stream-consumer bench.",
    "technique": "TLA+ transaction-level spec with TLC-enumerated configurations, TLC exhaustive + batch trace "
                 "validation of pysim traces (unit and end-to-end, both directions)",
    "design_ref": "DESIGN.md §5 C09, Appendix A",
}


def check_C09(rep):
    import json
    quick = rep.tier == "quick"
    rng = rep.rng
    rep.rule = ("GET_DESCRIPTOR transfers completed on real gateware and accepted by GetDescTrace; non-trivial = "
                "an IN transaction was answered; distinct by (DUT kind, MaxPkt, descriptor length class, wLength "
                "class, response kind, packet index, acked, full packet)")
    rep.assume("host conforms to USB 2.0 8.5.3: wLength >= 1 for a data stage, IN tokens only until a short packet "
               "was accepted or wLength bytes arrived, status stage (possibly early) before the next SETUP")
    rep.assume("a data packet the host does not ACK must be sent again unchanged (same bytes, same data PID)")
    rep.assume("descriptor types 0..15, indices 0..255, lengths 0..~400 bytes; MaxPkt in {8,16,32,64}")
    rep.assume("the device may NAK a data-stage IN at most %d times in a row" % MAXNAK)
    rep.assume("handler level: value/length held through the transfer, start_position = k*MaxPkt set before a "
               "one-cycle start strobe (as StandardRequestHandler does); the tx consumer follows the USB "
               "IN-stream convention (ZLP = valid & last & ~first, seen not accepted)")
    rep.assume("end-to-end tables contain a (STRING,0) descriptor; zero-length descriptors are ROM descriptors")
    rep.assume("clean stimuli avoid the triggers of the open findings (GetDesc!KF_DistEnd, KF_MuxLang, "
               "KF_MuxStale): no request with wLength above a distributed-handler descriptor whose length is a "
               "multiple of MaxPkt; no (STRING,0) request to a StandardRequestHandler-built multiplexer; in "
               "multiplexer variants no ROM descriptor after a runtime descriptor. Witness stimuli do exactly that.")

    import time
    t0 = time.time()
    phases = {}
    mps = [8, 64] if quick else [8, 16, 32, 64]
    fam = mc_family(mps, (0, 2, 4, 6) if quick else range(7))
    with tlc.scratch("u2d-cfg-") as d:
        cf = os.path.join(d, "configs.json")
        with open(cf, "w") as f:
            json.dump([spec_cfg_of("mc", t, m, False) for t, m in fam], f)
        env = {"CONFIG_FILE": cf}
        # 1. exhaustive exploration of the specification over the configuration family
        res = tlc.model_check(SPEC_DIR, "MCGetDesc", tlc.render_cfg(_cfg("MCGetDesc.cfg.tmpl"), {"MaxNak": 1}),
                              workers=4 if quick else 8, timeout=2400, env=env)
        bounds = {"MaxPkt": mps, "tables": len(fam),
                  "descriptor lengths": "0,1,m-1,m,m+1,2m,2m+1 rotated over keys %s" % MC_KEYS,
                  "wLength": "1,m-1,m,m+1,2m,n-1,n,n+1,65535", "MaxNak": 1}
        rep.add_mc("MCGetDesc %d configurations" % len(fam), res, bounds)
        phases["model_check"] = round(time.time() - t0, 1)
        # 2a. spec -> code: simulated behaviours
        behs = tlc.simulate(SPEC_DIR, "MCGetDesc", tlc.render_cfg(_cfg("MCGetDesc_sim.cfg.tmpl"), {"MaxNak": 1}),
                            num=30 if quick else 300, depth=30, seed=rep.seed * 13 + 5, env=env)

    phases["simulate"] = round(time.time() - t0, 1)
    jobs = []     # (kind, table, maxpkt, [plan...], origin)
    for n, b in enumerate(behs):
        table, m = fam[b[0][1]["cid"] - 1]
        plans = _plans_from_behaviour(b)
        if not plans:
            continue
        for kind in list(UNIT_KINDS) + ([E2E_KINDS[n % 3]] if quick else list(E2E_KINDS)):
            jobs.append((kind, table, m, [dict(p) for p in plans], "tlc-simulate"))

    # 2b. code -> spec: directed corner sweep (lengths around the packet-size multiples) on every kind
    for table, m in mc_family([8, 16, 32, 64], [1] if quick else [1, 3, 5]):
        reqs = []
        for e in table:
            n = len(e["d"])
            for w in sorted({x for x in (1, m - 1, m, m + 1, n - 1, n, n + 1, 2 * m + 5, 65535) if x >= 1}):
                reqs.append((e["t"] * 256 + e["i"], w))
        reqs += [(0x101, 64), (0x304, 18), (0x400, 64), (0x1000, 9), (0x0000, 8), (0x3FF, 255)]
        rng.shuffle(reqs)
        for kind in UNIT_KINDS + E2E_KINDS:
            rq = reqs if kind in UNIT_KINDS else reqs[:(10 if quick else 60)]
            jobs.append((kind, table, m, [{"v": v, "wlen": w, "acks": [rng.random() > 0.15 for _ in range(6)]}
                                          for v, w in rq], "corner-sweep"))

    # 2c. code -> spec: random tables beyond the model (several hundred bytes, types 0..15, sparse indices)
    for n in range(4 if quick else 60):
        m = [8, 16, 32, 64][(n + rep.seed) % 4]
        table = random_table(rng, m, big=(n % 2 == 0))
        reqs = requests_for(rng, table, m, per_entry=2 if quick else 4)
        for kind in UNIT_KINDS + E2E_KINDS:
            rq = reqs if kind in UNIT_KINDS else reqs[:(6 if quick else 30)]
            plans = []
            for v, w in rq:
                p = {"v": v, "wlen": w, "acks": [rng.random() > 0.1 for _ in range(8)]}
                if rng.random() < 0.1:
                    p["stop_after"] = rng.randint(0, 2)
                elif rng.random() < 0.12:
                    p["rst_in"], p["rst_cyc"] = rng.randint(0, 2), rng.randint(0, 12)
                if (v >> 8) == 3 and rng.random() < 0.6:
                    p["windex"] = 0x0409                # string requests carry a language id in wIndex
                plans.append(p)
            jobs.append((kind, table, m, plans, "random-table"))

    # 2d. code -> spec: one configuration per constructor-parameter value class not met above (docs:
    # configuration coverage): Block handler in a non-default clock domain; the collection's automatic
    # language descriptor; avoid_blockram=None (LUNA_AVOID_BLOCKRAM); descriptor lengths around the 4-byte ROM
    # word and above 255 bytes; language id in wIndex; clock-domain reset in mid-transfer
    mrot = [8, 16, 32, 64]
    mrot = mrot[rep.seed % 4:] + mrot[:rep.seed % 4]
    lens = [2, 3, 4, 5, 6, 7, 255, 256, 257, 300]
    wtab = [{"t": t, "i": i, "d": desc_bytes(j + 3, lens[j]), "rt": False}
            for j, (t, i) in enumerate([(3, 0), (1, 0), (2, 0), (3, 1), (3, 4), (6, 0), (2, 1), (3, 9), (15, 0), (4, 0)])]
    atab = [{"t": 3, "i": 0, "d": [4, 3, 9, 4], "rt": False, "auto": True},
            {"t": 1, "i": 0, "d": desc_bytes(1, 18), "rt": False}, {"t": 3, "i": 2, "d": desc_bytes(2, 16), "rt": True},
            {"t": 2, "i": 0, "d": desc_bytes(3, 25), "rt": False}]

    def class_plans(table, m, n_req):
        reqs = []
        for e in table:
            n = len(e["d"])
            reqs += [(e["t"] * 256 + e["i"], w) for w in {n, n + 1, max(1, n - 1), 65535, m}]
        reqs = rng.sample(reqs, min(n_req, len(reqs))) + [(0x3FE, 64)]
        out = []
        for v, w in reqs:
            p = {"v": v, "wlen": w, "acks": [rng.random() > 0.15 for _ in range(6)]}
            if rng.random() < 0.2:
                p["rst_in"], p["rst_cyc"] = rng.randint(0, 1), rng.randint(0, 10)
            if (v >> 8) == 3:
                p["windex"] = 0x0409
            out.append(p)
        return out

    nq = 10 if quick else 40
    jobs.append(("block", wtab, mrot[0], class_plans(wtab, mrot[0], nq), "config-classes", {"domain": "sync"}))
    jobs.append(("block", wtab, mrot[1], class_plans(wtab, mrot[1], nq), "config-classes", {"domain": "fast"}))
    jobs.append(("dist", wtab, mrot[2], class_plans(wtab, mrot[2], nq), "config-classes", {}))
    jobs.append(("dev-block", wtab, mrot[3], class_plans(wtab, mrot[3], nq // 2), "config-classes", {"avoid_env": True}))
    jobs.append(("dev-dist", wtab, mrot[0], class_plans(wtab, mrot[0], nq // 2), "config-classes", {"avoid_env": True}))
    for j, kind in enumerate(UNIT_KINDS + E2E_KINDS):
        mm = mrot[j % 4]
        jobs.append((kind, atab, mm, class_plans(atab, mm, 6 if quick else 20), "config-classes", {}))


    # 3. run on the real gateware: the clean transfers of a job in one trace, every witness on a fresh reset
    benches = {}
    items = []

    def note_nontriv(kind, m, cfg, steps):
        lens = {e["v"]: len(e["d"]) for e in cfg["table"]}
        cur, idx = None, 0
        for r in steps:
            if r["e"] == "setup":
                cur, idx = r, 0
            elif r["e"] == "in" and cur is not None and r["k"] != "none":
                n = lens.get(cur["v"])
                lc = "missing" if n is None else ("0" if n == 0 else "k*m" if n % m == 0 else "<m" if n < m else "other")
                wc = "n/a" if n is None else ("<n" if cur["wlen"] < n else "=n" if cur["wlen"] == n else ">n")
                rep.nontriv((kind, m, lc, wc, r["k"], min(idx, 3), bool(r["ack"]), len(r["bytes"]) == m))
                idx += 1 if r["ack"] else 0

    cyc = {k: 0 for k in UNIT_KINDS + E2E_KINDS}
    classes_seen = {}
    unbuildable = []
    for job in jobs:
        kind, table, m, plans, origin = job[:5]
        opts = job[5] if len(job) > 5 else {}
        table = table_for(kind, table)
        if not kind_supports(kind, table):
            continue
        key = (kind, m, json.dumps(table, sort_keys=True), json.dumps(opts, sort_keys=True))
        if key not in benches:
            try:
                benches[key] = make_bench(kind, table, m, opts)
            except Exception as ex:      # a table the gateware cannot be built for: nothing to observe
                benches[key] = None
                unbuildable.append("%s MaxPkt %d lengths %s: %s: %s" % (
                    kind, m, [len(e["d"]) for e in table], type(ex).__name__, str(ex).splitlines()[0][:100]))
        bench = benches[key]
        if bench is None:
            continue
        clean, witness = split_stimuli(kind, table, m, plans, max_witness=1 if quick else 4)
        runs = ([(clean, "clean", None)] if clean else []) + [(w, "witness", f) for w, f in witness]
        for ps, cls, finding in runs:
            for p in ps:
                p.setdefault("eager", rng.random() < 0.3)
                p.setdefault("p_stall", rng.choice([0.0, 0.0, 0.3, 0.6]))
            c0 = bench.cycles
            if kind in UNIT_KINDS:
                steps = bench.run(ps, rng)
            else:
                steps = bench.run(ps, rng, gap=rng.choice([0.0, 0.0, 0.2]), stall=rng.choice([0.0, 0.0, 0.3]))
            rep.add_eval(bench.cycles - c0)
            cyc[kind] += bench.cycles - c0
            cfg = spec_cfg_of(kind, table, m, cls == "clean")
            note_nontriv(kind, m, cfg, steps)
            meta = {"dut": kind, "origin": origin, "class": cls, "requests": [(p["v"], p["wlen"]) for p in ps][:8]}
            if opts:
                meta["options"] = opts
            ck = "%s %s" % (kind, json.dumps(opts, sort_keys=True)) if opts else kind
            cc = classes_seen.setdefault(ck, {"traces": 0, "resets": 0, "windex": 0, "pkts_from_desc_over_255": 0,
                                              "autolang_reads": 0})
            cc["traces"] += 1
            cc["resets"] += sum(1 for r in steps if r["e"] == "reset")
            cc["windex"] += sum(1 for p in ps if p.get("windex")) if kind in E2E_KINDS else 0
            big = {e["v"] for e in cfg["table"] if len(e["d"]) > 255}
            cur = None
            for r in steps:
                cur = r["v"] if r["e"] == "setup" else cur
                if r["e"] == "in" and r["k"] == "data":
                    cc["pkts_from_desc_over_255"] += cur in big
                    cc["autolang_reads"] += int(cur == 0x300 and any(e.get("auto") for e in table))
            if finding:
                meta["witness_of"] = finding
            items.append(({"cfg": cfg, "steps": steps}, meta))
    rep.extra["cycles_by_dut"] = cyc
    rep.extra["configuration_classes"] = classes_seen
    for u in unbuildable[:5]:
        rep.notes.append("configuration could not be elaborated and is not bound: " + u)
    if len(unbuildable) * 4 > len(benches) or any(c == 0 for c in cyc.values()):
        raise tlc.TLCError("too few configurations could be built/driven: %s %s" % (cyc, unbuildable[:3]))
    phases["gateware_runs"] = round(time.time() - t0, 1)
    for cls in ("clean", "witness"):
        for t, mt in [it for it in items if it[1]["class"] == cls][:2]:
            rep.sample({"meta": mt, "maxpkt": t["cfg"]["maxpkt"],
                        "descriptor_lengths": {hex(e["v"]): len(e["d"]) for e in t["cfg"]["table"]},
                        "first_steps": [{x: y for x, y in r.items() if x not in ("first", "last")}
                                        for r in t["steps"][:5]]})

    # 4. TLC decides
    cfg_text = tlc.render_cfg(_cfg("GetDescTrace.cfg.tmpl"), {"MaxNak": MAXNAK})
    acc = _decide(rep, "GetDescTrace", cfg_text, items, classify_c09, _describe_c09, _canary_c09)
    acc = {"clean": acc.get("clean", 0), "witness": acc.get("witness", 0)}
    phases["trace_validation"] = round(time.time() - t0, 1)
    rep.extra["phase_end_s"] = phases
    nw = sum(1 for _, mt in items if mt["class"] == "witness")
    rep.extra["stimuli"] = {"clean_traces": len(items) - nw, "clean_accepted": acc["clean"],
                            "witness_traces": nw, "witness_accepted": acc["witness"]}
    by_f = {}
    for _, mt in items:
        if mt["class"] == "witness":
            a = by_f.setdefault(mt["witness_of"], [0, 0])
            a[0] += 1
            a[1] += 0 if mt.get("_known") else 1
    for f, (n, okn) in sorted(by_f.items()):
        if n == okn:
            rep.notes.append("all %d witness stimuli of finding %s were accepted: the defect is not present in "
                             "this tree" % (n, f))
    rep.extra["witnesses_by_finding"] = {f: {"driven": n, "accepted": okn} for f, (n, okn) in by_f.items()}


CHECKS = {"C27": check_C27, "C09": check_C09}
