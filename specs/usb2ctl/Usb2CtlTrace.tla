---------------------------- MODULE Usb2CtlTrace ----------------------------
(***************************************************************************)
(* Trace validation for Usb2Ctl.  A trace is the list of records produced  *)
(* by harness/hosts/usb2dev.py (or the unit-level drivers in the binding): *)
(* one record per host packet / bus event with what the real device did    *)
(* until the next one:                                                     *)
(*   a pid addr ep ok tr bytes crc   -- the host action (tr: truncated)    *)
(*   n raw gap ovl mg xg             -- device packets started in the      *)
(*        window, raw bytes of the first, cycles from the end of the host  *)
(*        packet to the first tx_valid, tx_valid seen during a host packet *)
(*   su sf                           -- setup.received strobes + fields    *)
(*   oa oc                           -- active address / configuration     *)
(* Well-formedness of device packets (PID check nibble, CRC16) is decided  *)
(* here from the raw bytes, bit-serially (CRC.tla).                        *)
(* Batch recipe as in FifoTrace; the verdict string of a rejected trace is *)
(* "<clause>@<known-finding trigger hit before, or none>".                 *)
(***************************************************************************)
EXTENDS Usb2Ctl, CRC, TLC, TLCExt, Json, IOUtils

(* The response window of the DUT's speed / clock (inter-packet gap .. bus turn-around time-out, in cycles after *)
(* the end of the host packet) travels with every record as r.mg / r.xg: one batch may mix DUTs of different speeds. *)

Logs == JsonDeserialize(IOEnv.TRACE_FILE)

VARIABLES tid, l, status, kf, pr, hk, jg, fl
tvars == <<vars, tid, l, status, kf, pr, hk, jg, fl>>

ASSUME \A i \in 1..Len(Logs) : TLCSet(i, <<0, "ok">>)

Rec == Logs[tid][l]

ActOf(r) == [a |-> r.a, pid |-> r.pid, addr |-> r.addr, ep |-> r.ep, ok |-> r.ok, bytes |-> r.bytes]

(* What the device put on the wire, from the raw bytes [USB2.0 8.3.1, 8.3.5.2, 8.4.4, 8.4.5]. *)
PidACK == 210   PidNAK == 90   PidSTALL == 30   PidDATA0 == 195   PidDATA1 == 75
RBad == [k |-> "bad", bytes |-> <<>>]
Parse(raw) ==
    IF Len(raw) = 0 THEN RNone
    ELSE IF Len(raw) = 1 THEN
        (IF raw[1] = PidACK THEN RHs("ACK") ELSE IF raw[1] = PidNAK THEN RHs("NAK")
         ELSE IF raw[1] = PidSTALL THEN RHs("STALL") ELSE RBad)
    ELSE IF Len(raw) >= 3 /\ raw[1] \in {PidDATA0, PidDATA1} THEN
        LET p == SubSeq(raw, 2, Len(raw) - 2) IN
        IF Usb2Crc16(p) = raw[Len(raw) - 1] + 256 * raw[Len(raw)]
        THEN RData(IF raw[1] = PidDATA1 THEN 1 ELSE 0, p) ELSE RBad
    ELSE RBad

(* The host model's claim "this data packet carries a good CRC16" is re-computed where the property  *)
(* depends on it (the data packet of a SETUP transaction).                                           *)
HostCrcFlagOK(r) ==
    (r.a = "data" /\ ctx.k = "setup" /\ ~r.tr /\ Len(r.bytes) <= 9) =>
        (r.ok <=> (Usb2Crc16(r.bytes) = r.crc[1] + 256 * r.crc[2]))

(* pr / hk / jg hold, for the step just taken, the parsed device packet, the host-CRC consistency flag   *)
(* and Judge's answer: each is computed once per step (a LET feeding several conjuncts would be         *)
(* re-evaluated - CRC included - at every use).                                                         *)
Failing(r, a, p, hostCrcOk, j) ==
    IF ~EnvOK(a) THEN "env_illegal"
    ELSE IF ~hostCrcOk THEN "env_crc_flag"
    ELSE IF r.n > 1 THEN "pkt_multi"
    ELSE IF p.k = "bad" THEN "pkt_malformed"
    ELSE IF r.ovl THEN "resp_overlap"
    ELSE IF p.k # "none" /\ r.gap < r.mg THEN (IF Kind(a) = "setup_data" THEN "setup_ack_early" ELSE "resp_early")
    ELSE IF p.k # "none" /\ r.gap > r.xg THEN "resp_late"
    ELSE IF j # "ok" THEN j
    ELSE IF r.su # ExpectStrobes(a) THEN "setup_strobe"
    ELSE IF r.su = 1 /\ r.sf # FieldsOf(a.bytes) THEN "setup_fields"
    ELSE IF ~Unit /\ r.oa # AddrAfter(a) THEN (IF xf.cls = "unsup" /\ Open(xf) THEN "unsup_state" ELSE "addr_obs")
    ELSE IF ~Unit /\ r.oc # CfgAfter(a) THEN (IF xf.cls = "unsup" /\ Open(xf) THEN "unsup_state" ELSE "cfg_obs")
    ELSE "ok"

TInit == /\ Init
         /\ tid \in 1..Len(Logs)
         /\ l = 1
         /\ status = "ok"
         /\ kf = "none"
         /\ pr = RNone /\ hk = TRUE /\ jg = "ok" /\ fl = "ok"

TNext == /\ status = "ok"
         /\ l <= Len(Logs[tid])
         /\ pr' = Parse(Rec.raw)
         /\ hk' = HostCrcFlagOK(Rec)
         /\ jg' = IF pr'.k = "bad" THEN "pkt_malformed" ELSE Judge(ActOf(Rec), pr')
         /\ fl' = Failing(Rec, ActOf(Rec), pr', hk', jg')
         /\ kf' = IF kf # "none" THEN kf ELSE KfTrip(ActOf(Rec))
         /\ status' = (IF fl' = "ok" THEN "ok" ELSE fl' \o "@" \o kf')
         /\ IF fl' = "ok" THEN Step(ActOf(Rec), pr') ELSE UNCHANGED vars
         /\ l' = l + 1
         /\ UNCHANGED tid

TSpec == TInit /\ [][TNext]_tvars

TraceProp == TypeOK

Verdict == IF status # "ok" THEN status ELSE IF TraceProp THEN "ok" ELSE "prop_invariant"
Progress == TLCSet(tid, <<l - 1, Verdict>>) /\ Verdict = "ok"

Verdicts == JsonSerialize(IOEnv.VERDICT_FILE, [i \in 1..Len(Logs) |-> TLCGet(i)])
=============================================================================
