"""Engine `usb2data` — C02 (data reception), C03 (data transmission), C28 (OUT boundary detector),
C21 (frame / microframe numbers) vs specs/usb2data/{DataRx,DataTx,OutBoundary,FrameNum}.tla."""
import os

from .. import tlc
from ..core import use_repo
from ..pipeline import validate_group
from ..sim import CycleDriver
from ..tlaval import TlaSet

ENGINE = "usb2data"
SPEC_DIR = "usb2data"

META = {
    "C02": {
        "text": "DataRx.tla states, per UTMI cycle, which receiver outputs are allowed for any receive history: payload "
                "bytes streamed once, in order, never the two trailing bytes; packet_complete / crc_mismatch decided by "
                "the bit-serial CRC16 of CRC.tla, exactly one strobe per data packet with >= 2 bytes after the PID, never "
                "both, none for anything else; ready_for_response only after a completion with no packet in between. TLC "
                "explores every history of the bounded model (all allowed outputs) and proves the Prop invariants; the real "
                "USBDataPacketReceiver (standalone with speed not given / FULL / LOW / HIGH / a Signal, the "
                "receiver inside a real UTMI-attached USBDevice behind the shared CRC unit with transmissions in between, and "
                "inside a ULPI-attached 60 MHz USBDevice behind the UTMITranslator) is driven with TLC-simulated histories and with random "
                "/ structured packet soups (all PIDs, lengths 0..70, gaps, single-bit corruptions, truncations, back-to-back "
                "packets) and every recorded cycle is validated by TLC against the specification.",
        "note": "Assumes rx_valid only inside rx_active, rx_active high at least one cycle before the first rx_valid, and an "
                "inter-packet gap of at least the receiver's inter-packet delay (12 cycles FS@60MHz, 5 in the 12 MHz device). Strobe "
                "latency is free within 3 cycles, ready_for_response within 100. Exhaustive only for the bounded model; "
                "real-gateware traces are sampled. Trusted base: TLC, amaranth.sim, the cycle driver.",
        "technique": "TLA+ observation-relation spec with CRC16 oracle, TLC exhaustive + batch trace validation of pysim traces",
        "design_ref": "DESIGN.md §5 C02",
    },
    "C03": {
        "text": "DataTx.tla states, per UTMI cycle, which transmitter outputs are allowed for any request sequence and any "
                "tx_ready pattern: every byte accepted by the PHY (tx_valid & tx_ready) must be the next byte of "
                "PID(data_pid) . payload-as-offered . CRC16 low . CRC16 high (bit-serial CRC16 of CRC.tla), tx_valid may fall "
                "only after the whole frame, a `last`-without-`first` request yields PID + CRC of the empty payload, every "
                "offered byte is consumed once. TLC explores all requests / stalls / allowed outputs of the bounded model and "
                "proves the framing and exactly-once invariants; a real USBDevice (transmit path driven through a stub "
                "endpoint, so device.py's `data_crc.tx_valid = output.valid & tx_ready` is the real line, with receive "
                "traffic in between; UTMI-attached at 12 MHz and ULPI-attached at 60 MHz with NXT throttling) and the "
                "standalone generator are driven closed-loop with TLC-simulated schedules, random "
                "soups (lengths 0..65, 4 PIDs, stall regimes) and a stall at every wire position of short packets; every "
                "recorded cycle is validated by TLC.",
        "note": "Assumes a USBInStreamInterface producer (byte held until accepted, valid high first..last, one-cycle ZLP "
                "pulse), data_pid stable during a packet, requests only after tx_valid fell. Start / hand-over latency free "
                "up to 4 ready cycles. Exhaustive only for the bounded model; real-gateware traces are sampled. Trusted base: "
                "TLC, amaranth.sim, the 100-line closed-loop bench.",
        "technique": "TLA+ observation-relation spec with CRC16 oracle, TLC exhaustive + batch trace validation of pysim traces",
        "design_ref": "DESIGN.md §5 C03",
    },
    "C28": {
        "text": "OutBoundary.tla states, per cycle, which outputs of the boundary detector are allowed for any raw receive "
                "history with complete/invalid strobes anywhere: output beats carry the packet's bytes once, in order, `first` "
                "exactly on the first, `last` exactly on the final byte (all out within 3 cycles of valid falling), and "
                "complete_out / invalid_out come at most once, strictly after the beat marked last, iff the input strobe was "
                "seen during that packet. TLC explores all histories / strobe placements / allowed outputs of the bounded "
                "model and proves the Prop invariants over the ghost output log; the real USBOutStreamBoundaryDetector (default "
                "domain and domain=<other name>) is driven with TLC-simulated histories, random packet soups (lengths 1..17, gaps, strobes at every kind of "
                "position, strobes outside packets) and an exhaustive strobe-placement x length sweep, and every recorded "
                "cycle is validated by TLC.",
        "note": "Assumes next only inside valid, packets of >= 1 byte (the property's range), >= 6 idle cycles between packets. "
                "Strobes in the first byte's cycle or earlier, or after valid fell, may or may not be reported (statement "
                "silent). Exhaustive only for the bounded model; real-gateware traces are sampled.",
        "technique": "TLA+ observation-relation spec, TLC exhaustive + batch trace validation of pysim traces",
        "design_ref": "DESIGN.md §5 C28",
    },
    "C21": {
        "text": "FrameNum.tla states, per packet on the bus, what USBDevice must report: after a well-formed SOF (3 bytes, SOF "
                "PID with correct check nibble, CRC5 correct by the bit-serial CRC5 of CRC.tla) frame_number is its 11-bit "
                "number, microframe_number is 0 if the number changed and one more if it repeats, new_frame fires once iff it "
                "changed, sof_detected fires once; any other packet changes nothing. TLC explores all packet sequences of the "
                "bounded model and proves, over the ghost history of accepted SOFs, that the frame is the last SOF's, the "
                "microframe counts the repeats since the last change and the strobe marks exactly the changes; a real "
                "USBDevice (on a UTMI bus, and on a ULPI bus with each setting of the speed inputs) is fed TLC-simulated and random packet sequences (FS / HS patterns, skips, "
                "wrap-around, single-bit neighbours, every kind of malformed SOF, interleaved tokens / data / handshakes, "
                "rx_valid gaps) by the UTMI host model and every event is validated by TLC.",
        "note": "The microframe number counts modulo 8 (3-bit output); any number of repeats is legal. Malformed SOFs and "
                "other packets are required to change nothing (reading of `track received SOFs`). Strobe latency free within "
                "the packet + idle window. Exhaustive only for the bounded model; real-gateware traces are sampled. Trusted "
                "base: TLC, amaranth.sim, hosts/utmi.py.",
        "technique": "TLA+ event-grain spec with CRC5 oracle, TLC exhaustive + batch trace validation of pysim traces",
        "design_ref": "DESIGN.md §5 C21",
    },
}


def _cfg(name):
    with open(os.path.join(tlc.SPECS, SPEC_DIR, name)) as f:
        return f.read()


def _host():
    from ..hosts import utmi
    return utmi


# =============================================================================================
# DUT construction
# =============================================================================================

class _StubEndpoint:
    """Minimal endpoint: exposes the device's shared rx/tx paths through its EndpointInterface."""

    def __new__(cls):
        use_repo()
        from amaranth import Elaboratable, Module
        from luna.gateware.usb.usb2.endpoint import EndpointInterface

        class StubEndpoint(Elaboratable):
            def __init__(self):
                self.interface = EndpointInterface()

            def elaborate(self, platform):
                return Module()

        return StubEndpoint()


def make_device():
    """A real USBDevice on a bare UTMI bus with one stub endpoint."""
    use_repo()
    from luna.gateware.interface.utmi import UTMIInterface
    from luna.gateware.usb.usb2.device import USBDevice
    u = UTMIInterface()
    dev = USBDevice(bus=u)
    stub = _StubEndpoint()
    dev.add_endpoint(stub)
    return dev, u, stub


def with_domain(dut, domain="usb"):
    """Wrap `dut` in a top level that owns clock domain `domain`, so that the test bench can drive its reset."""
    from amaranth import ClockDomain, Elaboratable, Module

    class Top(Elaboratable):
        def __init__(self):
            self.cd = ClockDomain(domain)

        def elaborate(self, platform):
            m = Module()
            m.domains += self.cd
            m.submodules.dut = dut
            return m

    top = Top()
    return top, top.cd.rst


DEVICE_STATIC = {"connect": 1, "fs_only": 1, "line_state": 1}


def _device_static_inputs(dev, u):
    return {"connect": dev.connect, "fs_only": dev.full_speed_only, "line_state": u.line_state}


# =============================================================================================
# C02 — data reception
# =============================================================================================

RX_OUT_BOOL = ("sv", "nx", "cp", "mm", "rfr")
RX_IN_BOOL = ("active", "valid")
# spec constants per DUT configuration: strobe window, rfr window, min inter-packet gap (cycles of rx_active low)
RX_TRACE_CONSTS = {"StrobeWin": 3, "RfrWin": 100, "MinGap": 5}     # RfrWin: the low-speed inter-packet delay is 80 cycles
# minimum rx_active-low gap the stimuli keep per DUT configuration (the receiver ignores the bus while it waits
# out its inter-packet delay: 10 cycles for FS at 60 MHz, 2 cycles in the 12 MHz FS-only device)
RX_MIN_GAP = {"standalone": 12, "standalone-full": 12, "standalone-high": 12, "standalone-low": 82, "standalone-sig": 82,
              "device": 5}
RX_LS_KINDS = ("standalone-low", "standalone-sig")          # low speed: the inter-packet delay is 80 cycles at 60 MHz


def make_rx_driver(kind):
    """kind: "standalone" (speed not given), "standalone-full" / "-low" / "-high" (speed=USBSpeed.x), "standalone-sig"
    (speed given as a Signal, as the doc-string allows), "device" (receiver inside a USBDevice on a UTMI bus)."""
    use_repo()
    from amaranth import Signal
    from luna.gateware.interface.utmi import UTMIInterface
    from luna.gateware.usb.usb2 import USBSpeed
    from luna.gateware.usb.usb2.packet import USBDataPacketReceiver
    if kind.startswith("standalone"):
        u = UTMIInterface()
        speed = {"standalone": None, "standalone-full": USBSpeed.FULL, "standalone-low": USBSpeed.LOW,
                 "standalone-high": USBSpeed.HIGH, "standalone-sig": Signal(2, init=int(USBSpeed.LOW))}[kind]
        dut = USBDataPacketReceiver(utmi=u, standalone=True, speed=speed)
        top, rst = with_domain(dut)
        ins = {"active": u.rx_active, "valid": u.rx_valid, "data": u.rx_data, "rst": rst}
        outs = {"sv": dut.stream.valid, "nx": dut.stream.next, "pl": dut.stream.payload,
                "cp": dut.packet_complete, "mm": dut.crc_mismatch, "rfr": dut.ready_for_response,
                "pid": dut.packet_id}
        return CycleDriver(top, ins, outs, domain="usb", bool_outputs=RX_OUT_BOOL, bool_inputs=RX_IN_BOOL + ("rst",))
    dev, u, stub = make_device()
    itf = stub.interface
    top, rst = with_domain(dev)
    ins = {"active": u.rx_active, "valid": u.rx_valid, "data": u.rx_data, "tx_ready": u.tx_ready, "rst": rst,
           "tv": itf.tx.valid, "tf": itf.tx.first, "tl": itf.tx.last, "tp": itf.tx.payload}
    ins.update(_device_static_inputs(dev, u))
    outs = {"sv": itf.rx.valid, "nx": itf.rx.next, "pl": itf.rx.payload, "cp": itf.rx_complete,
            "mm": itf.rx_invalid, "rfr": itf.rx_ready_for_response}
    return CycleDriver(top, ins, outs, domain="usb", clocks={"usb": 1 / 12e6},
                       bool_outputs=RX_OUT_BOOL, bool_inputs=RX_IN_BOOL + ("rst",))


RX_FIELDS = ("rst", "active", "valid", "data", "sv", "nx", "pl", "cp", "mm", "rfr", "pid")


def _rx_record(r):
    out = {k: r.get(k, 99) for k in RX_FIELDS}
    out["rst"] = bool(r.get("rst", False))
    return out


class RxStim:
    """Builds an open-loop UTMI receive stimulus (list of per-cycle input dicts) packet by packet."""

    def __init__(self, rng, min_gap, device=False):
        self.rng = rng
        self.min_gap = min_gap
        self.device = device
        self.cycles = []
        self.packets = []       # (bytes, info) for coverage accounting
        self.idle(min_gap + rng.randint(0, 3), first=True)

    def _c(self, active=0, valid=0, data=0, **tx):
        c = {"active": active, "valid": valid, "data": data, "rst": 0}
        if self.device:
            c.update({"tx_ready": 1, "tv": 0, "tf": 0, "tl": 0, "tp": 0})
            c.update(tx)
        self.cycles.append(c)

    def idle(self, n, first=False):
        for k in range(n):
            self._c()
            if first and k == 0 and self.device:
                self.cycles[-1].update(DEVICE_STATIC)

    def packet(self, octets, gap_prob=0.0, lead=1, tail=0, gaps=None, info=None):
        rng = self.rng
        for _ in range(lead):
            self._c(active=1, data=rng.randrange(256))
        for k, b in enumerate(octets):
            g = gaps[k] if gaps is not None else 0
            if gaps is None and gap_prob:
                while rng.random() < gap_prob and g < 9:
                    g += 1
            for _ in range(g):
                self._c(active=1, data=rng.randrange(256))
            self._c(active=1, valid=1, data=b)
        for _ in range(tail):
            self._c(active=1, data=rng.randrange(256))
        self.packets.append((list(octets), info or {}))

    def gap(self, extra=0):
        self.idle(self.min_gap + extra)

    def reset(self, after):
        """`after` quiet cycles (>= 1) after the last packet, one cycle of domain reset, then one more quiet cycle."""
        self.idle(max(after, 1))
        self._c()
        self.cycles[-1]["rst"] = 1
        if self.device:
            self.cycles[-1].update(DEVICE_STATIC)
        self._c()

    def tx_burst(self, payload, after=4):
        """Device only: let the stub endpoint transmit (tx_ready tied high) to dirty the shared CRC unit.
        `after` (>= 4) idle cycles follow the request; the wire is busy for the first 3 (4 for a ZLP) of them."""
        after = max(after, 4)
        if not payload:                       # ZLP request: one-cycle pulse of valid & last
            self._c(tv=1, tl=1)
            self.idle(after)
            return
        n = len(payload)
        for k in range(3):                    # first byte is held while the generator leaves IDLE / sends the PID
            self._c(tv=1, tf=1, tl=int(n == 1), tp=payload[0])
        for k in range(1, n):
            self._c(tv=1, tl=int(k == n - 1), tp=payload[k])
        self.idle(after)


def _rx_random_trace(rng, kind, npackets, long_ok=True):
    """One random packet soup for DUT configuration `kind`."""
    H = _host()
    device = kind == "device"
    mg = RX_MIN_GAP[kind] + 2
    st = RxStim(rng, mg, device)
    data_pids = ["DATA0", "DATA1", "DATA2", "MDATA"]
    prev = None
    for _ in range(npackets):
        r = rng.random()
        gp = rng.choice([0.0, 0.0, 0.15, 0.5, 0.8])
        lead = rng.choice([1, 1, 1, 2, 5])
        tail = rng.choice([0, 0, 0, 1, 3])
        n = rng.choice([0, 0, 1, 1, 2, 2, 3, 4, 5, 7, 8, 9, 16, 17])
        if long_ok and rng.random() < 0.04:
            n = rng.choice([31, 32, 33, 63, 64, 65, 70])
        payload = [rng.choice([0, 0xFF, 0x80, 1, rng.randrange(256), rng.randrange(256)]) for _ in range(n)]
        pid = rng.choice(data_pids)
        good = H.data_bytes(pid, payload)
        if r < 0.30:
            octets, what = good, "good"
        elif r < 0.45:                                  # single-bit corruption anywhere after the PID
            octets = list(good)
            k = rng.randrange(1, len(octets))
            octets[k] ^= 1 << rng.randrange(8)
            what = "bitflip"
        elif r < 0.53:                                  # truncated anywhere (incl. PID only / nothing at all)
            octets, what = good[:rng.randrange(0, len(good))], "truncated"
        elif r < 0.59:                                  # one or two bytes too many
            octets, what = good + [rng.randrange(256) for _ in range(rng.randint(1, 2))], "overlong"
        elif r < 0.66:                                  # data PID with a broken check nibble
            octets = list(good)
            octets[0] ^= 1 << rng.randrange(4, 8)
            what = "bad_pid_check"
        elif r < 0.78:                                  # tokens / handshakes / SOF / garbage with non-data PID
            c = rng.random()
            if c < 0.3:
                octets = H.token_bytes(rng.choice(["OUT", "IN", "SETUP", "PING"]), rng.randrange(128), rng.randrange(16))
            elif c < 0.5:
                octets = [H.pid_byte(rng.choice(["ACK", "NAK", "STALL", "NYET"]))]
            elif c < 0.6:
                octets = H.sof_bytes(rng.randrange(2048))
            else:
                octets = [H.pid_byte(rng.choice(["OUT", "ACK", "SOF", "PRE", "SPLIT", "PING"]))] + good[1:]
            what = "non_data"
        elif r < 0.86 and prev is not None:             # the previous packet again (residual CRC state)
            octets, what = list(prev), "repeat"
        elif r < 0.93:                                  # a ZLP right after something else
            octets, what = H.data_bytes(pid, []), "zlp"
        else:                                           # CRC bytes swapped / CRC of a different payload
            octets = list(good)
            if len(octets) >= 3 and rng.random() < 0.5:
                octets[-1], octets[-2] = octets[-2], octets[-1]
            else:
                octets = octets[:-2] + H.data_bytes(pid, payload + [0])[-2:]
            what = "wrong_crc"
        st.packet(octets, gap_prob=gp, lead=lead, tail=tail, info={"what": what})
        prev = octets
        if device and rng.random() < 0.3:
            st.idle(2)
            st.tx_burst([rng.randrange(256) for _ in range(rng.choice([0, 1, 2, 5]))])
        st.gap(rng.choice([0, 0, 0, 1, 4, 30]))
    st.idle(st.min_gap + 110)
    return st


def _rx_bitflip_traces(rng, kind, payloads, sample):
    """Every single-bit corruption (payload and CRC bits) of some short packets; `sample` = fraction kept."""
    H = _host()
    device = kind == "device"
    mg = RX_MIN_GAP[kind] + 2
    out = []
    for pid, payload in payloads:
        good = H.data_bytes(pid, payload)
        st = RxStim(rng, mg, device)
        st.packet(good, info={"what": "good"})
        st.gap()
        for k in range(1, len(good)):
            for b in range(8):
                if k < len(good) - 2 and rng.random() > sample:      # CRC bits always, payload bits sampled
                    continue
                bad = list(good)
                bad[k] ^= 1 << b
                st.packet(bad, gap_prob=rng.choice([0, 0.3]), info={"what": "bitflip"})
                st.gap()
        st.idle(st.min_gap + 110)
        out.append(st)
    return out


def _rx_sweep_traces(rng, kind, quick, only=None):
    """Systematic (not random) alignments: every rx_valid gap pattern of short packets, every lead / tail length,
    every inter-packet gap from the minimum up, and (device) every offset between a transmission and the next
    received packet.  Every trace ends with a long quiet stretch, so owed strobes are judged."""
    H = _host()
    device = kind == "device"
    mg = RX_MIN_GAP[kind]
    out = []
    pids = ["DATA0", "DATA1", "DATA2", "MDATA"]

    def payload(n):
        return [rng.randrange(256) for _ in range(n)]

    if only == "gap-after":
        st = RxStim(rng, mg, device)
        for d in (range(0, 16, 3) if quick else range(0, 16)):
            st.packet(H.data_bytes("DATA0", payload(2)), info={"what": "gap-after-sweep"})
            st.idle(mg + d)
            st.packet(H.data_bytes("DATA1", payload(d % 4)), tail=d % 2, info={"what": "gap-after-sweep"})
            st.idle(mg + 105)
        st.idle(mg + 30)
        return [st]
    # (a) every subset of gap positions (gap of g cycles before byte k), alternating tail 0 / 1, good and corrupted CRC
    for n in ([0, 1, 2] if quick else [0, 1, 2, 3, 4]):
        for g in ([1] if quick else [1, 2, 3]):
            st = RxStim(rng, mg + 1, device)
            nb = n + 3
            for mask in range(1 << nb):
                octets = H.data_bytes(pids[mask % 4], payload(n))
                what = "gap-sweep"
                if mask % 3 == 2:
                    octets[rng.randrange(1, nb)] ^= 1 << rng.randrange(8)
                    what = "gap-sweep-bitflip"
                st.packet(octets, gaps=[g if (mask >> k) & 1 else 0 for k in range(nb)], lead=1, tail=mask % 2,
                          info={"what": what})
                st.gap()
            st.idle(st.min_gap + 110)
            out.append(st)
    # (b) lead x tail
    st = RxStim(rng, mg + 1, device)
    for n in (0, 1, 3):
        for lead in (1, 2, 3):
            for tail in (0, 1, 2, 3, 4):
                st.packet(H.data_bytes(pids[(lead + tail) % 4], payload(n)), lead=lead, tail=tail, info={"what": "lead-tail-sweep"})
                st.gap()
    st.idle(st.min_gap + 110)
    out.append(st)
    # (c) inter-packet gap from the minimum upwards (ready_for_response / return-to-idle vs. the next packet)
    st = RxStim(rng, mg, device)
    for d in range(0, 16):
        for first in (H.data_bytes("DATA0", payload(2)), H.data_bytes("DATA1", payload(1))[:-1] + [0x00]):
            st.packet(first, info={"what": "gap-after-sweep"})
            st.idle(mg + d)
            st.packet(H.data_bytes("DATA1", payload(d % 4)), tail=d % 2, info={"what": "gap-after-sweep"})
            st.idle(mg + 105)
    st.idle(st.min_gap + 110)
    out.append(st)
    # (d) device: a transmission ending d cycles before the next received packet (shared CRC unit)
    if device:
        st = RxStim(rng, mg + 1, device)
        for d in range(4, 17):
            for txp in ([], payload(1), payload(3)):
                st.tx_burst(txp, after=d)
                st.packet(H.data_bytes(pids[d % 4], payload(d % 3)), gap_prob=0.3 if d % 2 else 0, info={"what": "tx-then-rx-sweep"})
                st.gap()
        st.idle(st.min_gap + 110)
        out.append(st)
    return out


def _rx_ignored_head_traces(rng, kind, quick):
    """Packets that must be ignored as a whole although they *contain* a well-formed data packet: a first byte that
    is not a valid DATAx PID (every single-bit damage of the four DATA PID bytes, token / handshake / SPLIT / PRE
    PIDs), 0..2 pad bytes, then PID + payload + CRC16 of a correct data packet -- sent without gaps, paced (a gap
    before every byte), with a single gap at each position, and (short ones) with every gap pattern."""
    H = _host()
    device = kind == "device"
    mg = RX_MIN_GAP[kind]
    data_pid_bytes = [H.pid_byte(p) for p in ("DATA0", "DATA1", "DATA2", "MDATA")]
    heads = [b ^ (1 << k) for b in data_pid_bytes for k in range(8)]
    heads += [H.pid_byte(p) for p in ("OUT", "IN", "SETUP", "SOF", "PING", "ACK", "NAK", "STALL", "NYET", "SPLIT", "PRE")]
    out = []
    st = RxStim(rng, mg + 1, device)
    for idx, head in enumerate(heads):
        pads = [idx % 3] if quick else [0, 1, 2]
        for npad in pads:
            n = (idx + npad) % 5
            tail = H.data_bytes(("DATA0", "DATA1", "DATA2", "MDATA")[(idx + npad) % 4], [rng.randrange(256) for _ in range(n)])
            octets = [head] + [rng.randrange(256) for _ in range(npad)] + tail
            nb = len(octets)
            patterns = [[0] * nb, [1] * nb, [0, 1] + [0] * (nb - 2), [0] * (npad + 1) + [rng.randint(1, 3)] + [0] * (nb - npad - 2)]
            if not quick:
                patterns += [[0] * k + [1] + [0] * (nb - k - 1) for k in range(2, nb)]
            else:
                k = rng.randrange(1, nb)
                patterns[2] = [0] * k + [2] + [0] * (nb - k - 1) if idx % 2 else patterns[2]
            for gaps in patterns:
                st.packet(octets, gaps=gaps, tail=(idx + len(gaps)) % 2, info={"what": "ignored-head+data-tail"})
                st.gap()
        if len(st.cycles) > 6000:
            st.idle(st.min_gap + 110)
            out.append(st)
            st = RxStim(rng, mg + 1, device)
    st.idle(st.min_gap + 110)
    out.append(st)
    # every gap pattern of the shortest ones: head + ZLP data packet (4 bytes), head + pad + ZLP (5 bytes)
    st = RxStim(rng, mg + 1, device)
    for head in ([0xD3, 0x78, 0xE1] if quick else [0xD3, 0x78, 0xE1, 0xD2, 0x4A, 0xA5]):
        for npad in (0, 1):
            octets = [head] + [0x00] * npad + H.data_bytes("DATA1" if npad else "DATA0", [])
            for mask in range(1 << len(octets)):
                st.packet(octets, gaps=[(mask >> k) & 1 for k in range(len(octets))], info={"what": "ignored-head+zlp-gapmask"})
                st.gap()
    st.idle(st.min_gap + 110)
    out.append(st)
    return out


def _rx_reset_traces(rng, kind, quick):
    """A domain reset d cycles after a packet ended (d sweeps over the strobe cycle, the wait for the inter-packet
    delay and the idle time after it), followed shortly by further packets that must be handled like the first."""
    H = _host()
    device = kind == "device"
    mg = RX_MIN_GAP[kind]
    st = RxStim(rng, mg + 1, device)
    ds = list(range(1, 8)) + [mg - 2, mg, mg + 3]
    if kind in RX_LS_KINDS and quick:
        ds = [1, 2, 5, 40, mg - 2, mg + 3]
    for d in ds:
        n = d % 4
        st.packet(H.data_bytes(("DATA0", "DATA1")[d % 2], [rng.randrange(256) for _ in range(n)]), tail=d % 2,
                  info={"what": "before-reset"})
        st.reset(d)
        st.idle(d % 3)
        st.packet(H.data_bytes("DATA1", [rng.randrange(256) for _ in range((n + 1) % 4)]), info={"what": "after-reset"})
        st.gap()
        st.packet(H.data_bytes("DATA0", []), info={"what": "after-reset"})
        st.gap(2)
    st.idle(mg + 30)
    return [st]


def _rx_account(rep, kind, st):
    """Coverage accounting (not verdict-bearing): which kinds of packets were exercised."""
    H = _host()
    for octets, info in st.packets:
        if not octets:
            cls = "empty"
        else:
            d = H.classify_device_packet(octets)
            if d["kind"] == "data":
                cls = "complete" if d["crc_ok"] else "mismatch"
            else:
                cls = "none"
        rep.nontriv(("rx", kind, cls, info.get("what"), min(len(octets), 12)))


def _env_guard(status, meta):
    """A trace rejected on an environment-assumption clause means the *stimulus* left the Env of the specification:
    a defect of this harness (machinery error), never a violation of the property."""
    if status == "env_illegal_input":
        raise tlc.TLCError("stimulus outside the specification's environment assumptions: %s" % (meta,))


def classify_rx(trace, matched, status, meta):
    _env_guard(status, meta)
    k = matched if status != "ok" else matched + 1
    pattern = "other"
    if 0 < k <= len(trace):
        # length of the packet in progress / just finished at the failing step, and whether it had gaps
        j = k - 1
        while j >= 0 and not trace[j]["active"]:
            j -= 1
        run = []
        while j >= 0 and trace[j]["active"]:
            run.append(bool(trace[j]["valid"]))
            j -= 1
        n = sum(run)
        if n:
            inner = run[run.index(True):len(run) - run[::-1].index(True)]      # between last and first byte
            gaps = not all(inner)
        else:
            gaps = False
        pattern = "pktlen%d%s" % (min(n, 9), "_gaps" if gaps else "")
    return {"clause": status, "pattern": pattern}


def check_C02(rep):
    quick = rep.tier == "quick"
    rep.rule = ("received packets driven through a real USBDataPacketReceiver and validated cycle by cycle against "
                "DataRx.tla; distinct by (DUT configuration, expected outcome, packet kind, packet length<=12)")
    rep.assume("rx_valid is only asserted while rx_active; rx_active is high at least one cycle before the first rx_valid")
    rep.assume("rx_active stays low between packets for at least the inter-packet delay the receiver waits for before "
               "ready_for_response (12 cycles standalone FS@60MHz, 5 in the 12 MHz FS device)")
    rep.assume("packet_complete/crc_mismatch may fire in any of the 3 cycles after rx_active fell; ready_for_response within "
               "100 cycles of packet_complete (the low-speed inter-packet delay is 80) unless a new packet starts first")
    rep.assume("for a packet whose PID is not a valid DATAx PID the receiver may or may not stream the middle bytes "
               "(the statement is ambiguous); it must never raise a strobe for it")

    # 1. exhaustive exploration of the specification
    base1 = TlaSet([0xC3, 0xD2, 0x43, 0x00])
    runs = [("MCSpec", base1, 4, 1), ("MCSpecByBranch", TlaSet([0xC3]), 4, 2)]
    if not quick:
        runs = [("MCSpec", TlaSet([0xC3, 0x4B, 0xD2, 0x43, 0x00, 0x81]), 5, 1), ("MCSpec", TlaSet([0xC3, 0xD2, 0x00]), 4, 2),
                ("MCSpecByBranch", TlaSet([0xC3, 0x00]), 4, 2)]
    for spec, base, maxlen, maxpk in runs:
        b = {"Spec": spec, "BaseBytes": base, "MaxLen": maxlen, "MaxPkts": maxpk,
             "MaxResets": 1 if spec == "MCSpecByBranch" else 0, "StrobeWin": 2, "RfrWin": 3, "MinGap": 3}
        # with <= 1 payload byte every allowed prefix has an allowed continuation (deadlock check = the Ref is
        # implementable); with more, a receiver that lags too far behind has none -- intended, so no deadlock check
        cfg = tlc.render_cfg(_cfg("MCDataRx.cfg.tmpl"), dict(b, Deadlock="TRUE" if maxlen <= 4 else "FALSE"))
        res = tlc.model_check(SPEC_DIR, "MCDataRx", cfg, workers=8, timeout=1500,
                              allow_uncovered=() if b["MaxResets"] else ("DomainReset",))
        rep.add_mc("MCDataRx %s bytes=%s+CRC-correct MaxLen=%d MaxPkts=%d" % (spec, sorted(base), maxlen, maxpk), res,
                   {k: (sorted(v) if isinstance(v, TlaSet) else v) for k, v in b.items()})

    # 2. stimuli.  DUT configurations: the receiver's constructor parameters are utmi (one type), standalone
    #    (True: own CRC unit + timer; False: only inside a USBDevice, shared CRC unit) and speed (not given / FULL /
    #    LOW / HIGH / a Signal).  "standalone" and "device" get the complete stimulus set; the other speed settings a
    #    reduced one in the quick tier (the speed only moves the inter-packet delay) and the complete one in thorough.
    kinds = ["standalone", "device"]
    extra = ["standalone-full", "standalone-low", "standalone-high", "standalone-sig"]
    jobs = []       # (kind, cycles, origin, RxStim or None)
    #    (A) spec -> code: TLC-simulated receive histories (legal for every full-speed configuration: MinGap 14)
    sim_cfg = tlc.render_cfg(_cfg("MCDataRx_sim.cfg.tmpl"),
                             {"BaseBytes": TlaSet([0xC3, 0x4B, 0x87, 0x0F, 0xD2, 0x43, 0xE1, 0x00, 0x01, 0x80, 0xFF]),
                              "MaxLen": 9, "MaxPkts": 5, "MaxResets": 0, "StrobeWin": 3, "RfrWin": 24, "MinGap": 14})
    behs = tlc.simulate(SPEC_DIR, "MCDataRx", sim_cfg, num=12 if quick else 200, depth=160, seed=rep.seed, timeout=1200)
    for b in behs:
        cyc = [dict(st["in"]) for _, st in b[1:]]
        cyc += [{"active": False, "valid": False, "data": 0}] * 110
        for kind in kinds:
            jobs.append((kind, cyc, "tlc-simulate", None))
    #    (B) code -> spec: packet soups beyond the model's bounds
    for kind in kinds + extra:
        reduced = quick and kind in extra
        for t in range(1 if reduced else 4 if quick else 40):
            st = _rx_random_trace(rep.rng, kind, 12 if reduced else 30 if quick else 60)
            jobs.append((kind, st.cycles, "random-soup", st))
        for st in _rx_reset_traces(rep.rng, kind, quick):
            jobs.append((kind, st.cycles, "domain-reset", st))
        if reduced:
            # the alignment that depends on the speed: the next packet d cycles after the minimum gap
            st = [x for x in _rx_sweep_traces(rep.rng, kind, quick, only="gap-after")][0]
            jobs.append((kind, st.cycles, "alignment-sweeps", st))
            continue
        pl = [("DATA0", []), ("DATA1", [0x00]), ("DATA0", [0xA5, 0x5A]), ("DATA2", [1, 2, 3]), ("MDATA", [0xFF] * 4)]
        if not quick:
            pl += [("DATA1", [rep.rng.randrange(256) for _ in range(n)]) for n in (5, 6, 8, 13)]
        for st in _rx_bitflip_traces(rep.rng, kind, pl, 0.34 if quick else 1.0):
            jobs.append((kind, st.cycles, "single-bit-corruptions", st))
        for st in _rx_sweep_traces(rep.rng, kind, quick):
            jobs.append((kind, st.cycles, "alignment-sweeps", st))
        for st in _rx_ignored_head_traces(rep.rng, kind, quick):
            jobs.append((kind, st.cycles, "ignored-head-with-data-tail", st))

    # 3. run on the real modules
    drivers = {}
    by_kind = {}
    for kind, cyc, origin, st in jobs:
        if kind not in drivers:
            try:
                drivers[kind] = make_rx_driver(kind)
            except TypeError as ex:
                # documented configuration that cannot be elaborated (speed given as a Signal: `if not self.speed`);
                # nothing the property speaks about can be observed -- recorded, not a violation of C02
                drivers[kind] = None
                rep.drift.append({"dut": kind, "what": "configuration cannot be elaborated: %s" % str(ex)[:120]})
                rep.notes.append("USBDataPacketReceiver(standalone=True, speed=<Signal>) raises TypeError in elaborate() "
                                 "(`if not self.speed`), although the doc-string allows a Signal; speed=USBSpeed.HIGH (== 0) "
                                 "is silently replaced by FULL for the same reason (see fixes/C02-standalone-speed-none.diff)")
        if drivers[kind] is None:
            continue
        cyc = [dict({"rst": 0}, **c) for c in cyc]
        if kind == "device":
            cyc[0].update(DEVICE_STATIC)
            cyc[0].setdefault("tx_ready", 1)
        raw = drivers[kind].run(cyc)
        trace = [_rx_record(r) for r in raw]
        rep.add_eval(len(trace))
        if st is not None:
            _rx_account(rep, kind, st)
        else:
            rep.nontriv(("rx", kind, "tlc-simulate", sum(1 for r in trace if r["cp"]), sum(1 for r in trace if r["mm"])))
        by_kind.setdefault(kind, []).append((trace, {"dut": kind, "origin": origin}))

    #    the receiver inside a ULPI-attached USBDevice (60 MHz, non-fs_only timer tables, UTMITranslator in front):
    #    the packets of some of the soups above, rendered by the ULPI PHY model with its own receive patterns
    ub = UlpiRxBench()
    soups = [st for k, _, o, st in jobs if k == "device" and st is not None and o in ("random-soup", "ignored-head-with-data-tail")]
    for n_soup, st in enumerate(soups[:3] if quick else soups):
        pk = [(o, rep.rng.choice([0, 0.3]), 16 + rep.rng.choice([0, 1, 5, 90])) for o, _ in st.packets[:40 if quick else 400]]
        sc = ["fs_only", "auto"][(rep.seed + n_soup) % 2]
        trace = ub.run(pk, rep.rng, sc)
        rep.add_eval(len(trace))
        rep.nontriv(("rx", "device-ulpi", sc, n_soup))
        by_kind.setdefault("device-ulpi", []).append((trace, {"dut": "device-ulpi", "speed_inputs": sc, "origin": "soup-via-ulpi"}))

    # 4. validate with TLC
    cfg = tlc.render_cfg(_cfg("DataRxTrace.cfg.tmpl"), RX_TRACE_CONSTS)
    validate_group(rep, SPEC_DIR, "DataRxTrace", cfg, [it for items in by_kind.values() for it in items],
                   classify=classify_rx, what_prefix="USBDataPacketReceiver ", chunk=1000)
    for kind, items in by_kind.items():
        tr = items[-1][0]
        k = next((j for j, r in enumerate(tr) if r["cp"] or r["mm"]), 0)
        rep.sample({"dut": kind, "origin": items[-1][1]["origin"], "cycles_around_first_strobe": tr[max(0, k - 6):k + 2]})


# =============================================================================================
# C03 — data transmission
# =============================================================================================

TX_FIELDS_IN = ("sv", "sf", "sl", "sp", "pid", "rdy")
TX_CONSTS = {"ProgWin": 4}


class TxBench:
    """Closed-loop producer + PHY for the transmit path.

    A script is a list of requests {"pid", "payload" ([] = ZLP request), "idle" (cycles before the request),
    "junk" (drive random first/last/payload/pid while valid is low), "rx" (optional bytes received on the UTMI
    receive side during the idle time; device only), "pid_change" (drive random data_pid values once the PID byte
    has been accepted), "reset_idle" / "reset_wait" (pulse the domain reset in that cycle of the idle time / of the
    wait for the packet to leave)} plus a tx_ready bit source `rdy(cycle, wire_pos) -> 0/1`.
    The producer obeys USBInStreamInterface: holds a byte until valid & ready, keeps valid high from first to
    last, keeps data_pid stable until the PID byte has left, and requests again only after tx_valid has fallen.
    """

    def __init__(self, kind):
        use_repo()
        from amaranth.sim import Simulator
        self.kind = kind
        if kind == "standalone":
            from luna.gateware.usb.usb2.packet import USBDataPacketGenerator
            dut = USBDataPacketGenerator(standalone=True)
            self.s = {"sv": dut.stream.valid, "sf": dut.stream.first, "sl": dut.stream.last, "sp": dut.stream.payload,
                      "pid": dut.data_pid, "rdy": dut.tx.ready, "sr": dut.stream.ready, "tv": dut.tx.valid,
                      "td": dut.tx.data}
            self.static = []
            self.rx = None
            period = 1 / 60e6
        else:
            dev, u, stub = make_device()
            itf = stub.interface
            dut = dev
            self.s = {"sv": itf.tx.valid, "sf": itf.tx.first, "sl": itf.tx.last, "sp": itf.tx.payload,
                      "pid": itf.tx_pid_toggle, "rdy": u.tx_ready, "sr": itf.tx.ready, "tv": u.tx_valid,
                      "td": u.tx_data}
            self.static = [(dev.connect, 1), (dev.full_speed_only, 1), (u.line_state, 1)]
            self.rx = (u.rx_active, u.rx_valid, u.rx_data)
            period = 1 / 12e6
        top, self.rst = with_domain(dut)
        self.sim = Simulator(top)
        self.sim.add_clock(period, domain="usb")
        self._first = True
        self._job = None
        self._rec = None
        self.sim.add_testbench(self._bench)

    async def _bench(self, ctx):
        script, rdy, rng = self._job
        s = self.s
        for sig, v in self.static:
            ctx.set(sig, v)
        rec = []
        cyc = 0
        wire_pos = 0            # bytes accepted in the current burst (for position-specific stalls)

        pidchg = [False]        # drive a different data_pid once the PID byte has been accepted

        async def cycle(sv, sf, sl, sp, pid, rx=None, rst=0):
            nonlocal cyc, wire_pos
            r = int(bool(rdy(cyc, wire_pos)))
            if pidchg[0] and wire_pos >= 1:
                pid = rng.randrange(4)
            ctx.set(self.rst, rst)
            for k, v in (("sv", sv), ("sf", sf), ("sl", sl), ("sp", sp), ("pid", pid), ("rdy", r)):
                ctx.set(s[k], v)
            if self.rx is not None:
                a, v, d = rx if rx is not None else (0, 0, 0)
                ctx.set(self.rx[0], a)
                ctx.set(self.rx[1], v)
                ctx.set(self.rx[2], d)
            sr, tv, td = ctx.get(s["sr"]), ctx.get(s["tv"]), ctx.get(s["td"])
            rec.append({"rst": bool(rst), "sv": bool(sv), "sf": bool(sf), "sl": bool(sl), "sp": sp, "pid": pid,
                        "rdy": bool(r), "sr": bool(sr), "tv": bool(tv), "td": td})
            if tv and r:
                wire_pos += 1
            if not tv:
                wire_pos = 0
            await ctx.tick("usb")
            cyc += 1
            return sr, tv

        def junk(on):
            if on:
                return 0, rng.randrange(2), rng.randrange(2), rng.randrange(256), rng.randrange(4)
            return 0, 0, 0, 0, 0

        for rq in script:
            # idle time (optionally with a packet arriving on the receive side, finished before the request)
            rxq = []
            if self.rx is not None and rq.get("rx"):
                rxq = [(1, 0, 0)] + [(1, 1, b) for b in rq["rx"]] + [(0, 0, 0)] * (1 + rq.get("rx_gap", 5))
            n_idle = max(rq.get("idle", 1), len(rxq))
            pidchg[0] = False
            for k in range(n_idle):
                await cycle(*junk(rq.get("junk")), rx=rxq[k] if k < len(rxq) else None,
                            rst=int(k == rq.get("reset_idle", -1)))
            pidchg[0] = bool(rq.get("pid_change"))
            pid = rq["pid"]
            payload = rq["payload"]
            if not payload:
                await cycle(1, 0, 1, rng.randrange(256) if rq.get("junk") else 0, pid)      # ZLP request pulse
                seen_tv = False
            else:
                seen_tv = False
                k = 0
                guard = 0
                while k < len(payload):
                    sr, tv = await cycle(1, int(k == 0), int(k == len(payload) - 1), payload[k], pid)
                    seen_tv = seen_tv or bool(tv)
                    if sr:
                        k += 1
                        guard = 0
                    else:
                        guard += 1
                        if guard > 60:          # the DUT is stuck; the specification will say so
                            break
            # wait for the packet to leave (tx_valid seen high, then low), data_pid held
            for w in range(80):
                if w == rq.get("reset_wait", -1):
                    # domain reset while the rest of the packet (CRC bytes) is on its way: the packet is cut short
                    await cycle(0, 0, 0, 0, pid, rst=1)
                    break
                sr, tv = await cycle(0, 0, 0, 0, pid)
                if tv:
                    seen_tv = True
                elif seen_tv:
                    break
        for _ in range(6):
            await cycle(0, 0, 0, 0, 0)
        self._rec = rec

    def run(self, script, rdy, rng):
        self._job = (script, rdy, rng)
        self._rec = None
        if not self._first:
            self.sim.reset()
        self._first = False
        self.sim.run()
        return self._rec


def _rdy_random(rng, p_stall, max_stall):
    state = {"run": 0}

    def f(cyc, pos):
        if p_stall and state["run"] < max_stall and rng.random() < p_stall:
            state["run"] += 1
            return 0
        state["run"] = 0
        return 1
    return f


def _rdy_at_position(pos_stalls):
    """tx_ready low for n cycles exactly when the burst is at wire position p (p bytes accepted so far)."""
    left = dict(pos_stalls)

    def f(cyc, pos):
        if left.get(pos, 0) > 0:
            left[pos] -= 1
            return 0
        return 1
    return f


def _rdy_bits(bits):
    def f(cyc, pos):
        return bits[cyc % len(bits)] if bits else 1
    return f


def _tx_script_from_behaviour(beh):
    """Turn a TLC-simulated DataTx behaviour into (script, tx_ready bits): the requests made (pid, payload as
    offered, idle time before) and the per-cycle tx_ready choices."""
    script = []
    bits = []
    idle = 0
    cur = None
    prev_nreq = 0
    for _, st in beh[1:]:
        i = st["in"]
        bits.append(1 if i["rdy"] else 0)
        if st["nreq"] > prev_nreq:
            cur = {"pid": i["pid"], "payload": [], "idle": max(idle, 1), "junk": False}
            script.append(cur)
            prev_nreq = st["nreq"]
            idle = 0
        if cur is not None and st["req"] != "none":
            cur["payload"] = list(st["offd"])
        if st["req"] == "none":
            idle += 1
    return script, bits


def classify_tx(trace, matched, status, meta):
    _env_guard(status, meta)
    k = matched if status != "ok" else matched + 1
    pattern = "other"
    if 0 < k <= len(trace):
        j = k - 1
        stalled = False
        n = 0
        while j >= 0 and trace[j]["tv"]:
            if not trace[j]["rdy"]:
                stalled = True
            else:
                n += 1
            j -= 1
        pattern = "wirepos%d%s" % (min(n, 9), "_after_stall" if stalled else "")
    return {"clause": status, "pattern": pattern}


def check_C03(rep):
    quick = rep.tier == "quick"
    rep.rule = ("transmit requests driven through a real USBDataPacketGenerator (inside a real USBDevice via a stub "
                "endpoint, and standalone) and validated cycle by cycle against DataTx.tla; distinct by "
                "(DUT, payload length<=12, data_pid, stall pattern class)")
    rep.assume("USBInStreamInterface producer: a byte is held until valid & ready, valid stays high from first to last, "
               "a ZLP request is a one-cycle pulse of valid & last without first")
    rep.assume("data_pid is stable from the request until the PID byte was accepted (it is changed right after in half of "
               "the requests); a new request is made only after tx_valid has fallen")
    rep.assume("a domain reset (only while no byte is on offer) cuts the packet in progress short; afterwards the generator "
               "must serve requests like a fresh one")
    rep.assume("the generator may take up to 4 tx_ready cycles without sending a byte before starting / moving on (latency free)")
    rep.assume("tx_data is only constrained in cycles where tx_valid and tx_ready are both high")

    # 1. exhaustive exploration of the specification
    runs = [{"Data": TlaSet([0, 0x81]), "Pids": TlaSet([2]), "MaxLen": 3, "MaxReq": 2, "MaxStall": 1, "MaxResets": 0, "ProgWin": 2},
            {"Data": TlaSet([0x81]), "Pids": TlaSet([1, 2]), "MaxLen": 2, "MaxReq": 1, "MaxStall": 1, "MaxResets": 1, "ProgWin": 2}]
    if not quick:
        runs = [{"Data": TlaSet([0, 1, 0x80, 0xFF]), "Pids": TlaSet([0, 3]), "MaxLen": 3, "MaxReq": 1, "MaxStall": 2, "MaxResets": 1, "ProgWin": 2},
                {"Data": TlaSet([0, 0x81]), "Pids": TlaSet([0, 1, 2, 3]), "MaxLen": 4, "MaxReq": 2, "MaxStall": 1, "MaxResets": 0, "ProgWin": 2}]
    for b in runs:
        cfg = tlc.render_cfg(_cfg("MCDataTx.cfg.tmpl"), b)
        res = tlc.model_check(SPEC_DIR, "MCDataTx", cfg, workers=8, timeout=1500,
                              allow_uncovered=() if b["MaxResets"] else ("DomainReset",))
        rep.add_mc("MCDataTx " + " ".join("%s=%s" % (k, sorted(v) if isinstance(v, TlaSet) else v) for k, v in b.items()),
                   res, {k: (sorted(v) if isinstance(v, TlaSet) else v) for k, v in b.items()})

    # 2. scripts
    rng = rep.rng
    jobs = []       # (kind, script, rdy-fn factory, origin, stall-class)
    kinds = ["device", "standalone"]
    #    (A) spec -> code: TLC-simulated request / tx_ready schedules
    sim_cfg = tlc.render_cfg(_cfg("MCDataTx_sim.cfg.tmpl"),
                             {"Data": TlaSet([0, 1, 0x80, 0xFF, 0x5A]), "Pids": TlaSet([0, 1, 2, 3]), "MaxLen": 6,
                              "MaxReq": 6, "MaxStall": 3, "MaxResets": 0, "ProgWin": 2})
    behs = tlc.simulate(SPEC_DIR, "MCDataTx", sim_cfg, num=30 if quick else 300, depth=120, seed=rep.seed, timeout=1200)
    for b in behs:
        script, bits = _tx_script_from_behaviour(b)
        if script:
            for kind in kinds:
                jobs.append((kind, script, (lambda bb=bits: _rdy_bits(bb)), "tlc-simulate", "tlc"))
    #    (B) code -> spec
    def rnd_payload(n):
        return [rng.choice([0, 0xFF, 0x80, 1, rng.randrange(256), rng.randrange(256)]) for _ in range(n)]

    for kind in kinds:
        # random soups with different stall regimes
        for p_stall, max_stall, cls in [(0.0, 0, "none"), (0.2, 2, "light"), (0.5, 3, "heavy"), (0.7, 8, "long")]:
            for t in range(2 if quick else 12):
                script = []
                for _ in range(12 if quick else 25):
                    n = rng.choice([0, 0, 1, 1, 2, 3, 4, 5, 8, 9])
                    if rng.random() < 0.05:
                        n = rng.choice([31, 32, 63, 64, 65])
                    rq = {"pid": rng.randrange(4), "payload": rnd_payload(n), "idle": rng.choice([1, 1, 2, 5]),
                          "junk": rng.random() < 0.5, "pid_change": rng.random() < 0.5}
                    if kind == "device" and rng.random() < 0.3:
                        rq["rx"] = _host().data_bytes("DATA0", rnd_payload(rng.randrange(4)))
                    script.append(rq)
                jobs.append((kind, script, (lambda p=p_stall, m=max_stall: _rdy_random(rng, p, m)), "random-soup", cls))
        # a stall of 1..3 cycles at every wire position of short packets (incl. the ZLP), every pid
        for n in ([0, 1, 2, 3] if quick else [0, 1, 2, 3, 4, 5, 8]):
            for pos in range(n + 3):
                for dur in ([1, 2] if quick else [1, 2, 3]):
                    script = [{"pid": rng.randrange(4), "payload": rnd_payload(n), "idle": 2, "junk": False},
                              {"pid": rng.randrange(4), "payload": rnd_payload(rng.randrange(3)), "idle": 1, "junk": False}]
                    jobs.append((kind, script, (lambda pp=pos, dd=dur: _rdy_at_position({pp: dd})),
                                 "stall-at-position", "pos%d" % pos))
        # every subset of stalled wire positions for the shortest packets (one-cycle stalls), plus two-cycle
        # stalls on both CRC bytes
        for n in ([0, 1, 2] if quick else [0, 1, 2, 3]):
            for mask in range(1 << (n + 3)):
                stalls = {pp: 1 for pp in range(n + 3) if (mask >> pp) & 1}
                script = [{"pid": mask % 4, "payload": rnd_payload(n), "idle": 2, "junk": False},
                          {"pid": (mask + 1) % 4, "payload": rnd_payload(mask % 3), "idle": 1, "junk": False}]
                jobs.append((kind, script, (lambda ss=stalls: _rdy_at_position(ss)), "stall-subsets", "mask%d" % mask))
            script = [{"pid": n % 4, "payload": rnd_payload(n), "idle": 2, "junk": False}]
            jobs.append((kind, script, (lambda nn=n: _rdy_at_position({nn + 1: 2, nn + 2: 2})), "stall-subsets", "crc2x2"))
        # the next request d cycles after the previous packet left (d = 1..12), data / ZLP alternating
        script = []
        for d in range(1, 13):
            script.append({"pid": d % 4, "payload": rnd_payload([0, 1, 2, 0][d % 4]), "idle": d, "junk": bool(d % 2)})
        jobs.append((kind, script, (lambda: _rdy_random(rng, 0.0, 0)), "request-offset-sweep", "none"))
        jobs.append((kind, script, (lambda: _rdy_random(rng, 0.3, 2)), "request-offset-sweep", "light"))
        # device: the request d cycles after a received packet ended (shared CRC unit just used by the receiver)
        if kind == "device":
            script = []
            for d in range(0, 13):
                script.append({"pid": d % 4, "payload": rnd_payload(d % 3), "idle": 1, "junk": False,
                               "rx": _host().data_bytes("DATA1", rnd_payload(d % 4)), "rx_gap": d})
            jobs.append((kind, script, (lambda: _rdy_random(rng, 0.2, 2)), "rx-then-request-sweep", "light"))
        # data_pid changed right after the PID byte left, for every pid and short lengths, with a stall on the PID byte
        script = [{"pid": p_, "payload": rnd_payload(n), "idle": 1, "junk": False, "pid_change": True}
                  for n in (0, 1, 2) for p_ in range(4)]
        jobs.append((kind, script, (lambda: _rdy_random(rng, 0.0, 0)), "pid-change-after-pid-byte", "none"))
        jobs.append((kind, script, (lambda: _rdy_at_position({0: 2, 1: 1})), "pid-change-after-pid-byte", "pos0"))
        # a domain reset while idle (d cycles after the previous packet left) and while the CRC bytes are on their
        # way; the following requests must be served like the first
        script = []
        for d in range(0, 6):
            script += [{"pid": d % 4, "payload": rnd_payload(d % 3), "idle": 1, "junk": False},
                       {"pid": (d + 1) % 4, "payload": rnd_payload((d + 1) % 3), "idle": d + 3, "junk": False, "reset_idle": d},
                       {"pid": (d + 2) % 4, "payload": rnd_payload(1 + d % 2), "idle": 1, "junk": False, "reset_wait": d % 4},
                       {"pid": d % 4, "payload": rnd_payload(d % 3), "idle": 2 + d % 2, "junk": False}]
        jobs.append((kind, script, (lambda: _rdy_random(rng, 0.0, 0)), "domain-reset", "none"))
        jobs.append((kind, script, (lambda: _rdy_random(rng, 0.4, 2)), "domain-reset", "light"))
        # sequences around ZLPs: ZLP then data, data then ZLP, two ZLPs
        for t in range(3 if quick else 12):
            script = []
            for _ in range(8):
                script.append({"pid": rng.randrange(4), "payload": rnd_payload(rng.choice([0, 0, 1, 2])), "idle": 1,
                               "junk": rng.random() < 0.3})
            jobs.append((kind, script, (lambda: _rdy_random(rng, 0.3, 2)), "zlp-sequences", "light"))

    # 3. run on the real modules
    benches = {}
    items = []
    for kind, script, rdyf, origin, cls in jobs:
        if kind not in benches:
            benches[kind] = TxBench(kind)
        trace = benches[kind].run(script, rdyf(), rng)
        rep.add_eval(len(trace))
        for rq in script:
            rep.nontriv(("tx", kind, min(len(rq["payload"]), 12), rq["pid"], cls))
        items.append((trace, {"dut": kind, "origin": origin, "stalls": cls,
                              "script": [{"pid": r["pid"], "payload": r["payload"]} for r in script][:6]}))

    #    the transmit path of a ULPI-attached USBDevice (60 MHz; tx_ready comes from the UTMITranslator / NXT)
    utb = UlpiTxBench()
    ulpi_jobs = []
    for stall_prob, cls in [(0.0, "none"), (0.3, "light"), (0.6, "heavy")]:
        for t in range(1 if quick else 6):
            script = [{"pid": rng.randrange(4), "payload": rnd_payload(rng.choice([0, 0, 1, 2, 3, 5, 8, 9])), "idle": rng.choice([1, 2, 5])}
                      for _ in range(10 if quick else 25)]
            ulpi_jobs.append((script, stall_prob, None, cls))
    # NXT held low for 1..2 cycles at every byte position of short packets (position 0 = the TXCMD / PID byte)
    for n in ([0, 1, 2] if quick else [0, 1, 2, 3, 4]):
        script, plans = [], []
        for pos in range(n + 3):
            for dur in (1, 2):
                script.append({"pid": (pos + dur) % 4, "payload": rnd_payload(n), "idle": 2})
                plans.append([1] * pos + [0] * dur + [1] * (n + 6))
        ulpi_jobs.append((script, 0.0, plans, "nxt-at-position"))
    for n_job, (script, stall_prob, plans, cls) in enumerate(ulpi_jobs):
        sc = ["fs_only", "auto"][(rep.seed + n_job) % 2]
        trace = utb.run(script, rng, (sc, stall_prob, plans))
        rep.add_eval(len(trace))
        for rq in script:
            rep.nontriv(("tx", "device-ulpi", min(len(rq["payload"]), 12), rq["pid"], cls))
        items.append((trace, {"dut": "device-ulpi", "speed_inputs": sc, "origin": "ulpi", "stalls": cls,
                              "script": [{"pid": r["pid"], "payload": r["payload"]} for r in script][:6]}))

    # 4. validate with TLC
    cfg = tlc.render_cfg(_cfg("DataTxTrace.cfg.tmpl"), TX_CONSTS)
    validate_group(rep, SPEC_DIR, "DataTxTrace", cfg, items, classify=classify_tx,
                   what_prefix="USBDataPacketGenerator ", chunk=1000)
    for kind in kinds:
        tr = next(t for t, m in items if m["dut"] == kind and m["origin"] == "random-soup" and m["stalls"] == "light")
        k = next((j for j, r in enumerate(tr) if r["tv"]), 0)
        rep.sample({"dut": kind, "cycles_from_first_tx_valid": tr[max(0, k - 2):k + 10]})


# =============================================================================================
# C28 — OUT stream boundary detector
# =============================================================================================

OB_CONSTS = {"OutWin": 3, "StrobeWin": 5, "MinGap": 6}
OB_IN_BOOL = ("iv", "inx", "ic", "ix")
OB_OUT_BOOL = ("ov", "onx", "of", "ol", "oc", "ox")


def make_ob_driver(domain=None):
    """domain=None: the constructor's default ("usb"); otherwise USBOutStreamBoundaryDetector(domain=<name>)."""
    use_repo()
    from luna.gateware.usb.stream import USBOutStreamBoundaryDetector
    dut = USBOutStreamBoundaryDetector() if domain is None else USBOutStreamBoundaryDetector(domain=domain)
    domain = domain or "usb"
    top, rst = with_domain(dut, domain)
    ins = {"iv": dut.unprocessed_stream.valid, "inx": dut.unprocessed_stream.next, "ip": dut.unprocessed_stream.payload,
           "ic": dut.complete_in, "ix": dut.invalid_in, "rst": rst}
    outs = {"ov": dut.processed_stream.valid, "onx": dut.processed_stream.next, "op": dut.processed_stream.payload,
            "of": dut.first, "ol": dut.last, "oc": dut.complete_out, "ox": dut.invalid_out}
    return CycleDriver(top, ins, outs, domain=domain, bool_outputs=OB_OUT_BOOL, bool_inputs=OB_IN_BOOL + ("rst",))


def _ob_packet(rng, cycles, payload, gap_prob, lead, strobes, junk=True):
    """Append one packet.  strobes: list of (where, which) with where in
    {"fall", "fall+1", "first", "before_first", "mid", "tail"} and which in {"c", "x", "cx"}."""
    def cyc(v=0, n=0, p=0):
        return {"iv": v, "inx": n, "ip": p, "ic": 0, "ix": 0}
    start = len(cycles)
    for _ in range(lead):
        cycles.append(cyc(1, 0, rng.randrange(256) if junk else 0))
    byte_idx = []
    for k, b in enumerate(payload):
        g = 0
        while gap_prob and rng.random() < gap_prob and g < 6:
            cycles.append(cyc(1, 0, rng.randrange(256) if junk else 0))
            g += 1
        byte_idx.append(len(cycles))
        cycles.append(cyc(1, 1, b))
    tail = rng.choice([0, 0, 1, 3])
    for _ in range(tail):
        cycles.append(cyc(1, 0, rng.randrange(256) if junk else 0))
    fall = len(cycles)
    for _ in range(OB_CONSTS["MinGap"] + 1 + rng.choice([0, 0, 1, 5])):
        cycles.append(cyc())
    for where, which in strobes:
        if where == "fall":
            at = fall
        elif where == "fall+1":
            at = fall + 1
        elif where == "first":
            at = byte_idx[0]
        elif where == "before_first":
            at = start if lead else None
        elif where == "mid":
            at = rng.randrange(byte_idx[0] + 1, fall) if fall > byte_idx[0] + 1 else None
        elif where == "tail":
            at = fall - 1 if fall - 1 > byte_idx[0] else None
        else:
            at = None
        if at is None:
            continue
        if "c" in which:
            cycles[at]["ic"] = 1
        if "x" in which:
            cycles[at]["ix"] = 1


def _ob_random_trace(rng, npackets):
    cycles = [{"iv": 0, "inx": 0, "ip": 0, "ic": 0, "ix": 0} for _ in range(OB_CONSTS["MinGap"] + 1)]
    meta = []
    for _ in range(npackets):
        n = rng.choice([1, 1, 2, 2, 3, 4, 5, 8, 17])
        payload = [rng.choice([0, 0xFF, rng.randrange(256), rng.randrange(256)]) for _ in range(n)]
        r = rng.random()
        if r < 0.35:
            strobes = [("fall", rng.choice(["c", "x"]))]                     # how the receiver drives it
        elif r < 0.5:
            strobes = []
        elif r < 0.85:
            strobes = [(rng.choice(["mid", "tail", "first", "before_first", "fall+1"]), rng.choice(["c", "x", "cx"]))]
        else:
            strobes = [(rng.choice(["mid", "tail", "fall"]), "c"), (rng.choice(["mid", "first", "fall+1"]), "x")]
        _ob_packet(rng, cycles, payload, rng.choice([0, 0, 0.3, 0.7]), rng.choice([0, 0, 1, 3]), strobes)
        meta.append((n, tuple(sorted(strobes))))
        if rng.random() < 0.15:            # a strobe while no packet is around: must not be reported
            cycles[-1][rng.choice(["ic", "ix"])] = 1
            cycles.extend({"iv": 0, "inx": 0, "ip": 0, "ic": 0, "ix": 0} for _ in range(3))
    cycles.extend({"iv": 0, "inx": 0, "ip": 0, "ic": 0, "ix": 0} for _ in range(8))
    return cycles, meta


def _ob_packet_exact(cycles, payload, gaps, lead, tail, idle_after, strobes):
    """Deterministic packet: gaps[k] idle-valid cycles before byte k; strobes = [(ref, d, which)] with ref in
    {"fall", "first"}: the strobe is placed d cycles after (before, if negative) that cycle, if it exists."""
    def cyc(v=0, n=0, p=0):
        return {"iv": v, "inx": n, "ip": p, "ic": 0, "ix": 0}
    for _ in range(lead):
        cycles.append(cyc(1))
    first = None
    for k, b in enumerate(payload):
        for _ in range(gaps[k]):
            cycles.append(cyc(1))
        if first is None:
            first = len(cycles)
        cycles.append(cyc(1, 1, b))
    for _ in range(tail):
        cycles.append(cyc(1))
    fall = len(cycles)
    for _ in range(idle_after):
        cycles.append(cyc())
    for ref, d, which in strobes:
        at = (fall if ref == "fall" else first) + d
        if 0 <= at < len(cycles):
            if "c" in which:
                cycles[at]["ic"] = 1
            if "x" in which:
                cycles[at]["ix"] = 1


def _ob_sweep_traces(rng, quick):
    """Systematic alignments: a strobe at every offset around the end of the packet and around its first byte, for
    several packet shapes; every gap pattern of short packets; every inter-packet distance from the minimum up."""
    out = []
    idle0 = [{"iv": 0, "inx": 0, "ip": 0, "ic": 0, "ix": 0} for _ in range(OB_CONSTS["MinGap"] + 1)]
    mg = OB_CONSTS["MinGap"] + 1

    def pl(n):
        return [rng.randrange(256) for _ in range(n)]

    # (a) strobe at offset d from the first cycle with valid low
    for n in ([1, 2, 3, 5] if quick else [1, 2, 3, 4, 5, 8]):
        for tail in (0, 1, 2):
            cyc = [dict(c) for c in idle0]
            meta = []
            for d in range(-8, 4):
                which = ["c", "x", "cx"][(d + n) % 3]
                gaps = [0] * n
                if n >= 2 and d % 2:
                    gaps[n - 1] = 1 + (d % 3)              # sometimes a gap right before the final byte
                _ob_packet_exact(cyc, pl(n), gaps, (d + tail) % 2, tail, mg + 2, [("fall", d, which)])
                meta.append((n, "fall%+d" % d, which, tail))
            out.append((cyc, meta))
    # (b) strobe at offset d from the first byte
    for n in (1, 2, 3):
        cyc = [dict(c) for c in idle0]
        meta = []
        for d in range(-2, 7):
            which = ["c", "x"][d % 2]
            _ob_packet_exact(cyc, pl(n), [0] + [d % 2] * (n - 1), 2, 1, mg + 2, [("first", d, which)])
            meta.append((n, "first%+d" % d, which, 1))
        out.append((cyc, meta))
    # (c) every gap pattern (gap of g before byte k) of packets of 1..4 bytes, strobe where the receiver puts it
    for g in ([1] if quick else [1, 2, 3]):
        cyc = [dict(c) for c in idle0]
        meta = []
        for n in (1, 2, 3, 4):
            for mask in range(1 << n):
                _ob_packet_exact(cyc, pl(n), [g if (mask >> k) & 1 else 0 for k in range(n)], mask % 2, (mask >> 1) % 3, mg,
                                 [("fall", 0, "x" if mask % 4 == 3 else "c")])
                meta.append((n, "gapmask%d" % mask, g))
        out.append((cyc, meta))
    # (d) distance between packets from the minimum up
    cyc = [dict(c) for c in idle0]
    meta = []
    for d in range(0, 12):
        _ob_packet_exact(cyc, pl(1 + d % 3), [0] * (1 + d % 3), 0, 0, OB_CONSTS["MinGap"] + d, [("fall", 0, "c")])
        _ob_packet_exact(cyc, pl(2), [0, d % 2], 0, d % 2, mg + 3, [("fall", 0, "x")] if d % 2 else [])
        meta.append((1 + d % 3, "distance%d" % d))
    out.append((cyc, meta))
    for cyc, _ in out:
        cyc.extend({"iv": 0, "inx": 0, "ip": 0, "ic": 0, "ix": 0} for _ in range(10))
    return out


def _ob_reset_traces(rng):
    """A domain reset d cycles after valid fell (d = 1 hits the cycle the last byte goes out, d = 2 the strobe cycle,
    later ones the idle detector), followed by packets that must be handled like the first."""
    cyc = [{"iv": 0, "inx": 0, "ip": 0, "ic": 0, "ix": 0} for _ in range(OB_CONSTS["MinGap"] + 1)]
    meta = []
    for d in range(1, 7):
        for n in (1, 3):
            _ob_packet_exact(cyc, [rng.randrange(256) for _ in range(n)], [0] * n, 0, d % 2, d + 2, [("fall", 0, "cx"[d % 2])])
            cyc[len(cyc) - 2]["rst"] = 1                         # d cycles after the first low cycle
            _ob_packet_exact(cyc, [rng.randrange(256) for _ in range(2)], [0, d % 2], 0, 0, OB_CONSTS["MinGap"] + 1,
                             [("fall", 0, "c")])
            _ob_packet_exact(cyc, [rng.randrange(256)], [0], 0, 0, OB_CONSTS["MinGap"] + 2, [])
            meta.append((n, "reset%+d" % d))
    cyc.extend({"iv": 0, "inx": 0, "ip": 0, "ic": 0, "ix": 0} for _ in range(10))
    return cyc, meta


def classify_ob(trace, matched, status, meta):
    _env_guard(status, meta)
    k = matched if status != "ok" else matched + 1
    pattern = "other"
    if 0 < k <= len(trace):
        j = k - 1
        while j >= 0 and not trace[j]["iv"]:
            j -= 1
        n = 0
        while j >= 0 and trace[j]["iv"]:
            n += 1 if trace[j]["inx"] else 0
            j -= 1
        pattern = "pktlen%d" % min(n, 9)
    return {"clause": status, "pattern": pattern}


def check_C28(rep):
    quick = rep.tier == "quick"
    rep.rule = ("raw receive packets with strobes driven through a real USBOutStreamBoundaryDetector and validated cycle by "
                "cycle against OutBoundary.tla; distinct by (packet length, strobe placement)")
    rep.assume("unprocessed_stream.next is only asserted while unprocessed_stream.valid; every packet has at least one byte")
    rep.assume("unprocessed_stream.valid stays low for at least 6 cycles between packets")
    rep.assume("a strobe seen after the first byte's cycle and up to the first cycle with valid low must be reported; strobes "
               "seen earlier in the packet or while the outputs are still being flushed may be (statement silent); "
               "strobes outside any packet must not be")
    rep.assume("the last byte may be output up to 3 cycles, the strobes up to 5 cycles after valid fell (latency free)")
    rep.assume("a reset of the detector's clock domain (only while the raw stream is quiet) drops whatever was still owed; "
               "afterwards the detector must behave like a fresh one")

    # 1. exhaustive exploration of the specification
    runs = [({"Data": TlaSet([0]), "MaxLen": 2, "MaxPkts": 1, "Strobes": TlaSet(["c", "x"]), "MaxResets": 1, "OutWin": 2,
              "StrobeWin": 3, "MinGap": 4}, ()),
            ({"Data": TlaSet([0, 1]), "MaxLen": 2, "MaxPkts": 2, "Strobes": TlaSet(["c"]), "MaxResets": 0, "OutWin": 2, "StrobeWin": 3,
              "MinGap": 4}, ("InvalidOut", "DomainReset"))]
    if not quick:
        runs = [({"Data": TlaSet([0, 1]), "MaxLen": 3, "MaxPkts": 2, "Strobes": TlaSet(["c", "x"]), "MaxResets": 1, "OutWin": 2,
                  "StrobeWin": 3, "MinGap": 4}, ()),
                ({"Data": TlaSet([0, 1, 2]), "MaxLen": 4, "MaxPkts": 1, "Strobes": TlaSet(["c"]), "MaxResets": 0, "OutWin": 3, "StrobeWin": 4,
                  "MinGap": 5}, ("InvalidOut", "DomainReset"))]
    for b, allow in runs:
        cfg = tlc.render_cfg(_cfg("MCOutBoundary.cfg.tmpl"), b)
        res = tlc.model_check(SPEC_DIR, "MCOutBoundary", cfg, workers=8, timeout=1500, allow_uncovered=allow)
        rep.add_mc("MCOutBoundary " + " ".join("%s=%s" % (k, sorted(v) if isinstance(v, TlaSet) else v) for k, v in b.items()),
                   res, {k: (sorted(v) if isinstance(v, TlaSet) else v) for k, v in b.items()})

    # 2. stimuli
    rng = rep.rng
    jobs = []
    sim_cfg = tlc.render_cfg(_cfg("MCOutBoundary_sim.cfg.tmpl"),
                             {"Data": TlaSet([0, 1, 0x80, 0xFF]), "MaxLen": 6, "MaxPkts": 5, "Strobes": TlaSet(["c", "x"]),
                              "MaxResets": 0, "OutWin": OB_CONSTS["OutWin"], "StrobeWin": OB_CONSTS["StrobeWin"], "MinGap": OB_CONSTS["MinGap"]})
    behs = tlc.simulate(SPEC_DIR, "MCOutBoundary", sim_cfg, num=15 if quick else 400, depth=80 if quick else 120, seed=rep.seed,
                        timeout=1200)
    for b in behs:
        cyc = [{"iv": st["in"]["v"], "inx": st["in"]["n"], "ip": st["in"]["p"], "ic": st["in"]["c"], "ix": st["in"]["x"]}
               for _, st in b[1:]]
        # a behaviour may stop mid-packet: close it legally (one more byte if none yet, then valid low)
        if cyc and cyc[-1]["iv"]:
            cyc.append({"iv": 1, "inx": 1, "ip": 0x77, "ic": 0, "ix": 0})
        cyc += [{"iv": 0, "inx": 0, "ip": 0, "ic": 0, "ix": 0}] * 8
        jobs.append((cyc, "tlc-simulate", None))
    for t in range(8 if quick else 150):
        cyc, meta = _ob_random_trace(rng, 25)
        jobs.append((cyc, "random", meta))
    # every strobe placement x every short length, no gaps / gaps
    for n in ([1, 2, 3] if quick else [1, 2, 3, 4, 5]):
        for where in ["fall", "fall+1", "first", "before_first", "mid", "tail"]:
            for which in ["c", "x", "cx"]:
                cyc = [{"iv": 0, "inx": 0, "ip": 0, "ic": 0, "ix": 0} for _ in range(OB_CONSTS["MinGap"] + 1)]
                meta = []
                for gp in (0, 0.5):
                    _ob_packet(rng, cyc, [rng.randrange(256) for _ in range(n)], gp, rng.choice([0, 1]), [(where, which)])
                    _ob_packet(rng, cyc, [rng.randrange(256) for _ in range(rng.randint(1, 3))], gp, 0, [])
                    meta += [(n, ((where, which),)), (0, ())]
                jobs.append((cyc, "strobe-placement", meta))

    for cyc, meta in _ob_sweep_traces(rng, quick):
        jobs.append((cyc, "alignment-sweeps", meta))
    cyc, meta = _ob_reset_traces(rng)
    jobs.append((cyc, "domain-reset", meta))

    # 3. run on the real module.  Constructor parameter: domain (default "usb"; any other name goes through a
    #    DomainRenamer).  Quick: the default plus one other name (rotated by the seed) share the stimuli; thorough: every
    #    stimulus on the default and on two other names.
    others = ["sync", "fast", "usb_io"]
    domains = [None, others[rep.seed % 3]] if quick else [None, "sync", "fast"]
    drvs = {d: make_ob_driver(d) for d in domains}
    items = []
    for n_job, (cyc, origin, meta) in enumerate(jobs):
        cyc = [dict({"rst": 0}, **c) for c in cyc]
        for dom in domains:
            if quick and dom is not None and not (n_job % 3 == 0 or origin == "domain-reset"):
                continue
            trace = drvs[dom].run(cyc)
            rep.add_eval(len(trace))
            items.append((trace, {"origin": origin, "domain": dom or "default(usb)"}))
            rep.nontriv(("ob", "domain", dom or "usb", origin))
            if not meta:
                rep.nontriv(("ob", "tlc", sum(1 for r in trace if r["ol"] and r["onx"]),
                             sum(1 for r in trace if r["oc"] or r["ox"])))
        for m in (meta or []):
            rep.nontriv(("ob",) + tuple(m))

    # 4. validate with TLC
    cfg = tlc.render_cfg(_cfg("OutBoundaryTrace.cfg.tmpl"), OB_CONSTS)
    validate_group(rep, SPEC_DIR, "OutBoundaryTrace", cfg, items, classify=classify_ob,
                   what_prefix="USBOutStreamBoundaryDetector ", chunk=1000)
    tr = next(t for t, m in items if m["origin"] == "random")
    k = next((j for j, r in enumerate(tr) if r["iv"]), 0)
    rep.sample({"origin": "random", "cycles_from_first_packet": tr[k:k + 14]})


# =============================================================================================
# C21 — frame / microframe numbers
# =============================================================================================

class SofBench:
    """A real USBDevice (UTMI bus, stub endpoint) fed packet by packet by the UTMI host model; per packet the
    number of cycles new_frame / sof_detected were high and the frame / microframe numbers afterwards are recorded."""

    def __init__(self):
        use_repo()
        from amaranth.sim import Simulator
        self.dev, self.u, self.stub = make_device()
        self.sim = Simulator(self.dev)
        self.sim.add_clock(1 / 12e6, domain="usb")
        self._first = True
        self._job = None
        self._out = None
        self.cycles = 0
        self.sim.add_testbench(self._bench)

    async def _bench(self, ctx):
        H = _host()
        events, rng = self._job
        dev = self.dev
        H.prime_device(ctx, dev)
        host = H.UTMIHost(self.u, rng)
        cnt = {"nf": 0, "sd": 0}

        def probe(c, h):
            cnt["nf"] += c.get(dev.new_frame)
            cnt["sd"] += c.get(dev.sof_detected)
        host.extra_probe = probe
        await host.idle(ctx, 4)
        init = {"frame": ctx.get(dev.frame_number), "micro": ctx.get(dev.microframe_number)}
        steps = []
        for ev in events:
            cnt["nf"] = cnt["sd"] = 0
            octets = list(ev["bytes"])
            gaps = ev.get("gaps") or [0 if rng.random() >= ev.get("gap_prob", 0) else rng.randint(1, 8) for _ in octets]
            for _ in range(ev.get("lead", 1)):                     # rx_active rises before the first byte
                await host.cycle(ctx, active=1, valid=0, data=0)
            for g, b in zip(gaps, octets):
                for _ in range(g):
                    await host.cycle(ctx, active=1, valid=0, data=rng.randrange(256))
                await host.cycle(ctx, active=1, valid=1, data=b)
            for _ in range(ev.get("tail", 0)):                     # ... and may fall some cycles after the last one
                await host.cycle(ctx, active=1, valid=0, data=rng.randrange(256))
            await host.idle(ctx, ev.get("idle", 6))
            steps.append({"bytes": octets, "nf": cnt["nf"], "sd": cnt["sd"],
                          "frame": ctx.get(dev.frame_number), "micro": ctx.get(dev.microframe_number)})
        self.cycles += host.cycle_no
        self._out = {"init": init, "steps": steps}

    def run(self, events, rng):
        self._job = (events, rng)
        self._out = None
        if not self._first:
            self.sim.reset()
        self._first = False
        self.sim.run()
        return self._out


class UlpiSofBench:
    """The same per-packet recording for a USBDevice attached through a ULPI PHY (UTMITranslator, 60 MHz `usb` clock,
    the non-fs_only token detector / timer tables), fed by hosts/ulpi_host.py.  `speed_cfg` selects the device's speed
    inputs: "fs_only" (full_speed_only = 1), "auto" (neither: high-speed capable, stays at full speed without a bus
    reset), "ls" (low_speed_only = 1)."""

    def __init__(self):
        use_repo()
        from amaranth.sim import Simulator
        from luna.gateware.usb.usb2.device import USBDevice
        from ..hosts import ulpi_host
        self.bus = ulpi_host.make_ulpi_record()
        self.dev = USBDevice(bus=self.bus)
        self.stub = _StubEndpoint()
        self.dev.add_endpoint(self.stub)
        self.sim = Simulator(self.dev)
        self.sim.add_clock(1 / 60e6, domain="usb")
        self._first = True
        self._job = None
        self._out = None
        self.cycles = 0
        self.sim.add_testbench(self._bench)

    async def _bench(self, ctx):
        from ..hosts import ulpi_host
        events, rng, speed_cfg = self._job
        dev = self.dev
        ctx.set(dev.full_speed_only, int(speed_cfg == "fs_only"))
        ctx.set(dev.low_speed_only, int(speed_cfg == "ls"))
        host = ulpi_host.ULPIHost(self.bus, rng, gap_prob=0.3)
        cnt = {"nf": 0, "sd": 0}

        def probe(c, h):
            cnt["nf"] += c.get(dev.new_frame)
            cnt["sd"] += c.get(dev.sof_detected)
        host.extra_probe = probe
        await host.power_on(ctx, dev.connect)
        init = {"frame": ctx.get(dev.frame_number), "micro": ctx.get(dev.microframe_number)}
        steps = []
        for ev in events:
            cnt["nf"] = cnt["sd"] = 0
            octets = list(ev["bytes"])
            gaps = ev.get("gaps") or [0 if rng.random() >= ev.get("gap_prob", 0) else rng.randint(1, 4) for _ in octets]
            await host.send_raw(ctx, octets, gaps=gaps)
            await host.idle(ctx, max(ev.get("idle", 8), 8))
            steps.append({"bytes": octets, "nf": cnt["nf"], "sd": cnt["sd"],
                          "frame": ctx.get(dev.frame_number), "micro": ctx.get(dev.microframe_number)})
        self.cycles += host.cycle_no
        self._out = {"init": init, "steps": steps}

    def run(self, events, rng, speed_cfg):
        self._job = (events, rng, speed_cfg)
        self._out = None
        if not self._first:
            self.sim.reset()
        self._first = False
        self.sim.run()
        return self._out


class UlpiRxBench(UlpiSofBench):
    """Cycle-grain recording of the receive path of a ULPI-attached USBDevice: the UTMI receive signals the
    UTMITranslator produces (observed, they are the `inputs` of DataRx.tla) and the receiver's outputs at the stub
    endpoint.  Packets are sent by hosts/ulpi_host.py with its random ULPI receive patterns."""

    async def _bench(self, ctx):
        from ..hosts import ulpi_host
        packets, rng, speed_cfg = self._job
        dev, itf, u = self.dev, self.stub.interface, self.dev.utmi
        ctx.set(dev.full_speed_only, int(speed_cfg == "fs_only"))
        host = ulpi_host.ULPIHost(self.bus, rng, gap_prob=0.3)
        rec = []
        on = [False]

        def probe(c, h):
            if on[0]:
                rec.append({"rst": False, "active": bool(c.get(u.rx_active)), "valid": bool(c.get(u.rx_valid)),
                            "data": c.get(u.rx_data), "sv": bool(c.get(itf.rx.valid)), "nx": bool(c.get(itf.rx.next)),
                            "pl": c.get(itf.rx.payload), "cp": bool(c.get(itf.rx_complete)), "mm": bool(c.get(itf.rx_invalid)),
                            "rfr": bool(c.get(itf.rx_ready_for_response)), "pid": 99})
        host.extra_probe = probe
        await host.power_on(ctx, dev.connect)
        on[0] = True
        await host.idle(ctx, 16)
        for octets, gap_prob, idle in packets:
            gaps = [0 if rng.random() >= gap_prob else rng.randint(1, 4) for _ in octets]
            await host.send_raw(ctx, list(octets), gaps=gaps)
            await host.idle(ctx, idle)
        await host.idle(ctx, 120)
        self.cycles += host.cycle_no
        self._out = rec


class UlpiTxBench(UlpiSofBench):
    """Closed-loop producer for the transmit path of a ULPI-attached USBDevice: the stub endpoint's stream is driven
    as in TxBench, the PHY side is the reactive ULPI PHY model (NXT throttling = tx_ready stalls, chosen by the host
    model's stall_prob or an explicit NXT plan); tx_valid / tx_data / tx_ready are observed on the UTMI side of the
    UTMITranslator, so `data_crc.tx_valid = output.valid & tx_ready` sees the translator's real tx_ready."""

    async def _bench(self, ctx):
        from ..hosts import ulpi_host
        script, rng, (speed_cfg, stall_prob, plans) = self._job
        dev, itf, u = self.dev, self.stub.interface, self.dev.utmi
        ctx.set(dev.full_speed_only, int(speed_cfg == "fs_only"))
        host = ulpi_host.ULPIHost(self.bus, rng, stall_prob=stall_prob, max_stall=3)
        rec = []
        cur = {"sv": 0, "sf": 0, "sl": 0, "sp": 0, "pid": 0}
        last = {}
        on = [False]

        def probe(c, h):
            last.update(sr=bool(c.get(itf.tx.ready)), tv=bool(c.get(u.tx_valid)), td=c.get(u.tx_data),
                        rdy=bool(c.get(u.tx_ready)))
            if on[0]:
                rec.append({"rst": False, "sv": bool(cur["sv"]), "sf": bool(cur["sf"]), "sl": bool(cur["sl"]), "sp": cur["sp"],
                            "pid": cur["pid"], "rdy": last["rdy"], "sr": last["sr"], "tv": last["tv"], "td": last["td"]})
        host.extra_probe = probe

        async def cycle(sv, sf, sl, sp, pid):
            cur.update(sv=sv, sf=sf, sl=sl, sp=sp, pid=pid)
            ctx.set(itf.tx.valid, sv)
            ctx.set(itf.tx.first, sf)
            ctx.set(itf.tx.last, sl)
            ctx.set(itf.tx.payload, sp)
            ctx.set(itf.tx_pid_toggle, pid)
            await host.cycle(ctx)
            return last["sr"], last["tv"]

        await host.power_on(ctx, dev.connect)
        on[0] = True
        for n_rq, rq in enumerate(script):
            for _ in range(max(rq.get("idle", 1), 1)):
                await cycle(0, 0, 0, 0, 0)
            if plans and n_rq < len(plans) and plans[n_rq]:
                host.nxt_plan = list(plans[n_rq])
            pid, payload = rq["pid"], rq["payload"]
            seen_tv = False
            if not payload:
                await cycle(1, 0, 1, 0, pid)
            else:
                k = guard = 0
                while k < len(payload) and guard <= 200:
                    sr, tv = await cycle(1, int(k == 0), int(k == len(payload) - 1), payload[k], pid)
                    seen_tv = seen_tv or tv
                    k, guard = (k + 1, 0) if sr else (k, guard + 1)
            for _ in range(400):
                sr, tv = await cycle(0, 0, 0, 0, pid)
                if tv:
                    seen_tv = True
                elif seen_tv:
                    break
            host.nxt_plan = []
            # let the PHY finish the packet on the ULPI side (STP, turn-around) before the next request
            for _ in range(6):
                await cycle(0, 0, 0, 0, 0)
        for _ in range(8):
            await cycle(0, 0, 0, 0, 0)
        self.cycles += host.cycle_no
        self._out = rec


def _sof_events(rng, n):
    """A random packet sequence around SOFs; returns (events, tags).  The generator tracks the frame / microframe
    numbers a correct device would report only to tag what was exercised; it decides nothing."""
    H = _host()
    events, tags = [], []
    frame, micro = 0, 0
    mode = "fs"
    left = 0
    for _ in range(n):
        if left == 0:
            mode = rng.choice(["fs", "hs", "hs", "random", "bitdiff", "wrap", "longrun"])
            left = rng.randint(3, 20)
            if mode == "wrap":
                # jump close to the wrap-around (a change like any other)
                pass
        left -= 1
        r = rng.random()
        gp = rng.choice([0, 0, 0.3, 0.9])
        if r < 0.62:
            # a well-formed SOF
            if mode == "fs":
                f = (frame + 1) % 2048
            elif mode == "hs":
                f = frame if (micro < 7 and rng.random() < 0.93) else (frame + 1) % 2048
            elif mode == "longrun":                      # the same number far more than 8 times (counter wraps)
                f = frame
            elif mode == "random":
                f = rng.choice([frame, rng.randrange(2048), (frame + rng.randint(2, 9)) % 2048, 0, 0x7FF])
            elif mode == "bitdiff":
                f = frame ^ (1 << rng.randrange(11)) if rng.random() < 0.7 else frame
            else:
                f = rng.choice([0x7FE, 0x7FF, 0, 1, frame, (frame + 1) % 2048])
            tag = ("sof", "repeat", micro) if f == frame else \
                  ("sof", "new", "wrap" if f < frame else "bit" if bin(f ^ frame).count("1") == 1 else "inc", micro)
            if f == frame:
                micro = (micro + 1) % 8
            else:
                frame, micro = f, 0
            events.append({"bytes": H.sof_bytes(f), "gap_prob": gp, "idle": rng.choice([4, 6, 6, 8, 20]),
                           "tail": rng.choice([0, 0, 1, 2])})
            tags.append(tag)
        elif r < 0.80:
            # a SOF that is not well-formed: must be ignored
            f = rng.choice([frame, (frame + 1) % 2048, rng.randrange(2048)])
            good = H.sof_bytes(f)
            c = rng.random()
            if c < 0.45:
                bad = list(good)
                k = rng.randrange(16)
                bad[1 + k // 8] ^= 1 << (k % 8)
                why = "bitflip"
            elif c < 0.6:
                bad, why = good[:rng.choice([1, 2])], "short"
            elif c < 0.75:
                bad, why = good + [rng.randrange(256)], "long"
            elif c < 0.9:
                bad = list(good)
                bad[0] ^= 1 << rng.randrange(4, 8)
                why = "pid_check"
            else:
                bad, why = [], "empty"
            events.append({"bytes": bad, "gap_prob": gp, "idle": 6})
            tags.append(("bad_sof", why))
        else:
            c = rng.random()
            if c < 0.4:
                octets = H.token_bytes(rng.choice(["OUT", "IN", "SETUP", "PING"]), rng.choice([0, 0, rng.randrange(128)]),
                                       rng.randrange(16))
                what = "token"
            elif c < 0.7:
                octets = H.data_bytes(rng.choice(["DATA0", "DATA1"]), [rng.randrange(256) for _ in range(rng.randrange(5))])
                what = "data"
            elif c < 0.85:
                octets, what = [H.pid_byte(rng.choice(["ACK", "NAK"]))], "handshake"
            else:
                # a data packet whose payload looks like a SOF
                octets, what = H.data_bytes("DATA0", H.sof_bytes(rng.randrange(2048))), "data_sof_lookalike"
            events.append({"bytes": octets, "gap_prob": gp, "idle": rng.choice([6, 12])})
            tags.append(("other", what))
    return events, tags


def classify_sof(trace, matched, status, meta):
    _env_guard(status, meta)
    k = matched if status != "ok" else matched + 1
    pattern = "other"
    steps = trace["steps"]
    if 0 < k <= len(steps):
        b = steps[k - 1]["bytes"]
        prev = steps[k - 2] if k >= 2 else trace["init"]
        if len(b) == 3 and b[0] == 0xA5:
            f = (b[1] | (b[2] << 8)) & 0x7FF
            pattern = "sof_same_frame" if f == prev["frame"] else "sof_other_frame"
        elif b and (b[0] & 0xF) == 0x5:
            pattern = "sof_pid_len%d" % len(b)
        else:
            pattern = "non_sof"
    return {"clause": status, "pattern": pattern}


def check_C21(rep):
    quick = rep.tier == "quick"
    rep.rule = ("packets put on the UTMI bus of a real USBDevice, one event per packet, validated against FrameNum.tla; "
                "distinct by (event kind, transition class, microframe number before)")
    rep.assume("microframe_number is the 3-bit output: `incremented` is read modulo 8 (a frame number may repeat any number "
               "of times; runs of up to %d are driven)" % (12 if quick else 20))
    rep.assume("packets other than well-formed SOFs (bad CRC5, wrong length, wrong PID check, other PIDs) must leave frame / "
               "microframe numbers unchanged and raise no strobe")
    rep.assume("new_frame / sof_detected are counted over the packet and the idle time (>= 4 cycles) after it; "
               "frame_number / microframe_number are sampled at the end of that window (strobe latency free)")

    # 1. exhaustive exploration of the specification
    runs = [{"Frames": TlaSet([0, 2047]), "CrcFlips": TlaSet([1, 5]), "InitMicros": TlaSet([0, 5]), "MaxSofs": 4}]
    if not quick:
        runs = [{"Frames": TlaSet([0, 1, 2047]), "CrcFlips": TlaSet([1, 2, 3, 4, 5]), "InitMicros": TlaSet([0]), "MaxSofs": 5},
                {"Frames": TlaSet([0, 2047]), "CrcFlips": TlaSet([1]), "InitMicros": TlaSet([0, 5]), "MaxSofs": 8}]
    for b in runs:
        cfg = tlc.render_cfg(_cfg("MCFrameNum.cfg.tmpl"), b)
        res = tlc.model_check(SPEC_DIR, "MCFrameNum", cfg, workers=8, timeout=1500)
        rep.add_mc("MCFrameNum " + " ".join("%s=%s" % (k, sorted(v) if isinstance(v, TlaSet) else v) for k, v in b.items()),
                   res, {k: (sorted(v) if isinstance(v, TlaSet) else v) for k, v in b.items()})

    # 2. event sequences
    rng = rep.rng
    jobs = []
    sim_cfg = tlc.render_cfg(_cfg("MCFrameNum.cfg.tmpl"),
                             {"Frames": TlaSet([0, 1, 0x3FF, 0x7FF]) if quick else TlaSet([0, 1, 2, 0x3FF, 0x400, 0x7FE, 0x7FF]),
                              "CrcFlips": TlaSet([1, 3, 5]) if quick else TlaSet([1, 2, 3, 4, 5]),
                              "InitMicros": TlaSet([0]), "MaxSofs": 1000})
    # (every simulation step enumerates all ~35..70 successor packets, each with several bit-serial CRC5s)
    behs = tlc.simulate(SPEC_DIR, "MCFrameNum", sim_cfg, num=10 if quick else 200, depth=50 if quick else 70,
                        seed=rep.seed, timeout=1200)
    for b in behs:
        events = [{"bytes": list(st["ev"]["bytes"]), "gap_prob": 0.2, "idle": 6} for _, st in b[1:]]
        jobs.append((events, "tlc-simulate", None))
    for t in range(10 if quick else 120):
        events, tags = _sof_events(rng, 120)
        jobs.append((events, "random", tags))
    # structured: every frame number once in thorough (all 2048 SOF encodings through the real CRC5 check), a
    # slice in quick; 8 microframes per frame; every single-bit neighbour of a few frame numbers
    H = _host()
    fr = list(range(0, 2048, 1 if not quick else 37)) + [2047, 0]
    jobs.append(([{"bytes": H.sof_bytes(f), "idle": 6} for f in fr], "all-frame-numbers", [("sof", "sweep")]))
    ev8 = []
    for f in [0x001, 0x000, 0x7FF, 0x000, 0x2AA, 0x555]:
        ev8 += [{"bytes": H.sof_bytes(f), "idle": 6, "gap_prob": 0.3} for _ in range(8)]
    jobs.append((ev8, "eight-microframes", [("sof", "hs8")]))
    # one frame number repeated far beyond 8 times: the microframe number keeps counting (modulo 8)
    nrep = 12 if quick else 20
    evl = []
    for f in [0x123, 0x000, 0x7FF]:
        evl += [{"bytes": H.sof_bytes(f), "idle": 5, "gap_prob": 0.2} for _ in range(nrep + 1)]
        evl.append({"bytes": H.token_bytes("IN", 0, 1), "idle": 5})
        evl += [{"bytes": H.sof_bytes(f), "idle": 5} for _ in range(3)]
    jobs.append((evl, "long-runs", [("sof", "longrun", nrep)]))
    evb = []
    for base in ([0x000, 0x7FF, 0x2AA] if quick else [0x000, 0x7FF, 0x2AA, 0x555, 0x400, 0x0FF]):
        for k in range(11):
            evb += [{"bytes": H.sof_bytes(base), "idle": 6}, {"bytes": H.sof_bytes(base), "idle": 6},
                    {"bytes": H.sof_bytes(base ^ (1 << k)), "idle": 6}, {"bytes": H.sof_bytes(base ^ (1 << k)), "idle": 6}]
    jobs.append((evb, "single-bit-neighbours", [("sof", "bitsweep")]))
    # systematic alignments: every distance between packets from 4 cycles up (SOF after SOF / token / data), every
    # rx_valid gap pattern inside the SOF, every lead / tail length
    evs, f = [], 0x100
    for d in range(4, 17):
        for before in (H.token_bytes("OUT", 0, 1), H.data_bytes("DATA0", [d, d]), None):
            if before is not None:
                evs.append({"bytes": before, "idle": d})
            f = (f + 1) % 2048
            evs += [{"bytes": H.sof_bytes(f), "idle": d}, {"bytes": H.sof_bytes(f), "idle": d},
                    {"bytes": H.sof_bytes(f, corrupt_crc=True), "idle": d}]
    jobs.append((evs, "distance-sweep", [("sof", "distance")]))
    evs = []
    for g in (1, 3):
        for mask in range(8):
            for lead, tail in ((1, 0), (2, 1), (1, 3)):
                f = (f + (mask % 2)) % 2048            # alternately a new number and a repeat
                if evs and f == 0:
                    f = 1
                evs.append({"bytes": H.sof_bytes(f), "gaps": [g if (mask >> k) & 1 else 0 for k in range(3)],
                            "lead": lead, "tail": tail, "idle": 5})
                if len(evs) % 7 == 0:                  # keep runs of one number short
                    f = (f + 1) % 2048
    jobs.append((evs, "gap-pattern-sweep", [("sof", "gaps")]))

    # 3. run on the real device.  USBDevice's constructor parameter is the bus: a UTMI bus (always full speed, 12 MHz
    #    tables; every stimulus), a ULPI bus (UTMITranslator, 60 MHz, non-fs_only token detector / timer; speed inputs
    #    full_speed_only / low_speed_only) -- quick: one speed setting rotated by the seed on a subset of the stimuli;
    #    thorough: all three on all stimuli.  (The raw-I/O bus -> GatewarePHY is the fsphy engine's DUT, not elaborated here.)
    bench = SofBench()
    items = []
    for events, origin, tags in jobs:
        tr = bench.run(events, rng)
        for t in (tags or []):
            rep.nontriv(("sof",) + tuple(t))
        if not tags:
            rep.nontriv(("sof", "tlc", sum(s["nf"] for s in tr["steps"]), sum(s["sd"] for s in tr["steps"])))
        items.append((tr, {"origin": origin, "bus": "utmi", "events": len(events)}))
    rep.add_eval(bench.cycles)
    ubench = UlpiSofBench()
    cfgs = ["fs_only", "auto", "ls"]
    for n_job, (events, origin, tags) in enumerate(jobs):
        if quick and origin not in ("long-runs", "distance-sweep", "eight-microframes") and not (origin == "random" and n_job % 5 == 0):
            continue
        for sc in ([cfgs[rep.seed % 3]] if quick else cfgs):
            tr = ubench.run(events[:80] if quick else events, rng, sc)
            rep.nontriv(("sof", "ulpi", sc, origin))
            items.append((tr, {"origin": origin, "bus": "ulpi", "speed_inputs": sc, "events": len(tr["steps"])}))
    rep.add_eval(ubench.cycles)

    # 4. validate with TLC
    cfg = _cfg("FrameNumTrace.cfg.tmpl")
    validate_group(rep, SPEC_DIR, "FrameNumTrace", cfg, items, classify=classify_sof,
                   steps_of=lambda t: len(t["steps"]), what_prefix="USBDevice frame numbers ", chunk=1000)
    tr = next(t for t, m in items if m["origin"] == "random")
    rep.sample({"origin": "random", "init": tr["init"], "first_events": tr["steps"][:8]})


CHECKS = {"C02": check_C02, "C03": check_C03, "C28": check_C28, "C21": check_C21}
