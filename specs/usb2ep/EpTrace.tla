------------------------------- MODULE EpTrace -------------------------------
(***************************************************************************)
(* Trace validation for the usb2ep engine (C11, C12, C13, C14).            *)
(*                                                                         *)
(* Every trace recorded from the real gateware (a real USBDevice with real *)
(* endpoints, driven over UTMI by the host model, or a bare                *)
(* USBInTransferManager) is a record                                       *)
(*   [cfg   |-> endpoint configuration (see EpDev),                        *)
(*    steps |-> << event, ... >>,                                          *)
(*    focus |-> owner tag of the endpoint under test ("" = none),          *)
(*    base  |-> focus-owned events of the companion run in which all       *)
(*              foreign traffic was replaced by bus idle (C12 only),       *)
(*              [bus |-> bus events, str |-> stream-side events] ]         *)
(* Events (field `e`), every one tagged with its owner `o` by the recorder:*)
(*   tok   pid, ep            token sent by the host                       *)
(*   data  pid, payload, ok   host data packet (pid 0/1; ok = CRC intact)  *)
(*   resp  k, pid, payload, ok  packet sent by the device                  *)
(*   none                     the host saw no answer before its time-out   *)
(*   hs / nohs(hostrx)        host ACK sent / not sent after IN data       *)
(*   beat  ep, b, last        IN endpoint's stream accepted a byte         *)
(*   flush ep                 `flush` seen asserted at this stream position*)
(*   pop   ep, b, first, last OUT endpoint's consumer took a byte          *)
(*   sof, io, note            no effect on the reference                   *)
(*   end                      end of observation (consumers were drained)  *)
(* Batch recipe as in FifoTrace.                                           *)
(***************************************************************************)
EXTENDS EpDev, TLC, TLCExt, Json, IOUtils

Logs == JsonDeserialize(IOEnv.TRACE_FILE)

VARIABLES d, tid, l, kb, ks, status
tvars == <<d, tid, l, kb, ks, status>>

ASSUME \A i \in 1..Len(Logs) : TLCSet(i, <<0, "ok">>)

Cfg   == Logs[tid].cfg
Steps == Logs[tid].steps
Rec   == Steps[l]

NoResp == [k |-> "none", pid |-> 0, payload |-> <<>>, ok |-> TRUE]

StepOf(r) ==
    IF r.e = "tok" THEN DevTok(d, Cfg, r.pid, r.ep)
    ELSE IF r.e = "data" THEN DevData(d, Cfg, r.pid, r.payload, r.ok)
    ELSE IF r.e = "resp" THEN DevResp(d, Cfg, r)
    ELSE IF r.e = "none" THEN DevResp(d, Cfg, NoResp)
    ELSE IF r.e = "hs" THEN DevHs(d, Cfg, TRUE, TRUE)
    ELSE IF r.e = "nohs" THEN DevHs(d, Cfg, FALSE, r.hostrx)
    ELSE IF r.e = "beat" THEN
        (IF r.ep \in DOMAIN d.ins THEN DevBeat(d, r.ep, r.b, r.last) ELSE [st |-> "env_bad_event", d |-> d])
    ELSE IF r.e = "flush" THEN
        (IF r.ep \in DOMAIN d.ins THEN DevFlush(d, r.ep) ELSE [st |-> "env_bad_event", d |-> d])
    ELSE IF r.e = "pop" THEN
        (IF r.ep \in DOMAIN d.outs THEN DevPop(d, r.ep, [b |-> r.b, f |-> r.first, l |-> r.last])
         ELSE [st |-> "env_bad_event", d |-> d])
    ELSE IF r.e = "end" THEN DevEnd(d, Cfg)
    ELSE IF r.e \in {"sof", "io", "note"} THEN Ok(d)
    ELSE [st |-> "env_bad_event", d |-> d]

\* C12: the focus endpoint's own events must be those of the companion run, one by one -- separately for what it
\* exchanges on the bus and for its stream side (a one-cycle shift of a handshake against a stream beat, as caused by
\* the shared inter-packet timer, is not "what it sends / delivers")
Focus == Logs[tid].focus
Base  == Logs[tid].base              \* [bus |-> << ... >>, str |-> << ... >>]
IsBusEv(r) == r.e \in {"tok", "data", "resp", "none", "hs", "nohs"}
PairStatus(r) ==
    IF Focus = "" THEN "ok"
    ELSE IF r.e = "end" THEN (IF kb = Len(Base.bus) /\ ks = Len(Base.str) THEN "ok" ELSE "isolation_events_missing")
    ELSE IF r.o # Focus THEN "ok"
    ELSE LET sq == IF IsBusEv(r) THEN Base.bus ELSE Base.str
             i  == IF IsBusEv(r) THEN kb + 1 ELSE ks + 1 IN
         IF i > Len(sq) THEN "isolation_extra_event"
         ELSE IF sq[i].e # r.e THEN "isolation_differs"
         ELSE IF sq[i] # r THEN "isolation_differs"
         ELSE "ok"

TInit == /\ tid \in 1..Len(Logs)
         /\ d = DevInit(Logs[tid].cfg)
         /\ l = 1 /\ kb = 0 /\ ks = 0
         /\ status = "ok"

TNext == /\ status = "ok"
         /\ l <= Len(Steps)
         /\ LET r == Rec
                res == StepOf(r)
                ps == PairStatus(r)
                mine == Focus # "" /\ r.e # "end" /\ r.o = Focus IN
              /\ status' = IF res.st # "ok" THEN res.st ELSE ps
              /\ d' = IF res.st = "ok" THEN res.d ELSE d
              /\ kb' = IF mine /\ IsBusEv(r) THEN kb + 1 ELSE kb
              /\ ks' = IF mine /\ ~IsBusEv(r) THEN ks + 1 ELSE ks
         /\ l' = l + 1
         /\ UNCHANGED tid

TSpec == TInit /\ [][TNext]_tvars

\* Prop invariants are evaluated on every state of every observed execution.
TraceProp == DevInv(d, Cfg)

Verdict == IF status # "ok" THEN status ELSE IF TraceProp THEN "ok" ELSE "prop_invariant"
\* FALSE after a failure: the trace is not followed further, so a later step cannot overwrite the verdict
Progress == TLCSet(tid, <<l - 1, Verdict>>) /\ Verdict = "ok"

Verdicts == JsonSerialize(IOEnv.VERDICT_FILE, [i \in 1..Len(Logs) |-> TLCGet(i)])
=============================================================================
