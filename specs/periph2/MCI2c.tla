------------------------------- MODULE MCI2c -------------------------------
(* Bounded instance of I2c for exhaustive TLC exploration. *)
EXTENDS I2c, TLC

Bounded == Len(reqLog) + (IF op # "none" THEN 1 ELSE 0) <= MaxOps
=============================================================================
