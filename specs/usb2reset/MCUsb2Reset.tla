---------------------------- MODULE MCUsb2Reset ----------------------------
(***************************************************************************)
(* Bounded instances of Usb2Reset for exhaustive exploration.              *)
(*  FreeSpec -- in every cycle Env picks any input from Inputs (a single   *)
(*      action, Tick); invariants PropHolds, TypeOK and the equivalence of *)
(*      the explicit-time leaps with plain iteration.                      *)
(*  EdgeSpec -- the same Env driving the reference sequencer alone, with   *)
(*      one named action per edge of its FSM, so that TLC's action         *)
(*      coverage shows which edges (and with them which monitor            *)
(*      antecedents) the bounds reach.  Ref does not depend on the         *)
(*      monitors, so both specs visit the same Ref states (EdgeSpec does   *)
(*      not apply the bus_busy assumption and may only visit more).        *)
(*      (Coverage is collected on this small spec because TLC's cost model *)
(*      expands every LET of the monitors once per action.)                *)
(***************************************************************************)
EXTENDS Usb2Reset, TLC

CONSTANTS LsVals, VbusVals, DiscVals, FsoVals, LsoVals, BusyVals,   \* input alphabets of the exhaustive run
          RstVals,                                                   \* {FALSE} or {TRUE, FALSE}: domain reset
          NAdv                                                       \* leaps of 1..NAdv cycles are compared with iteration

Inputs == [ls : LsVals, vbus : VbusVals, disc : DiscVals, fso : FsoVals, lso : LsoVals, busy : BusyVals]

-----------------------------------------------------------------------------
Tick == \E i \in Inputs, r \in RstVals : CycleR(i, r)
FreeSpec == Init /\ [][Tick]_vars

Edge(from, to, br) ==
  /\ ref.fsm = from
  /\ \E i \in Inputs : /\ RefNext(ref, i).fsm = to
                       /\ RefOut(ref, i).br = br
                       /\ ref' = RefNext(ref, i)
  /\ UNCHANGED <<mon, bad, obs>>

Init_LsFs          == TRUE /\ Edge("INITIALIZE", "LS_FS_NON_RESET", FALSE)
LsFs_Stay          == TRUE /\ Edge("LS_FS_NON_RESET", "LS_FS_NON_RESET", FALSE)
LsFs_Stay_Reset    == TRUE /\ Edge("LS_FS_NON_RESET", "LS_FS_NON_RESET", TRUE)
LsFs_Suspend       == TRUE /\ Edge("LS_FS_NON_RESET", "SUSPENDED", FALSE)
LsFs_Suspend_Reset == TRUE /\ Edge("LS_FS_NON_RESET", "SUSPENDED", TRUE)
LsFs_Reset_Chirp   == TRUE /\ Edge("LS_FS_NON_RESET", "START_HS_DETECTION", TRUE)
LsFs_Disconnect    == TRUE /\ Edge("LS_FS_NON_RESET", "DISCONNECT", FALSE)
LsFs_Disconnect_Reset == TRUE /\ Edge("LS_FS_NON_RESET", "DISCONNECT", TRUE)
Hs_Stay            == TRUE /\ Edge("HS_NON_RESET", "HS_NON_RESET", FALSE)
Hs_Leave           == TRUE /\ Edge("HS_NON_RESET", "IS_LOW_OR_FULL_SPEED", FALSE)
Hs_Leave_NoVbus    == TRUE /\ Edge("HS_NON_RESET", "IS_LOW_OR_FULL_SPEED", TRUE)
Hs_Revert          == TRUE /\ Edge("HS_NON_RESET", "DETECT_HS_SUSPEND", FALSE)
Hs_Revert_NoVbus   == TRUE /\ Edge("HS_NON_RESET", "DETECT_HS_SUSPEND", TRUE)
Hs_Disconnect      == TRUE /\ Edge("HS_NON_RESET", "DISCONNECT", FALSE)
Start_Prep0        == TRUE /\ Edge("START_HS_DETECTION", "PREPARE_FOR_CHIRP_0", FALSE)
Prep0_Wait         == TRUE /\ Edge("PREPARE_FOR_CHIRP_0", "PREPARE_FOR_CHIRP_0", FALSE)
Prep0_Prep1        == TRUE /\ Edge("PREPARE_FOR_CHIRP_0", "PREPARE_FOR_CHIRP_1", FALSE)
Prep1_Wait         == TRUE /\ Edge("PREPARE_FOR_CHIRP_1", "PREPARE_FOR_CHIRP_1", FALSE)
Prep1_Chirp        == TRUE /\ Edge("PREPARE_FOR_CHIRP_1", "DEVICE_CHIRP", FALSE)
Chirp_Stay         == TRUE /\ Edge("DEVICE_CHIRP", "DEVICE_CHIRP", FALSE)
Chirp_Done         == TRUE /\ Edge("DEVICE_CHIRP", "AWAIT_HOST_K", FALSE)
AwaitK_Stay        == TRUE /\ Edge("AWAIT_HOST_K", "AWAIT_HOST_K", FALSE)
AwaitK_InK         == TRUE /\ Edge("AWAIT_HOST_K", "IN_HOST_K", FALSE)
AwaitK_Timeout     == TRUE /\ Edge("AWAIT_HOST_K", "IS_LOW_OR_FULL_SPEED", FALSE)
InK_Stay           == TRUE /\ Edge("IN_HOST_K", "IN_HOST_K", FALSE)
InK_Glitch         == TRUE /\ Edge("IN_HOST_K", "AWAIT_HOST_K", FALSE)
InK_Valid          == TRUE /\ Edge("IN_HOST_K", "AWAIT_HOST_J", FALSE)
InK_Timeout        == TRUE /\ Edge("IN_HOST_K", "IS_LOW_OR_FULL_SPEED", FALSE)
AwaitJ_Stay        == TRUE /\ Edge("AWAIT_HOST_J", "AWAIT_HOST_J", FALSE)
AwaitJ_InJ         == TRUE /\ Edge("AWAIT_HOST_J", "IN_HOST_J", FALSE)
AwaitJ_Timeout     == TRUE /\ Edge("AWAIT_HOST_J", "IS_LOW_OR_FULL_SPEED", FALSE)
InJ_Stay           == TRUE /\ Edge("IN_HOST_J", "IN_HOST_J", FALSE)
InJ_Glitch         == TRUE /\ Edge("IN_HOST_J", "AWAIT_HOST_J", FALSE)
InJ_Pair           == TRUE /\ Edge("IN_HOST_J", "AWAIT_HOST_K", FALSE)
InJ_ThirdPair      == TRUE /\ Edge("IN_HOST_J", "IS_HIGH_SPEED", FALSE)
InJ_Timeout        == TRUE /\ Edge("IN_HOST_J", "IS_LOW_OR_FULL_SPEED", FALSE)
IsHigh_Hs          == TRUE /\ Edge("IS_HIGH_SPEED", "HS_NON_RESET", FALSE)
IsLow_Wait         == TRUE /\ Edge("IS_LOW_OR_FULL_SPEED", "IS_LOW_OR_FULL_SPEED", FALSE)
IsLow_LsFs         == TRUE /\ Edge("IS_LOW_OR_FULL_SPEED", "LS_FS_NON_RESET", FALSE)
Detect_Wait        == TRUE /\ Edge("DETECT_HS_SUSPEND", "DETECT_HS_SUSPEND", FALSE)
Detect_Suspend     == TRUE /\ Edge("DETECT_HS_SUSPEND", "SUSPENDED", FALSE)
Detect_Reset_Chirp == TRUE /\ Edge("DETECT_HS_SUSPEND", "START_HS_DETECTION", TRUE)
Detect_Reset_Restricted == TRUE /\ Edge("DETECT_HS_SUSPEND", "IS_LOW_OR_FULL_SPEED", TRUE)
Susp_Stay          == TRUE /\ Edge("SUSPENDED", "SUSPENDED", FALSE)
Susp_Resume        == TRUE /\ Edge("SUSPENDED", "LS_FS_NON_RESET", FALSE)
Susp_ResumeHs      == TRUE /\ Edge("SUSPENDED", "IS_HIGH_SPEED", FALSE)
Susp_Reset_LsFs    == TRUE /\ Edge("SUSPENDED", "LS_FS_NON_RESET", TRUE)
Susp_Reset_Chirp   == TRUE /\ Edge("SUSPENDED", "START_HS_DETECTION", TRUE)
Disc_Stay          == TRUE /\ Edge("DISCONNECT", "DISCONNECT", FALSE)
Disc_Reconnect     == TRUE /\ Edge("DISCONNECT", "INITIALIZE", FALSE)

EdgeNext ==
  \/ Init_LsFs \/ LsFs_Stay \/ LsFs_Stay_Reset \/ LsFs_Suspend \/ LsFs_Suspend_Reset \/ LsFs_Reset_Chirp
  \/ LsFs_Disconnect \/ LsFs_Disconnect_Reset
  \/ Hs_Stay \/ Hs_Leave \/ Hs_Leave_NoVbus \/ Hs_Revert \/ Hs_Revert_NoVbus \/ Hs_Disconnect
  \/ Start_Prep0 \/ Prep0_Wait \/ Prep0_Prep1 \/ Prep1_Wait \/ Prep1_Chirp \/ Chirp_Stay \/ Chirp_Done
  \/ AwaitK_Stay \/ AwaitK_InK \/ AwaitK_Timeout \/ InK_Stay \/ InK_Glitch \/ InK_Valid \/ InK_Timeout
  \/ AwaitJ_Stay \/ AwaitJ_InJ \/ AwaitJ_Timeout \/ InJ_Stay \/ InJ_Glitch \/ InJ_Pair \/ InJ_ThirdPair
  \/ InJ_Timeout \/ IsHigh_Hs \/ IsLow_Wait \/ IsLow_LsFs
  \/ Detect_Wait \/ Detect_Suspend \/ Detect_Reset_Chirp \/ Detect_Reset_Restricted
  \/ Susp_Stay \/ Susp_Resume \/ Susp_ResumeHs \/ Susp_Reset_LsFs \/ Susp_Reset_Chirp
  \/ Disc_Stay \/ Disc_Reconnect

EdgeSpec == Init /\ [][EdgeNext]_vars

\* The exhaustive run identifies states that differ only in the last observation.
FreeView == <<ref, mon, bad>>

\* Explicit-time leaps agree with iteration: checked inductively on every reachable state, for the
\* observation just made held for 1..NAdv further cycles (leap of n = leap of n-1 followed by one cycle).
MonLeapOK == AdvDefined(obs) =>
  \A n \in 1..NAdv :
     LET before == IF n = 1 THEN mon ELSE MonAdv(mon, obs, n - 1)
         badBefore == IF n = 1 THEN "ok" ELSE AdvBad(mon, obs, n - 1)
         e == MonEval(before, obs)
     IN /\ AdvBad(mon, obs, n) = (IF badBefore # "ok" THEN badBefore ELSE e.bad)
        /\ MonAdv(mon, obs, n) = e.m
RefLeapOK ==
  LET i == InOf(obs)  outs == RefOut(ref, i) IN
  \A n \in 1..NAdv :
     LET before == IF n = 1 THEN [s |-> ref, ok |-> TRUE] ELSE RefRun(ref, i, n - 1, outs, "")
         rr == RefRun(ref, i, n, outs, "")
     IN IF before.ok /\ RefOut(before.s, i) = outs
        THEN rr.ok /\ rr.s = RefNext(before.s, i)
        ELSE ~rr.ok

=============================================================================
