"""A full-speed USB host at *line level* (D+/D- sampled at 48 MHz) for driving a real LUNA device through the real
GatewarePHY (`USBDevice(bus=<raw pins>)`), with the API of hosts/utmi.py:UTMIHost (token / data / handshake / sof / setup /
in_transaction / out_transaction / wait_response / idle / cycle).

One `cycle()` = one 12 MHz `usb` clock = four 48 MHz `usb_io` samples (the first `usb_io` edge of a cycle is the coinciding
`usb` edge).  Host packets are rendered as SYNC + NRZI + bit stuffing + EOP (SE0 SE0 J), four samples per bit, optionally
shifted by `phase` samples against the device's bit clock and stretched by `rate` (1/10000: +-25 = the +-0.25 % of USB 2.0).
What the device drives (oe = 1) is collected sample by sample and cut into bit times:

    {"e": "dev", "syms": ["K", "J", ..., "SE0", "SE0", "J"],      # one symbol per bit time ("X" = the four samples differ)
     "gap": samples from the end of the host packet's EOP SE0 to the first driven sample, "overlap_rx": driven while the host
     was driving, + the classification of hosts/utmi.py of the bytes (for the host's own flow control only)}

The encoder / decoder here are *stimulus side only* (the host has to produce packets and to know what it received in order
to continue the transaction); the verdict on the device's symbols is TLC's (LineCode.tla: Decode / Encode).
"""
import types

from . import utmi

J, K, SE0 = "J", "K", "SE0"
LEVEL = {J: (1, 0), K: (0, 1), SE0: (0, 0), "SE1": (1, 1)}


def make_io_record():
    from amaranth import Signal
    io = types.SimpleNamespace()
    for n in ("d_p", "d_n"):
        setattr(io, n, types.SimpleNamespace(i=Signal(name=n + "_i"), o=Signal(name=n + "_o"), oe=Signal(name=n + "_oe")))
    io.pullup = types.SimpleNamespace(o=Signal(name="pullup_o"))
    return io


def encode(octets):
    """USB 2.0 chapter 7 line code (stimulus side)."""
    bits = [0, 0, 0, 0, 0, 0, 0, 1]
    for b in octets:
        bits += [(b >> i) & 1 for i in range(8)]
    out, ones = [], 0
    for b in bits:
        out.append(b)
        ones = ones + 1 if b else 0
        if ones == 6:
            out.append(0)
            ones = 0
    syms, lvl = [], J
    for b in out:
        if b == 0:
            lvl = K if lvl == J else J
        syms.append(lvl)
    return syms + [SE0, SE0, J]


def decode(syms):
    """Bytes of a received packet, or None (host's own receiver; flow control only)."""
    n = 0
    while n < len(syms) and syms[n] in (J, K):
        n += 1
    if syms[n:] != [SE0, SE0, J]:
        return None
    bits, prev = [], J
    for s in syms[:n]:
        bits.append(1 if s == prev else 0)
        prev = s
    out, ones, i = [], 0, 0
    while i < len(bits):
        if ones == 6:
            if bits[i] == 1:
                return None
            ones = 0
            i += 1
            continue
        out.append(bits[i])
        ones = ones + 1 if bits[i] else 0
        i += 1
    if out[:8] != [0, 0, 0, 0, 0, 0, 0, 1] or (len(out) - 8) % 8:
        return None
    return [sum(out[8 + 8 * k + j] << j for j in range(8)) for k in range((len(out) - 8) // 8)]


class FSLineHost:
    T = 1

    def __init__(self, io, rng, domain="usb", phase=0, rate=0, gap_prob=0.0):
        self.io = io
        self.rng = rng
        self.phase = phase              # samples of extra idle before every host packet (0..3: all sampling phases)
        self.rate = rate                # bit-rate offset of the host in 1/10000
        self.vary_phase = bool(gap_prob)
        self.log = []
        self.cycle_no = 0
        self.sample_no = 0
        self.wave = []                  # pending host samples
        self.last_rx_end = None         # sample index at which the host's EOP SE0 ended
        self._eop_marks = []
        self.device_packets = []
        self.extra_probe = None
        self._dev = None                # samples of the device packet being collected
        self._lvl = None

    async def power_on(self, ctx, connect):
        ctx.set(connect, 1)
        await self.idle(ctx, 24)

    # ---- one 12 MHz cycle = four 48 MHz samples ---------------------------------------------------
    async def cycle(self, ctx):
        io = self.io
        if self.extra_probe is not None:
            self.extra_probe(ctx, self)
        for _ in range(4):
            oe = ctx.get(io.d_p.oe) | ctx.get(io.d_n.oe)
            if oe:
                p, n = ctx.get(io.d_p.o), ctx.get(io.d_n.o)
                code = J if (p, n) == (1, 0) else K if (p, n) == (0, 1) else SE0 if (p, n) == (0, 0) else "SE1"
                if self._dev is None:
                    self._dev = {"start": self.sample_no, "codes": [], "overlap": False,
                                 "gap": None if self.last_rx_end is None else self.sample_no - self.last_rx_end}
                self._dev["codes"].append(code)
                if self.wave:
                    self._dev["overlap"] = True
                lvl = (p, n)                         # the pins read back what is driven
            else:
                if self._dev is not None:
                    self._finish()
                lvl = LEVEL[self.wave[0]] if self.wave else LEVEL[J]
            if self.wave:
                self.wave.pop(0)
                if self._eop_marks and self._eop_marks[0] == self.sample_no:
                    self._eop_marks.pop(0)
                    self.last_rx_end = self.sample_no + 1
            if lvl != self._lvl:
                ctx.set(io.d_p.i, lvl[0])
                ctx.set(io.d_n.i, lvl[1])
                self._lvl = lvl
            await ctx.tick("usb_io")
            self.sample_no += 1
        self.cycle_no += 1

    def _finish(self):
        d = self._dev
        self._dev = None
        codes = d["codes"]
        syms = []
        for i in range(0, len(codes), 4):
            g = codes[i:i + 4]
            syms.append(g[0] if len(g) == 4 and all(x == g[0] for x in g) else "X")
        ev = {"e": "dev", "start": d["start"], "end": self.sample_no, "syms": syms, "gap": d["gap"],
              "since_rx_end": d["gap"], "overlap_rx": d["overlap"]}
        octets = decode(syms)
        ev.update(utmi.classify_device_packet(octets) if octets else {"kind": "bad", "why": "line_code"})
        self.last_rx_end = None
        self.device_packets.append(ev)
        self.log.append(ev)

    async def idle(self, ctx, n=1):
        for _ in range(n):
            await self.cycle(ctx)

    # ---- host packets ----------------------------------------------------------------------
    def render(self, syms, phase, rate):
        """Samples of the symbol stream: a bit lasts 4 * (1 + rate / 10000) samples."""
        out = []
        bit = 40000 + 4 * rate
        t = 0
        k = 0
        while True:
            k = (t * 10000) // bit
            if k >= len(syms):
                break
            out.append(syms[k])
            t += 1
        return [J] * phase + out

    async def send_raw(self, ctx, octets, gaps=None, abort_after=None):
        for _ in range(4000):                       # a device transmission in progress is left to finish first
            if self._dev is None:
                break
            await self.cycle(ctx)
        syms = encode(octets)
        phase = self.rng.randrange(4) if self.vary_phase else self.phase
        samples = self.render(syms, phase, self.rate)
        # the EOP's SE0 ends where the last J run begins
        k = len(samples) - 1
        while samples[k] == J:
            k -= 1
        self._eop_marks.append(self.sample_no + len(self.wave) + k)
        self.wave += samples
        self.last_syms = syms
        while self.wave:
            await self.cycle(ctx)

    async def token(self, ctx, pid, addr, ep, corrupt_crc=False):
        self.log.append({"e": "tok", "pid": pid, "addr": addr, "ep": ep, "crc_ok": not corrupt_crc})
        await self.send_raw(ctx, utmi.token_bytes(pid, addr, ep, corrupt_crc))

    async def sof(self, ctx, frame, corrupt_crc=False):
        self.log.append({"e": "sof", "frame": frame, "crc_ok": not corrupt_crc})
        await self.send_raw(ctx, utmi.sof_bytes(frame, corrupt_crc))

    async def data(self, ctx, pid, payload, corrupt_crc=False):
        self.log.append({"e": "data", "pid": pid, "payload": list(payload), "crc_ok": not corrupt_crc})
        await self.send_raw(ctx, utmi.data_bytes(pid, payload, corrupt_crc))

    async def handshake(self, ctx, pid):
        self.log.append({"e": "hs", "pid": pid})
        await self.send_raw(ctx, [utmi.pid_byte(pid)])

    async def garbage(self, ctx, octets):
        self.log.append({"e": "raw", "bytes": list(octets)})
        await self.send_raw(ctx, octets)

    # ---- device responses ------------------------------------------------------------------
    async def wait_response(self, ctx, timeout=24):
        """A full-speed host times out after 16..18 bit times [USB2 7.1.19.1]; a little more is waited here."""
        n0 = len(self.device_packets)
        for _ in range(timeout):
            await self.cycle(ctx)
            if len(self.device_packets) > n0:
                return self.device_packets[-1]
            if self._dev is not None:
                for _ in range(3000):
                    await self.cycle(ctx)
                    if len(self.device_packets) > n0:
                        return self.device_packets[-1]
                ev = {"e": "dev", "kind": "bad", "why": "never_ends"}
                self.log.append(ev)
                return ev
        ev = {"e": "dev", "kind": "none"}
        self.log.append(ev)
        return ev

    # ---- transactions ----------------------------------------------------------------------
    async def setup(self, ctx, addr, request8, ep=0, corrupt_crc=False, timeout=24):
        await self.token(ctx, "SETUP", addr, ep)
        await self.idle(ctx, 2)
        await self.data(ctx, "DATA0", request8, corrupt_crc)
        return await self.wait_response(ctx, timeout)

    async def in_transaction(self, ctx, addr, ep, ack=True, timeout=24):
        await self.token(ctx, "IN", addr, ep)
        r = await self.wait_response(ctx, timeout)
        if r.get("kind") == "data" and ack:
            await self.idle(ctx, 2)
            await self.handshake(ctx, "ACK")
            await self.idle(ctx, 2)
        return r

    async def out_transaction(self, ctx, addr, ep, pid, payload, corrupt_crc=False, timeout=24, tok="OUT"):
        await self.token(ctx, tok, addr, ep)
        await self.idle(ctx, 2)
        await self.data(ctx, pid, payload, corrupt_crc)
        return await self.wait_response(ctx, timeout)
