-------------------------------- MODULE SsTx --------------------------------
(***************************************************************************)
(* Reference specification of the transmit side of the USB3 link layer's   *)
(* header-packet flow control (luna ... usb3/link/transmitter.py,          *)
(* PacketTransmitter), property C39.  Written from [USB3.2 7.2.4.1] and    *)
(* the module doc-string, at EVENT grain.                                  *)
(*                                                                         *)
(*  Env  PartnerLgood(n) PartnerLcrd(x) PartnerLbad PartnerOther           *)
(*         link commands of the partner, in any order, with matching or    *)
(*         mismatching numbers / letters                                   *)
(*       LrtyDone    the link's receiver half finished sending the LRTY    *)
(*                   that answers an LBAD (`lrty_pending` falls)           *)
(*       LinkUp / LinkDown                                                 *)
(*  Dut  Accept(c)   a header is taken from the protocol layer's queue     *)
(*       HpStart     the first word of a header packet goes onto the wire  *)
(*       HpEnd(s, dl, c)  its last word has been handed to the PHY         *)
(*       RetryReq    `retry_required` strobes (the DUT noticed an LBAD)    *)
(*       Recov       `recovery_required` strobes                           *)
(*                                                                         *)
(* Ref: credits, next sequence number, the queue `unacked` of accepted and *)
(* not yet retired headers, how many of them have been (re)transmitted     *)
(* since the last retry (`rp`) and how many must carry the Delayed bit     *)
(* when they are sent next (`resend`).  Between the arrival of an LBAD and *)
(* the completion of our LRTY the partner ignores every header, so header  *)
(* packets started in that window are `void`: they must be copies of some  *)
(* unacknowledged header but are otherwise free and do not count.          *)
(* Latencies are free; `Quiet` demands that nothing is left to do.         *)
(***************************************************************************)
EXTENDS Naturals, Sequences

CONSTANTS NBuf

VARIABLES enabled, bringup,   \* link up / the partner's sequence-number advertisement was received
          credits,            \* credits received and not yet used
          letter,             \* letter of the next LCRD we expect
          txSeq,              \* sequence number of the next accepted header
          nextAck,            \* sequence number the next LGOOD must carry
          unacked,            \* accepted, not yet retired headers <<[s, c, tx]>>; tx = fully transmitted at least once
          rp,                 \* headers of unacked (from the front) transmitted since the last retry point
          resend,             \* headers of unacked (from the front) that belong to the current retry
          dn,                 \* header packets completely transmitted (not void) since the last retry point, not retired
          lbadSeen,           \* an LBAD arrived and the DUT has not yet strobed retry_required for it
          limbo,              \* retry_required strobed, our LRTY not yet sent
          recovOwed,          \* a mismatching LGOOD / LCRD arrived: recovery_required must strobe
          cur,                \* header packet in flight: [k |-> "none" | "void" | "stale"] | [k |-> "real", s, c, dl]
          ev,
          \* ghost
          gCredRx,            \* credits accepted since link-up
          gAccepted           \* headers accepted since link-up

rvars == <<enabled, bringup, credits, letter, txSeq, nextAck, unacked, rp, resend, dn, lbadSeen, limbo, recovOwed, cur>>
gvars == <<gCredRx, gAccepted>>
vars  == <<rvars, ev, gvars>>

None == [k |-> "none"]
Min(a, b) == IF a < b THEN a ELSE b
Dec(a) == IF a > 0 THEN a - 1 ELSE 0

Init == /\ enabled = FALSE /\ bringup = FALSE /\ credits = 0 /\ letter = 0 /\ txSeq = 0 /\ nextAck = 0
        /\ unacked = <<>> /\ rp = 0 /\ resend = 0 /\ dn = 0 /\ lbadSeen = FALSE /\ limbo = FALSE /\ recovOwed = FALSE
        /\ cur = None /\ ev = [e |-> "init"]
        /\ gCredRx = 0 /\ gAccepted = 0

(* ---- Env ---------------------------------------------------------------- *)
LinkUp ==
    /\ ~enabled
    /\ ev' = [e |-> "up"]
    /\ enabled' = TRUE
    /\ gCredRx' = 0 /\ gAccepted' = 0
    /\ UNCHANGED <<bringup, credits, letter, txSeq, nextAck, unacked, rp, resend, dn, lbadSeen, limbo, recovOwed, cur>>

\* Everything but the sequence numbers is forgotten when the link goes down.
LinkDown ==
    /\ enabled
    /\ ev' = [e |-> "down"]
    /\ enabled' = FALSE /\ bringup' = FALSE /\ credits' = 0 /\ letter' = 0
    /\ unacked' = <<>> /\ rp' = 0 /\ resend' = 0 /\ dn' = 0 /\ lbadSeen' = FALSE /\ limbo' = FALSE /\ recovOwed' = FALSE
    /\ cur' = IF cur.k = "none" THEN None ELSE [k |-> "stale"]     \* may still complete; means nothing
    /\ UNCHANGED <<txSeq, nextAck, gvars>>

\* The `ss` clock domain is reset: every register returns to its power-on value; a header packet in flight
\* is cut off.  With the link up the transmitter then waits for a new advertisement, as after link-up.
DomainReset ==
    /\ ev' = [e |-> "dreset"]
    /\ bringup' = FALSE /\ credits' = 0 /\ letter' = 0
    /\ unacked' = <<>> /\ rp' = 0 /\ resend' = 0 /\ dn' = 0 /\ lbadSeen' = FALSE /\ limbo' = FALSE /\ recovOwed' = FALSE
    /\ cur' = None
    /\ gCredRx' = 0 /\ gAccepted' = 0
    /\ UNCHANGED <<enabled, txSeq, nextAck>>

\* Environment assumptions on the partner's LGOOD n:
\*  - the first LGOOD after link-up is the advertisement (any n);
\*  - afterwards, an LGOOD carrying the expected number only acknowledges a header the partner can have
\*    received: completely transmitted since the last retry point, and not while the partner is
\*    ignoring us (between its LBAD and our LRTY); any other number may arrive at any time (mismatch).
LgoodLegal(n) == enabled /\ (bringup /\ n = nextAck => (dn > 0 /\ ~lbadSeen /\ ~limbo))

PartnerLgood(n) ==
    /\ LgoodLegal(n)
    /\ ev' = [e |-> "lgood", n |-> n]
    /\ IF ~bringup
         THEN /\ bringup' = TRUE /\ txSeq' = (n + 1) % 8 /\ nextAck' = (n + 1) % 8
              /\ UNCHANGED <<enabled, credits, letter, unacked, rp, resend, dn, lbadSeen, limbo, recovOwed, cur, gvars>>
       ELSE IF n = nextAck
         THEN /\ unacked' = Tail(unacked)                       \* retired
              /\ nextAck' = (nextAck + 1) % 8
              /\ rp' = Dec(rp) /\ resend' = Dec(resend) /\ dn' = Dec(dn)
              /\ UNCHANGED <<enabled, bringup, credits, letter, txSeq, lbadSeen, limbo, recovOwed, cur, gvars>>
       ELSE /\ recovOwed' = TRUE                                \* lost synchronisation
            /\ UNCHANGED <<enabled, bringup, credits, letter, txSeq, nextAck, unacked, rp, resend, dn, lbadSeen,
                           limbo, cur, gvars>>

\* Environment assumption: credits follow the advertisement, and a partner never has more than NBuf
\* credits + occupied buffers outstanding.  A wrong letter may arrive at any time (mismatch).
LcrdLegal(x) == enabled /\ bringup /\ (x = letter => credits + Len(unacked) < NBuf)

PartnerLcrd(x) ==
    /\ LcrdLegal(x)
    /\ ev' = [e |-> "lcrd", x |-> x]
    /\ IF x = letter
         THEN /\ credits' = credits + 1 /\ letter' = (letter + 1) % NBuf /\ gCredRx' = gCredRx + 1
              /\ UNCHANGED <<enabled, bringup, txSeq, nextAck, unacked, rp, resend, dn, lbadSeen, limbo, recovOwed, cur,
                             gAccepted>>
         ELSE /\ recovOwed' = TRUE
              /\ UNCHANGED <<enabled, bringup, credits, letter, txSeq, nextAck, unacked, rp, resend, dn, lbadSeen,
                             limbo, cur, gvars>>

\* Environment assumption: an LBAD answers a header packet the partner received (corrupted): one was
\* completely transmitted and not yet acknowledged, and the partner is not already ignoring us.
LbadLegal == enabled /\ bringup /\ dn > 0 /\ ~lbadSeen /\ ~limbo

PartnerLbad ==
    /\ LbadLegal
    /\ ev' = [e |-> "lbad"]
    /\ lbadSeen' = TRUE
    /\ UNCHANGED <<enabled, bringup, credits, letter, txSeq, nextAck, unacked, rp, resend, dn, limbo, recovOwed, cur, gvars>>

\* Our LRTY went out (Env assumption: never while a header packet is in flight -- the link's arbiter
\* serialises the two sources).
LrtyDone ==
    /\ limbo /\ cur.k = "none"
    /\ ev' = [e |-> "lrty_done"]
    /\ limbo' = FALSE
    /\ UNCHANGED <<enabled, bringup, credits, letter, txSeq, nextAck, unacked, rp, resend, dn, lbadSeen, recovOwed, cur, gvars>>

(* ---- Dut ---------------------------------------------------------------- *)
AcceptJudge == IF ~enabled THEN "accept_while_down"
               ELSE IF ~bringup THEN "accept_before_advertisement"
               ELSE IF credits = 0 THEN "accept_without_credit" ELSE "ok"

Accept(c) ==
    /\ AcceptJudge = "ok"
    /\ ev' = [e |-> "acc"]
    /\ unacked' = Append(unacked, [s |-> txSeq, c |-> c, tx |-> FALSE])
    /\ txSeq' = (txSeq + 1) % 8
    /\ credits' = credits - 1
    /\ gAccepted' = gAccepted + 1
    /\ UNCHANGED <<enabled, bringup, letter, nextAck, rp, resend, dn, lbadSeen, limbo, recovOwed, cur, gCredRx>>

RetryReqJudge == IF lbadSeen THEN "ok" ELSE "retry_without_lbad"

\* The DUT noticed the LBAD: everything unacknowledged is to be sent again, Delayed.
RetryReq ==
    /\ RetryReqJudge = "ok"
    /\ ev' = [e |-> "retry_req"]
    /\ lbadSeen' = FALSE /\ limbo' = TRUE
    /\ rp' = 0 /\ resend' = Len(unacked) /\ dn' = 0
    /\ UNCHANGED <<enabled, bringup, credits, letter, txSeq, nextAck, unacked, recovOwed, cur, gvars>>

Void == lbadSeen \/ limbo

HpStartJudge == IF cur.k # "none" THEN "hp_overlap"
                ELSE IF ~enabled THEN "header_while_down"
                ELSE IF Void THEN "ok"
                ELSE IF rp >= Len(unacked) THEN "header_without_queue_entry" ELSE "ok"

HpStart ==
    /\ HpStartJudge = "ok"
    /\ ev' = [e |-> "hps"]
    /\ IF Void
         THEN cur' = [k |-> "void"] /\ UNCHANGED rp
         ELSE /\ cur' = [k |-> "real", s |-> unacked[rp + 1].s, c |-> unacked[rp + 1].c,
                          \* Delayed bit: must be set on a header of the retry that was on the wire before
                          \* (a retransmission); the property does not constrain it otherwise
                          dl |-> IF rp < resend /\ unacked[rp + 1].tx THEN "set" ELSE "free"]
              /\ rp' = rp + 1
    /\ UNCHANGED <<enabled, bringup, credits, letter, txSeq, nextAck, unacked, resend, dn, lbadSeen, limbo, recovOwed, gvars>>

\* a void header must at least be a copy of an unacknowledged header
IsUnacked(s, c) == \E i \in 1..Len(unacked) : unacked[i].s = s /\ unacked[i].c = c

HpEndJudge(s, dl, c) ==
    IF cur.k = "none" THEN "hp_without_start"
    ELSE IF cur.k = "stale" THEN "ok"
    ELSE IF cur.k = "void" THEN (IF IsUnacked(s, c) THEN "ok" ELSE "void_header_unknown")
    ELSE IF s # cur.s THEN "hp_sequence_number"
    ELSE IF c # cur.c THEN "hp_content"
    ELSE IF cur.dl = "set" /\ ~dl THEN "hp_delayed_bit_missing"
    ELSE "ok"

HpEnd(s, dl, c) ==
    /\ HpEndJudge(s, dl, c) = "ok"
    /\ ev' = [e |-> "hpe", s |-> s, dl |-> dl]
    /\ cur' = None
    \* it counts as received by the partner unless the partner is ignoring us (LBAD .. our LRTY)
    /\ dn' = IF cur.k = "real" /\ ~Void THEN dn + 1 ELSE dn
    \* the header has now been on the wire (void or not): sending it again is a retransmission
    /\ unacked' = [i \in 1..Len(unacked) |->
                     IF cur.k # "stale" /\ unacked[i].s = s /\ unacked[i].c = c
                     THEN [unacked[i] EXCEPT !.tx = TRUE] ELSE unacked[i]]
    /\ UNCHANGED <<enabled, bringup, credits, letter, txSeq, nextAck, rp, resend, lbadSeen, limbo, recovOwed,
                   gCredRx, gAccepted>>

RecovJudge == IF recovOwed THEN "ok" ELSE "unexpected_recovery"
Recov ==
    /\ RecovJudge = "ok"
    /\ ev' = [e |-> "recov"]
    /\ recovOwed' = FALSE
    /\ UNCHANGED <<enabled, bringup, credits, letter, txSeq, nextAck, unacked, rp, resend, dn, lbadSeen, limbo, cur, gvars>>

QuietJudge ==
    IF cur.k # "none" THEN "quiet_header_unfinished"
    ELSE IF ~enabled THEN "ok"
    ELSE IF lbadSeen THEN "quiet_lbad_unnoticed"
    ELSE IF limbo THEN "quiet_env_lrty_outstanding"
    ELSE IF rp < Len(unacked) THEN (IF rp < resend THEN "quiet_retransmission_missing" ELSE "quiet_header_unsent")
    ELSE IF recovOwed THEN "quiet_recovery_missing"
    ELSE "ok"

\* queue.ready as the doc-string states it: headers are accepted while a credit is available
ReadyExpected == enabled /\ bringup /\ credits > 0

Quiet ==
    /\ QuietJudge = "ok"
    /\ ev' = [e |-> "quiet"]
    /\ UNCHANGED <<rvars, gvars>>

-----------------------------------------------------------------------------
(* Prop *)
TypeOK == /\ credits \in 0..NBuf /\ letter \in 0..(NBuf - 1) /\ txSeq \in 0..7 /\ nextAck \in 0..7
          /\ Len(unacked) <= NBuf /\ rp \in 0..Len(unacked) /\ resend \in 0..Len(unacked) /\ dn \in 0..rp

\* C39: never more headers accepted than credits received; credits + outstanding headers bounded
CreditsRespected == enabled => (gAccepted + credits = gCredRx /\ credits + Len(unacked) <= NBuf)

\* C39: headers are numbered consecutively: the queue holds nextAck, nextAck+1, ... and txSeq follows
ConsecutiveNumbers == (enabled /\ bringup) =>
    /\ \A i \in 1..Len(unacked) : unacked[i].s = (nextAck + i - 1) % 8
    /\ txSeq = (nextAck + Len(unacked)) % 8

\* C39: everything before the send pointer has been (or is being) put on the wire.
SentPrefix == \A i \in 1..rp : unacked[i].tx \/ (cur.k = "real" /\ cur.s = unacked[i].s)

\* C39: a header is retired only by an LGOOD carrying its sequence number (or lost with the link)
RetireOnlyOnMatchingLgood ==
    [][Len(unacked') < Len(unacked) =>
          (ev'.e \in {"down", "dreset"} \/ (ev'.e = "lgood" /\ ev'.n = Head(unacked).s /\ unacked' = Tail(unacked)))]_vars

\* C39: real header packets go out in sequence order: each one is the successor of the previous one,
\* except right after a retry, where transmission restarts at the oldest unacknowledged header; and no
\* never-transmitted header is started while older ones still await their retransmission.
InOrder == [][(ev'.e = "hps" /\ cur'.k = "real") =>
                 /\ cur'.s = unacked[rp + 1].s
                 /\ (rp = 0 => cur'.s = nextAck)
                 /\ \A i \in 1..Len(unacked) : (unacked[i].tx /\ i > rp) => i >= rp + 1]_vars
=============================================================================
