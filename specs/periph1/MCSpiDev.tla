------------------------------ MODULE MCSpiDev ------------------------------
(* Bounded instance of SpiDev for exhaustive exploration: the configuration (word size, CPOL, *)
(* CPHA, bit order) is chosen in Init; every legal host behaviour at cycle grain (CS at any    *)
(* time, SCK edges at least two cycles apart, foreign clocking while deselected, aborts at any *)
(* bit, word_out changes) and every permitted report latency is explored.                      *)
EXTENDS SpiDev, TLC

CONSTANTS WordSizes, Modes, Orders,   \* sets: word sizes, SPI mode numbers 2*CPOL+CPHA, msb-first flags
          MaxBits,                    \* bound: sample edges per CS assertion  = MaxBits(ws)
          MaxWords                    \* bound: words completed in total

Init == \E ws \in WordSizes, md \in Modes, m \in Orders : InitCfg(ws, md \div 2, md % 2, m)

\* word_out alphabet: LSB only / everything but the LSB (asymmetric, so bit order matters)
WoutAlpha == IF WS = 1 THEN {0, 1} ELSE {1, (2 ^ WS) - 2}
Inputs == [cs : BOOLEAN, sck : {0, 1}, sdi : {0, 1}, wout : WoutAlpha \cup {0}]

\* the outputs the reference allows in a cycle with inputs i, given the strobe choice wc
OutFor(i, wc) == [wc |-> wc,
                  win |-> IF pend # <<>> THEN pend[1].w ELSE 0,
                  sdo |-> IF SampleEdge(i) /\ cpha = 1 THEN TxBit(txw, Len(rx) + 1) ELSE 0]

Do(i) == LegalInput(i) /\ \E wc \in BOOLEAN : Step(i, OutFor(i, wc))

Sample       == \E i \in Inputs : SampleEdge(i) /\ Do(i)
Shift        == \E i \in Inputs : i.cs /\ IsEdge(i) /\ ~SampleEdge(i) /\ Do(i)
Select       == \E i \in Inputs : i.cs /\ ~in.cs /\ Do(i)
Deselect     == \E i \in Inputs : ~i.cs /\ in.cs /\ Do(i)
ForeignClock == \E i \in Inputs : ~i.cs /\ ~in.cs /\ IsEdge(i) /\ Do(i)
Hold         == \E i \in Inputs : i.cs = in.cs /\ ~IsEdge(i) /\ Do(i)

Next == Sample \/ Shift \/ Select \/ Deselect \/ ForeignClock \/ Hold
Spec == Init /\ [][Next]_vars

Bounded == Len(allbits) <= MaxBits * WS + 1 /\ nCompleted <= MaxWords

TypeOK == /\ WS \in WordSizes /\ cpol \in {0, 1} /\ cpha \in {0, 1} /\ msb \in BOOLEAN
          /\ Len(rx) <= WS /\ Len(pend) <= MaxLat
=============================================================================
