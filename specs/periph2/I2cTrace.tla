------------------------------ MODULE I2cTrace ------------------------------
(***************************************************************************)
(* Trace validation for I2c.  Per-cycle records from the real I2CInitiator *)
(* (open-drain pads joined with a target model by a wired AND):            *)
(*   [start, stop, write, read, data, ack_i   -- operation port inputs      *)
(*    tscl, tsda                               -- the target's SCL / SDA    *)
(*    scl, sda                                 -- initiator pads (1 = released) *)
(*    busy, ack_o, data_o, end]                                             *)
(* The last record has end = TRUE (taken after the bench waited for the    *)
(* initiator): every accepted operation must have completed by then.       *)
(***************************************************************************)
EXTENDS I2c, TLC, TLCExt, Json, IOUtils

Logs == JsonDeserialize(IOEnv.TRACE_FILE)

VARIABLES tid, l, status
tvars == <<vars, tid, l, status>>

ASSUME \A i \in 1..Len(Logs) : TLCSet(i, <<0, "ok">>)

Rec == Logs[tid][l]

InOf(r) == [start |-> r.start, stop |-> r.stop, write |-> r.write, read |-> r.read, data |-> r.data,
            ack_i |-> r.ack_i, tscl |-> r.tscl, tsda |-> r.tsda, rst |-> r.rst]
OutOf(r) == [scl |-> r.scl, sda |-> r.sda, busy |-> r.busy, ack_o |-> r.ack_o, data_o |-> r.data_o]

TInit == /\ Init
         /\ tid \in 1..Len(Logs)
         /\ l = 1
         /\ status = "ok"

TNext == /\ status = "ok"
         /\ l <= Len(Logs[tid])
         /\ LET r == Rec IN
              IF r.end
              THEN /\ status' = IF op # "none" THEN "operation_not_completed" ELSE "ok"
                   /\ UNCHANGED vars
              ELSE /\ status' = Viol(InOf(r), OutOf(r))
                   /\ Update(InOf(r), OutOf(r))
         /\ l' = l + 1
         /\ UNCHANGED tid

TSpec == TInit /\ [][TNext]_tvars

TraceProp == DecodedMatchesRequested /\ DecoderInStep

\* verdict of the state just reached; a trace is not followed beyond a failed clause or invariant
Verdict == IF status # "ok" THEN status ELSE IF TraceProp THEN "ok" ELSE "prop_invariant"
Progress == TLCSet(tid, <<l - 1, Verdict>>) /\ Verdict = "ok"

Verdicts == JsonSerialize(IOEnv.VERDICT_FILE, [i \in 1..Len(Logs) |-> TLCGet(i)])
=============================================================================
