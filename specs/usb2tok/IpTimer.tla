------------------------------- MODULE IpTimer -------------------------------
(***************************************************************************)
(* USBInterpacketTimer (property C05) - implementation-shaped on purpose:  *)
(* the property is about the mechanism's timing, so Ref is a cycle counter *)
(* and the *documented* timing table is a table of constants of this spec, *)
(* derived from bit times [USB2.0 7.1.18; ULPI 1.1 fig. 18].               *)
(*                                                                         *)
(* Grain: one step = one clock cycle of the "usb" domain.                  *)
(*  Env : `start` strobe in any cycle, `speed` any of HIGH/FULL/LOW in any *)
(*        cycle.                                                           *)
(*  Ref : t = cycles since the timer origin.  The origin (t = 0) is the    *)
(*        cycle after a `start` strobe - the cycle in which the event that *)
(*        started the timer (e.g. new_token) is visible - and cycle 0      *)
(*        after reset.  t saturates above the largest threshold.           *)
(*  Out : tx_allowed <=> t = Min(speed);  tx_timeout <=> t = Max(speed);   *)
(*        rx_timeout <=> t = RxTo(speed), for the currently selected speed.*)
(*        In a full-speed-only configuration only FULL is constrained.     *)
(***************************************************************************)
EXTENDS Naturals

CONSTANT Config          \* "60MHz" | "60MHz_fs_only" | "12MHz_fs_only"

HIGH == 0  FULL == 1  LOW == 2            \* USBSpeed / UTMI xcvr_select encoding
Speeds == {HIGH, FULL, LOW}

FsOnly == Config \in {"60MHz_fs_only", "12MHz_fs_only"}
ClockMHz == IF Config = "12MHz_fs_only" THEN 12 ELSE 60

\* clock cycles per bit time: full speed 12 Mbit/s, low speed 1.5 Mbit/s
CyclesPerBit(s) == IF s = FULL THEN ClockMHz \div 12 ELSE (ClockMHz * 2) \div 3

\* The documented table.  FS/LS: response allowed after 2 bit times, deadline 6.5 bit times, receive
\* time-out 16 bit times.  HS (60 MHz only; one cycle = 8 HS bit times): allowed after 8 bit times =
\* 1 cycle, deadline 24 cycles, receive time-out 736 bit times = 92 cycles.
MinOf(s)  == IF s = HIGH THEN 1  ELSE 2 * CyclesPerBit(s)
RxToOf(s) == IF s = HIGH THEN 92 ELSE 16 * CyclesPerBit(s)
MaxOf(s)  == IF s = HIGH THEN 24
             ELSE IF s = FULL THEN (IF ClockMHz = 60 THEN 32 ELSE 7)
             ELSE 260
ASSUME 736 = 92 * 8
\* the documented numbers, literally (60 MHz: HS 1/24/92, FS 10/32/80, LS 80/260/640; 12 MHz FS 2/7/16)
ASSUME ClockMHz = 60 => /\ <<MinOf(HIGH), MaxOf(HIGH), RxToOf(HIGH)>> = <<1, 24, 92>>
                        /\ <<MinOf(FULL), MaxOf(FULL), RxToOf(FULL)>> = <<10, 32, 80>>
                        /\ <<MinOf(LOW),  MaxOf(LOW),  RxToOf(LOW)>>  = <<80, 260, 640>>
ASSUME ClockMHz = 12 => <<MinOf(FULL), MaxOf(FULL), RxToOf(FULL)>> = <<2, 7, 16>>

Constrained(s) == IF FsOnly THEN s = FULL ELSE s \in Speeds
\* 6.5 bit times is not a whole number of cycles: the documented deadline is one of its two roundings
ASSUME \A s \in {FULL, LOW} : Constrained(s) =>
          (13 * CyclesPerBit(s)) \div 2 <= MaxOf(s) /\ MaxOf(s) <= (13 * CyclesPerBit(s) + 1) \div 2
\* the response window is non-empty and closes before the receive time-out would be declared
ASSUME TableSane == \A s \in Speeds : Constrained(s) => 1 <= MinOf(s) /\ MinOf(s) < MaxOf(s) /\ MaxOf(s) < RxToOf(s)
TSat == (IF FsOnly THEN RxToOf(FULL) ELSE RxToOf(LOW)) + 1        \* above every threshold in use

VARIABLES t,             \* cycles since the timer origin (saturating at TSat)
          in,            \* Env: [start, speed] of the cycle that led to this state
          since          \* ghost: the same count, not saturated (Prop only)

vars == <<t, in, since>>

\* outputs in a cycle whose selected speed is s
TxAllowed(s) == t = MinOf(s)
TxTimeout(s) == t = MaxOf(s)
RxTimeout(s) == t = RxToOf(s)

\* first violated clause for inputs i and observed outputs o = [txa, txt, rxt] ("ok" if allowed)
OutViolation(i, o) ==
    IF ~Constrained(i.speed) THEN "ok"
    ELSE IF o.txa # TxAllowed(i.speed) THEN "tx_allowed"
    ELSE IF o.txt # TxTimeout(i.speed) THEN "tx_timeout"
    ELSE IF o.rxt # RxTimeout(i.speed) THEN "rx_timeout"
    ELSE "ok"

Init == t = 0 /\ since = 0 /\ in = [start |-> FALSE, speed |-> FULL, rst |-> FALSE]

\* i.rst: the reset of the timer's clock domain is asserted in this cycle; like a start it makes the next cycle
\* the time origin ("measured from the most recent timer start (or reset)").
Step(i) == /\ in' = i
           /\ t' = IF i.start \/ i.rst THEN 0 ELSE IF t < TSat THEN t + 1 ELSE t
           /\ since' = IF i.start \/ i.rst THEN 0 ELSE since + 1

\* The same timer seen through USBTokenDetector: the timer is started by an accepted token, so its origin
\* is the cycle in which new_token is high; ready_for_response is the timer's tx_allowed.
TokCount(nt) == IF nt THEN 0 ELSE t
TokViolation(r) == IF Constrained(r.speed) /\ r.rfr # (TokCount(r.nt) = MinOf(r.speed)) THEN "ready_for_response" ELSE "ok"
TokStep(r) == /\ in' = [start |-> r.nt, speed |-> r.speed, rst |-> r.rst]
              /\ t' = IF r.rst THEN 0 ELSE IF TokCount(r.nt) < TSat THEN TokCount(r.nt) + 1 ELSE TokCount(r.nt)
              /\ since' = IF r.rst THEN 0 ELSE IF r.nt THEN 1 ELSE since + 1

-----------------------------------------------------------------------------
(* Prop *)
\* saturation loses nothing: t is the true count wherever a threshold can be hit
CountIsExact == t = (IF since < TSat THEN since ELSE TSat)

\* measured from the most recent start, each indication occurs exactly at its documented time
ExactlyAtDocumentedTimes ==
    \A s \in Speeds : Constrained(s) =>
        /\ (TxAllowed(s) <=> since = MinOf(s))
        /\ (TxTimeout(s) <=> since = MaxOf(s))
        /\ (RxTimeout(s) <=> since = RxToOf(s))

\* a start strobe restarts the measurement
StartRestarts == [][(in'.start \/ in'.rst) => t' = 0]_vars
=============================================================================
