------------------------------ MODULE SsSetup ------------------------------
(***************************************************************************)
(* C48 (first half) -- SuperSpeed SETUP decoding                           *)
(* (luna.gateware.usb.usb3.application.request.SuperSpeedSetupDecoder)     *)
(*                                                                         *)
(* Written from the property, the decoder's doc-string and [USB2.0 9.3,    *)
(* Table 9-2] (setup data, little endian):                                 *)
(*   byte 0  bmRequestType: bits 4:0 recipient, 6:5 type, 7 direction      *)
(*   byte 1  bRequest     bytes 2-3 wValue   4-5 wIndex   6-7 wLength      *)
(* A SuperSpeed SETUP is a data packet whose header has the Setup flag and *)
(* whose payload is exactly eight bytes [USB3.2 8.11.4].  Payload bytes    *)
(* arrive in 32-bit words, byte k of the packet in bits 8(k mod 4)+7 ..    *)
(* 8(k mod 4) of word k div 4; only the last word may be partial.          *)
(*                                                                         *)
(* Grain: one step = one clock cycle.                                      *)
(*   Env : payload word beats (n = 1..4 valid bytes, first / last flags),  *)
(*         idle cycles (also inside a packet, flags arbitrary), the        *)
(*         header's Setup flag (stable through a packet), and the link     *)
(*         layer's verdict strobes good / bad, exactly one per packet      *)
(*         (bad may also abort a packet early, together with a word).      *)
(*         Packets of any length (0 = no word at all) with or without the  *)
(*         flag, in any order.                                             *)
(*   Ref : bytes of the packet in progress; `owed`, the reports owed for   *)
(*         good flagged 8-byte packets; `cur`, the last reported fields    *)
(*         (held until the next report).  The report may come in the cycle *)
(*         of `good` or up to MaxLat cycles later (named freedom).         *)
(*   Prop: reports = decoded payloads of exactly the good, flagged, 8-byte *)
(*         packets, in order (ghost logs).                                 *)
(***************************************************************************)
EXTENDS Naturals, Sequences

CONSTANTS MaxLat

VARIABLES pkt,        \* [open, done, setup, bytes]: packet in progress
          owed,       \* sequence of [f, age]: reports owed
          cur,        \* last reported fields or NoFields
          in, out,
          wanted,     \* ghost: fields of every good flagged 8-byte packet, in order
          reports     \* ghost: fields of every report, in order

svars == <<pkt, owed, cur, in, out, wanted, reports>>

NoFields == [dir |-> 9, type |-> 9, rcp |-> 99, req |-> 999, val |-> 99999, idx |-> 99999, len |-> 99999]
Closed == [open |-> FALSE, done |-> FALSE, setup |-> FALSE, bytes |-> <<>>]

\* the n low bytes of a word given as two 16-bit limbs, in wire order
WordBytes(lo, hi, n) == SubSeq(<<lo % 256, lo \div 256, hi % 256, hi \div 256>>, 1, n)

\* Table 9-2
Fields(b) == [dir  |-> b[1] \div 128,
              type |-> (b[1] \div 32) % 4,
              rcp  |-> b[1] % 32,
              req  |-> b[2],
              val  |-> b[3] + 256 * b[4],
              idx  |-> b[5] + 256 * b[6],
              len  |-> b[7] + 256 * b[8]]

-----------------------------------------------------------------------------
(* i = [n, first, last, lo, hi, setup, good, bad]   o = [rcv, f]             *)
Word(i) == i.n > 0

\* packet state after this cycle's word (if any)
PktW(i) == IF ~Word(i) THEN pkt
           ELSE IF i.first THEN [open |-> TRUE, done |-> i.last, setup |-> i.setup, bytes |-> WordBytes(i.lo, i.hi, i.n)]
           ELSE [pkt EXCEPT !.done = i.last, !.bytes = @ \o WordBytes(i.lo, i.hi, i.n)]

\* the packet judged good in this cycle is a SETUP
IsSetup(i) == LET p == PktW(i) IN
              IF p.open THEN p.setup /\ Len(p.bytes) = 8
              ELSE FALSE                                 \* zero-length packet: no payload word at all

OwedA(i) == IF i.good /\ IsSetup(i) THEN Append(owed, [f |-> Fields(PktW(i).bytes), age |-> 0]) ELSE owed

EnvFailing(i) ==
     IF i.good /\ i.bad THEN "env_good_and_bad"
     ELSE IF Word(i) /\ i.good THEN "env_good_with_word"
     ELSE IF Word(i) /\ i.first /\ pkt.open THEN "env_packet_not_closed"
     ELSE IF Word(i) /\ ~i.first /\ ~pkt.open THEN "env_word_without_first"
     ELSE IF Word(i) /\ ~i.first /\ pkt.done THEN "env_word_after_last"
     ELSE IF Word(i) /\ i.n < 4 /\ ~i.last THEN "env_partial_word_not_last"
     ELSE IF pkt.open /\ i.setup # pkt.setup THEN "env_setup_flag_changed"
     ELSE IF i.good /\ pkt.open /\ ~pkt.done THEN "env_good_before_last"
     ELSE "ok"

Failing(i, o) ==
  LET oa == OwedA(i) IN
     IF EnvFailing(i) # "ok" THEN EnvFailing(i)
     ELSE IF o.rcv /\ oa = <<>> THEN "spurious_received"
     ELSE IF o.rcv /\ o.f.dir  # oa[1].f.dir  THEN "field_is_in_request"
     ELSE IF o.rcv /\ o.f.type # oa[1].f.type THEN "field_type"
     ELSE IF o.rcv /\ o.f.rcp  # oa[1].f.rcp  THEN "field_recipient"
     ELSE IF o.rcv /\ o.f.req  # oa[1].f.req  THEN "field_request"
     ELSE IF o.rcv /\ o.f.val  # oa[1].f.val  THEN "field_value"
     ELSE IF o.rcv /\ o.f.idx  # oa[1].f.idx  THEN "field_index"
     ELSE IF o.rcv /\ o.f.len  # oa[1].f.len  THEN "field_length"
     ELSE IF ~o.rcv /\ oa # <<>> /\ oa[1].age >= MaxLat THEN "received_missing"
     ELSE IF ~o.rcv /\ oa = <<>> /\ cur # NoFields /\ o.f # cur THEN "held_fields"
     ELSE "ok"

Step(i, o) ==
  LET oa   == OwedA(i)
      rest == IF o.rcv THEN Tail(oa) ELSE oa
  IN /\ in' = i /\ out' = o
     /\ pkt' = IF i.good \/ i.bad THEN Closed ELSE PktW(i)
     /\ owed' = [k \in 1..Len(rest) |-> [rest[k] EXCEPT !.age = @ + 1]]
     /\ cur' = IF o.rcv THEN oa[1].f ELSE cur
     /\ wanted' = IF i.good /\ IsSetup(i) THEN Append(wanted, Fields(PktW(i).bytes)) ELSE wanted
     /\ reports' = IF o.rcv THEN Append(reports, o.f) ELSE reports

Init == /\ pkt = Closed /\ owed = <<>> /\ cur = NoFields
        /\ in = [n |-> 0, first |-> FALSE, last |-> FALSE, lo |-> 0, hi |-> 0, setup |-> FALSE, good |-> FALSE, bad |-> FALSE]
        /\ out = [rcv |-> FALSE, f |-> NoFields]
        /\ wanted = <<>> /\ reports = <<>>

-----------------------------------------------------------------------------
(* Prop *)
\* A request is reported iff a good packet with the setup flag carried exactly eight bytes, with those bytes.
ReportsAreTheGoodSetups ==
    /\ Len(reports) + Len(owed) = Len(wanted)
    /\ \A k \in 1..Len(reports) : reports[k] = wanted[k]
    /\ \A k \in 1..Len(owed) : owed[k].f = wanted[Len(reports) + k]
BoundedLatency == \A k \in 1..Len(owed) : owed[k].age <= MaxLat
=============================================================================
