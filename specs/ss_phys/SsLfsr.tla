------------------------------- MODULE SsLfsr -------------------------------
(***************************************************************************)
(* The USB3 scrambling LFSR, written bit-serially from [USB3.2 Appendix B]: *)
(*   "The LFSR implements the polynomial G(X) = X^16 + X^5 + X^4 + X^3 + 1; *)
(*    it is initialised to FFFFh; the serial data out is taken from the     *)
(*    X^15 stage (D15); for every Symbol the LFSR is advanced eight serial  *)
(*    shifts, the first bit out scrambling bit 0 of the Symbol".            *)
(* Galois (internal-XOR) form as drawn in the standard's figure: on every   *)
(* serial shift stage i takes the value of stage i-1, stage 0 takes D15,    *)
(* and D15 is additionally XORed into the inputs of stages 3, 4 and 5.      *)
(*                                                                         *)
(* Two representations of the same serial shift:                           *)
(*   ShiftBits : on a sequence of 16 bits (index i+1 = stage Di) - the      *)
(*               defining one;                                             *)
(*   ShiftInt  : on the integer sum(Di * 2^i), shift/XOR arithmetic - the one    *)
(*               used on long traces.  LfsrRepsAgreeOn (checked by MCLfsr over  *)
(*               all 2^16 states) proves them equal.                        *)
(* Nothing here is derived from the gateware's parallel XOR equations.      *)
(***************************************************************************)
EXTENDS Naturals, Sequences, Bitwise

LfsrSeed == 65535                 \* FFFFh
Taps     == {3, 4, 5}             \* besides stage 0 (the "+1")

P2(n) == 2 ^ n
BitOf(x, k) == (x \div P2(k)) % 2
XorBit(a, b) == (a + b) % 2

-----------------------------------------------------------------------------
(* defining representation *)
ToBits(s)  == [i \in 1..16 |-> BitOf(s, i - 1)]
RECURSIVE FromBitsFrom(_, _)
FromBitsFrom(b, i) == IF i > Len(b) THEN 0 ELSE b[i] * P2(i - 1) + FromBitsFrom(b, i + 1)
FromBits(b) == FromBitsFrom(b, 1)

ShiftBits(b) == [i \in 1..16 |->
                    IF i = 1 THEN b[16]
                    ELSE IF (i - 1) \in Taps THEN XorBit(b[i - 1], b[16])
                    ELSE b[i - 1]]

(* integer representation: the same single serial shift; ^^ is bitwise XOR (Bitwise module) *)
TapMask == 8 + 16 + 32            \* sum of 2^k for k in Taps
ShiftInt(s) ==
    LET d15 == s \div 32768
        t   == (s % 32768) * 2 + d15
    IN IF d15 = 0 THEN t ELSE t ^^ TapMask

\* (an operator with a parameter, so that TLC does not pre-evaluate it as a constant in every run)
LfsrRepsAgreeOn(S) == \A s \in S : FromBits(ShiftBits(ToBits(s))) = ShiftInt(s)

-----------------------------------------------------------------------------
(* One Symbol: eight serial shifts; key bit j (scrambling bit j of the Symbol) is D15 *)
(* before the (j+1)-th shift.  Returns <<key byte, state after the Symbol>>.          *)
RECURSIVE SymSerial(_, _, _)
SymSerial(s, j, acc) ==
    IF j = 8 THEN <<acc, s>>
    ELSE SymSerial(ShiftInt(s), j + 1, acc + (s \div 32768) * P2(j))
SymStep(s) == SymSerial(s, 0, 0)
KeyByte(s)   == SymStep(s)[1]
AfterSym(s)  == SymStep(s)[2]

(* A 4-symbol word: the key bytes of its four symbols in order, and the state after it. *)
WordStep(s) ==
    LET a == SymStep(s)
        b == SymStep(a[2])
        c == SymStep(b[2])
        d == SymStep(c[2])
    IN [key |-> <<a[1], b[1], c[1], d[1]>>, next |-> d[2]]

XorByte(x, y) == x ^^ y

-----------------------------------------------------------------------------
(* Independent vectors: the first 16 scrambler output bytes for all-zero data     *)
(* printed in [USB3.2 Appendix B.1] (also the TSEQ ordered set's payload).         *)
RECURSIVE KeyStream(_, _)
KeyStream(s, n) == IF n = 0 THEN <<>> ELSE <<KeyByte(s)>> \o KeyStream(AfterSym(s), n - 1)

SpecVectorOK == KeyStream(LfsrSeed, 16) =
    <<255, 23, 192, 20, 178, 231, 2, 130, 114, 110, 40, 166, 190, 109, 191, 141>>

(* The polynomial is primitive: the 8-shift map has no fixed point other than 0 and *)
(* is a bijection on the 16-bit states.                                             *)
AfterSymInjective == \A k \in 0..15 : AfterSym(P2(k)) # 0
=============================================================================
