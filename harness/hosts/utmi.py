"""A USB2 host (plus UTMI PHY) model for driving real LUNA devices over a UTMIInterface in amaranth.sim.

Everything goes through `cycle()`: it sets the receive-side UTMI signals for one clock, chooses
`tx_ready`, samples the device's transmit side at the clock edge and assembles device packets.
All higher-level operations (token, data, handshake, sof, wait_response) are sequences of cycles
with host-chosen `rx_valid` gaps and `tx_ready` stalls.  Every bus-level event is appended to
`self.log` (a list of dicts) so an engine can fold it into the trace format of its specification.

The CRCs here are the host's own bit-serial implementations (independent of LUNA's).
"""

PIDS = {"OUT": 0x1, "IN": 0x9, "SOF": 0x5, "SETUP": 0xD,
        "DATA0": 0x3, "DATA1": 0xB, "DATA2": 0x7, "MDATA": 0xF,
        "ACK": 0x2, "NAK": 0xA, "STALL": 0xE, "NYET": 0x6,
        "PRE": 0xC, "SPLIT": 0x8, "PING": 0x4}
PID_NAMES = {v: k for k, v in PIDS.items()}


def pid_byte(name_or_nibble):
    n = PIDS[name_or_nibble] if isinstance(name_or_nibble, str) else name_or_nibble
    return (n & 0xF) | ((~n & 0xF) << 4)


def crc5(value, nbits=11):
    """USB2 token CRC5 over `nbits` bits sent LSB first; returns the 5-bit field as transmitted
    (bit 0 of the result is sent first)."""
    crc = 0x1F
    for i in range(nbits):
        b = (value >> i) & 1
        top = (crc >> 4) & 1
        crc = (crc << 1) & 0x1F
        if b ^ top:
            crc ^= 0x05
    crc ^= 0x1F
    # crc register MSB is sent first: reverse into field order
    return int("{:05b}".format(crc)[::-1], 2)


def crc16(data):
    """USB2 data CRC16 (poly 0x8005, init all ones, inverted), returned as the 16-bit value whose
    low byte is sent first."""
    crc = 0xFFFF
    for byte in data:
        for i in range(8):
            b = (byte >> i) & 1
            top = (crc >> 15) & 1
            crc = (crc << 1) & 0xFFFF
            if b ^ top:
                crc ^= 0x8005
    crc ^= 0xFFFF
    return int("{:016b}".format(crc)[::-1], 2)


def token_bytes(pid, addr, ep, corrupt_crc=False):
    v = (addr & 0x7F) | ((ep & 0xF) << 7)
    c = crc5(v)
    if corrupt_crc:
        c ^= 1 << (corrupt_crc - 1 if isinstance(corrupt_crc, int) and corrupt_crc > 0 else 0)
    w = v | (c << 11)
    return [pid_byte(pid), w & 0xFF, (w >> 8) & 0xFF]


def sof_bytes(frame, corrupt_crc=False):
    v = frame & 0x7FF
    c = crc5(v)
    if corrupt_crc:
        c ^= 1
    w = v | (c << 11)
    return [pid_byte("SOF"), w & 0xFF, (w >> 8) & 0xFF]


def data_bytes(pid, payload, corrupt_crc=False):
    c = crc16(payload)
    if corrupt_crc:
        c ^= 1 << ((corrupt_crc - 1) % 16 if isinstance(corrupt_crc, int) else 0)
    return [pid_byte(pid)] + list(payload) + [c & 0xFF, (c >> 8) & 0xFF]


def classify_device_packet(bs):
    """Interpret bytes the device put on the wire."""
    if not bs:
        return {"kind": "empty"}
    p = bs[0]
    lo, hi = p & 0xF, (p >> 4) & 0xF
    if (lo ^ hi) != 0xF:
        return {"kind": "bad", "why": "pid_check", "bytes": list(bs)}
    name = PID_NAMES.get(lo, "?")
    if name in ("ACK", "NAK", "STALL", "NYET"):
        if len(bs) == 1:
            return {"kind": "hs", "pid": name}
        return {"kind": "bad", "why": "handshake_length", "bytes": list(bs)}
    if name in ("DATA0", "DATA1", "DATA2", "MDATA"):
        if len(bs) < 3:
            return {"kind": "bad", "why": "data_too_short", "bytes": list(bs)}
        payload = list(bs[1:-2])
        c = bs[-2] | (bs[-1] << 8)
        return {"kind": "data", "pid": name, "payload": payload, "crc_ok": c == crc16(payload)}
    return {"kind": "bad", "why": "unexpected_pid_" + name, "bytes": list(bs)}


class UTMIHost:
    """Host + PHY model bound to a UTMIInterface record and an amaranth.sim testbench context."""

    LINE_J = 1
    LINE_K = 2

    def __init__(self, utmi, rng, domain="usb", gap_prob=0.0, stall_prob=0.0, max_stall=3):
        self.utmi = utmi
        self.rng = rng
        self.domain = domain
        self.gap_prob = gap_prob
        self.stall_prob = stall_prob
        self.max_stall = max_stall
        self.log = []
        self.cycle_no = 0
        self.last_rx_end = None     # cycle number at which the last host packet ended
        self.rx_busy = False
        self._burst = None          # device packet being assembled
        self._stalls = 0
        self.device_packets = []    # completed device packets (also in log)
        self.tx_valid_while_rx = 0  # cycles with device tx_valid while the host was sending
        self.extra_probe = None     # optional callable(ctx, host) run every cycle (after sampling)

    # ---- one clock cycle -------------------------------------------------------------------
    async def cycle(self, ctx, active=0, valid=0, data=0):
        u = self.utmi
        ctx.set(u.rx_active, active)
        ctx.set(u.rx_valid, valid)
        ctx.set(u.rx_data, data)
        ctx.set(u.line_state, self.LINE_K if active else self.LINE_J)
        # PHY accepts a byte whenever tx_ready is high; stalls are bounded
        if self.stall_prob and self._stalls < self.max_stall and self.rng.random() < self.stall_prob:
            ready = 0
            self._stalls += 1
        else:
            ready = 1
            self._stalls = 0
        ctx.set(u.tx_ready, ready)
        tv = ctx.get(u.tx_valid)
        td = ctx.get(u.tx_data)
        if tv:
            if active:
                self.tx_valid_while_rx += 1
            if self._burst is None:
                self._burst = {"start": self.cycle_no, "bytes": [], "overlap_rx": bool(active),
                               "since_rx_end": None if self.last_rx_end is None else self.cycle_no - self.last_rx_end}
            elif active:
                self._burst["overlap_rx"] = True
            if ready:
                self._burst["bytes"].append(td)
        elif self._burst is not None:
            b = self._burst
            self._burst = None
            ev = {"e": "dev", "start": b["start"], "end": self.cycle_no, "since_rx_end": b["since_rx_end"],
                  "overlap_rx": b["overlap_rx"]}
            ev.update(classify_device_packet(b["bytes"]))
            self.device_packets.append(ev)
            self.log.append(ev)
        if self.extra_probe is not None:
            self.extra_probe(ctx, self)
        await ctx.tick(self.domain)
        self.cycle_no += 1

    async def idle(self, ctx, n=1):
        for _ in range(n):
            await self.cycle(ctx)

    # ---- host packets ----------------------------------------------------------------------
    async def send_raw(self, ctx, octets, gaps=None, abort_after=None):
        """Present a packet on the UTMI receive side.  gaps[i] = idle-valid cycles before byte i."""
        self.rx_busy = True
        await self.cycle(ctx, active=1, valid=0, data=0)          # rx_active rises first
        for i, b in enumerate(octets):
            if abort_after is not None and i >= abort_after:
                break
            g = gaps[i] if gaps is not None else (1 if self.gap_prob and self.rng.random() < self.gap_prob else 0)
            for _ in range(g):
                await self.cycle(ctx, active=1, valid=0, data=self.rng.randrange(256) if self.rng else 0)
            await self.cycle(ctx, active=1, valid=1, data=b)
        self.rx_busy = False
        self.last_rx_end = self.cycle_no
        await self.cycle(ctx, active=0, valid=0, data=0)

    async def token(self, ctx, pid, addr, ep, corrupt_crc=False):
        self.log.append({"e": "tok", "pid": pid, "addr": addr, "ep": ep, "crc_ok": not corrupt_crc})
        await self.send_raw(ctx, token_bytes(pid, addr, ep, corrupt_crc))

    async def sof(self, ctx, frame, corrupt_crc=False):
        self.log.append({"e": "sof", "frame": frame, "crc_ok": not corrupt_crc})
        await self.send_raw(ctx, sof_bytes(frame, corrupt_crc))

    async def data(self, ctx, pid, payload, corrupt_crc=False):
        self.log.append({"e": "data", "pid": pid, "payload": list(payload), "crc_ok": not corrupt_crc})
        await self.send_raw(ctx, data_bytes(pid, payload, corrupt_crc))

    async def handshake(self, ctx, pid):
        self.log.append({"e": "hs", "pid": pid})
        await self.send_raw(ctx, [pid_byte(pid)])

    async def garbage(self, ctx, octets):
        self.log.append({"e": "raw", "bytes": list(octets)})
        await self.send_raw(ctx, octets)

    # ---- device responses ------------------------------------------------------------------
    async def wait_response(self, ctx, timeout=40):
        """Wait for the device's next packet; returns its event, or {"kind": "none"} on timeout."""
        n0 = len(self.device_packets)
        for _ in range(timeout):
            await self.cycle(ctx)
            if len(self.device_packets) > n0:
                return self.device_packets[-1]
            if self._burst is not None:
                # a packet is in flight: let it finish (bounded)
                for _ in range(3000):
                    await self.cycle(ctx)
                    if len(self.device_packets) > n0:
                        return self.device_packets[-1]
                ev = {"e": "dev", "kind": "bad", "why": "never_ends"}
                self.log.append(ev)
                return ev
        ev = {"e": "dev", "kind": "none"}
        self.log.append(ev)
        return ev

    # ---- transactions ----------------------------------------------------------------------
    async def setup(self, ctx, addr, request8, ep=0, corrupt_crc=False, timeout=40):
        await self.token(ctx, "SETUP", addr, ep)
        await self.idle(ctx, 2)
        await self.data(ctx, "DATA0", request8, corrupt_crc)
        return await self.wait_response(ctx, timeout)

    async def in_transaction(self, ctx, addr, ep, ack=True, timeout=40):
        """IN token; returns the device's answer; ACKs data when `ack`."""
        await self.token(ctx, "IN", addr, ep)
        r = await self.wait_response(ctx, timeout)
        if r.get("kind") == "data" and ack:
            await self.idle(ctx, 2)
            await self.handshake(ctx, "ACK")
            await self.idle(ctx, 2)
        return r

    async def out_transaction(self, ctx, addr, ep, pid, payload, corrupt_crc=False, timeout=40, tok="OUT"):
        await self.token(ctx, tok, addr, ep)
        await self.idle(ctx, 2)
        await self.data(ctx, pid, payload, corrupt_crc)
        return await self.wait_response(ctx, timeout)


def setup_bytes(bmRequestType, bRequest, wValue, wIndex, wLength):
    return [bmRequestType & 0xFF, bRequest & 0xFF, wValue & 0xFF, (wValue >> 8) & 0xFF,
            wIndex & 0xFF, (wIndex >> 8) & 0xFF, wLength & 0xFF, (wLength >> 8) & 0xFF]


def prime_device(ctx, dev):
    """Static inputs that put a UTMI-attached USBDevice into normal full-speed operation."""
    ctx.set(dev.connect, 1)
    ctx.set(dev.full_speed_only, 1)
    ctx.set(dev.utmi.line_state, 1)
    ctx.set(dev.utmi.tx_ready, 1)
