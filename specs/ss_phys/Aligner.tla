------------------------------- MODULE Aligner -------------------------------
(***************************************************************************)
(* Reference specification of receive word alignment (RxWordAligner,        *)
(* RxPacketAligner; property C34).  Grain: one clock cycle / one word.      *)
(*                                                                         *)
(*  Env : per cycle [valid, w]; w = four symbols (0..511, bit 8 = K flag).  *)
(*        Assumption Unambiguous: at most one alignment pattern starts in   *)
(*        any window of two consecutive words at byte offsets 0..3 (COM     *)
(*        runs are exactly four long) - the property does not say which     *)
(*        offset would win otherwise.                                       *)
(*  Ref : the symbol stream is looked at through a window of the previous   *)
(*        valid word followed by the current one (8 symbols).  off is the   *)
(*        current byte offset.  If one of Patterns starts at offset k of    *)
(*        the window, off becomes k.  The word presented for this input     *)
(*        word is window[off .. off+3] at the (new) offset.  Invalid        *)
(*        cycles consume nothing and present nothing.                       *)
(*  Prop: (MCAligner) the pattern is presented as a whole word; the output  *)
(*        symbol stream is the input symbol stream, contiguous (no symbol   *)
(*        lost or duplicated) across any two consecutive words with the     *)
(*        same offset; the offset changes only on a pattern.                *)
(***************************************************************************)
EXTENDS Naturals, Sequences, FiniteSets

CONSTANT Patterns            \* the 4-symbol sequences that define alignment

COM == 256 + 188
SHP == 256 + 251
SLC == 256 + 254
EPF == 256 + 247
WordAlignerPatterns   == { <<COM, COM, COM, COM>> }
PacketAlignerPatterns == { <<SHP, SHP, SHP, EPF>>, <<SLC, SLC, SLC, EPF>> }

Unknown == 999               \* a symbol position whose content the property does not fix (before the first word)

Window(prev, w) == prev \o w
At(win, k)      == SubSeq(win, k + 1, k + 4)
Matches(prev, w) == {k \in 0..3 : At(Window(prev, w), k) \in Patterns}
Unambiguous(prev, w) == Cardinality(Matches(prev, w)) <= 1

NewOff(off, prev, w) == IF Matches(prev, w) = {} THEN off ELSE CHOOSE k \in Matches(prev, w) : TRUE
OutWord(off, prev, w) == At(Window(prev, w), NewOff(off, prev, w))

\* observed word o agrees with expected word e (Unknown positions are free)
Agrees(e, o) == \A k \in 1..4 : e[k] = Unknown \/ e[k] = o[k]
=============================================================================
