-------------------------------- MODULE MCLfps --------------------------------
(***************************************************************************)
(* Bounded model of the Lfps detector Ref: Env picks every burst length and *)
(* every start-to-start period from the boundary values                     *)
(*   {min-1, min, typ, max, max+1} (cycles, at clock period Period);        *)
(* the ghost history keeps the raw durations and Prop re-states the         *)
(* property over that history, independently of the incremental state.      *)
(***************************************************************************)
EXTENDS Lfps, TLC

CONSTANTS Period, PatName, MaxBursts,
          AvoidKF      \* TRUE: Env stays clear of the trigger of open finding C42-stale-edge (KF_StaleEdge)

Pc == InCycles(Table[PatName], Period)

VARIABLES st, phase,          \* Ref state; "low" / "high"
          det,                \* Ref output of the last event
          bursts, periods,    \* ghost: burst lengths; start-to-start periods
          in                  \* last event [e, dt]

vars == <<st, phase, det, bursts, periods, in>>

Mid(a, b) == (a + b) \div 2
BurstChoices  == {Pc.bmin - 1, Pc.bmin, IF Pc.btyp > 0 THEN Pc.btyp ELSE Mid(Pc.bmin, Pc.bmax), Pc.bmax, Pc.bmax + 1} \ {0}
PeriodChoices == IF Pc.periodic THEN {Pc.rmin - 1, Pc.rmin, Pc.rtyp, Pc.rmax, Pc.rmax + 1, Pc.rmax + 2}
                 ELSE {Pc.bmax + 5}

\* Open finding C42-stale-edge: the gateware misses a burst that begins in the very cycle its state machine has
\* returned to waiting.  As an Env predicate over the last burst b and the gap g that follows it:
KF_StaleEdge(b, g) == \/ (g = 1 /\ (~Pc.periodic \/ b < Pc.bmin))
                      \/ (Pc.periodic /\ BurstOK(Pc, b) /\ b + g = Pc.rmax + 1)

Init == /\ st = DetInit /\ phase = "low" /\ det = FALSE
        /\ bursts = <<>> /\ periods = <<>> /\ in = [e |-> "start", dt |-> 0]

\* first burst starts after an arbitrary gap (7)
Rise == /\ phase = "low" /\ Len(bursts) < MaxBursts
        /\ \E p \in PeriodChoices :
             LET g == IF bursts = <<>> THEN 7 ELSE p - bursts[Len(bursts)] IN
             /\ g >= 1
             /\ (AvoidKF /\ bursts # <<>>) => ~KF_StaleEdge(bursts[Len(bursts)], g)
             /\ in' = [e |-> "rise", dt |-> g]
             /\ det' = RiseDetect(Pc, st, g)
             /\ st' = DetRise(Pc, st, g)
             /\ periods' = IF bursts = <<>> THEN periods ELSE Append(periods, p)
        /\ phase' = "high" /\ UNCHANGED bursts

Fall == /\ phase = "high"
        /\ \E b \in BurstChoices :
             /\ in' = [e |-> "fall", dt |-> b]
             /\ det' = FallDetect(Pc, st, b)
             /\ st' = DetFall(Pc, st, b)
             /\ bursts' = Append(bursts, b)
        /\ phase' = "low" /\ UNCHANGED periods

Next == Rise \/ Fall
Spec == Init /\ [][Next]_vars

-----------------------------------------------------------------------------
(* Prop, over the raw history *)
n == Len(bursts)
m == Len(periods)
GoodPair(k) == BurstOK(Pc, bursts[k]) /\ PeriodOK(Pc, periods[k])     \* burst k and the period that starts with it

\* periodic: reported exactly at the Rise completing the second consecutive good pair
PeriodicExact ==
    (Pc.periodic /\ in.e = "rise") =>
        (det <=> (m >= 2 /\ GoodPair(m) /\ GoodPair(m - 1)))
\* non-repeating: reported exactly at the end of an in-window burst
SingleExact ==
    (~Pc.periodic /\ in.e = "fall") => (det <=> BurstOK(Pc, bursts[n]))
\* never at the other kind of edge
NeverElsewhere == /\ (Pc.periodic /\ in.e # "rise") => ~det
                  /\ (~Pc.periodic /\ in.e # "fall") => ~det
\* signalling outside the windows is never reported
NeverOutsideWindows ==
    det => IF Pc.periodic
           THEN /\ BurstOK(Pc, bursts[m]) /\ BurstOK(Pc, bursts[m - 1])
                /\ PeriodOK(Pc, periods[m]) /\ PeriodOK(Pc, periods[m - 1])
           ELSE BurstOK(Pc, bursts[n])
TableSane == /\ Pc.bmin >= 1 /\ Pc.bmin <= Pc.bmax
             /\ Pc.periodic => (Pc.rmin <= Pc.rtyp /\ Pc.rtyp <= Pc.rmax /\ Pc.bmax < Pc.rmin)
=============================================================================
