----------------------------- MODULE ConstGen -----------------------------
(***************************************************************************)
(* Reference specification of the constant-stream generators               *)
(*   luna.gateware.stream.generator.ConstantStreamGenerator                *)
(*   luna.gateware.stream.generator.StreamSerializer                       *)
(* (property C27), written from the property statement and the classes'    *)
(* doc-strings.                                                            *)
(*                                                                         *)
(* Grain: one step = one clock cycle of the generator's domain.            *)
(*   Env  : the inputs of the cycle (`in`): start strobe, start_position,  *)
(*          max_length, stream ready.  Assumptions (LegalInput):           *)
(*            - `start` is asserted only while no transmission is in       *)
(*              progress (i.e. strictly after the `done` pulse);           *)
(*            - start_position and max_length are held from the start      *)
(*              strobe until the transmission is over, unless the module   *)
(*              documents that they are applied at the strobe (cfg.latched);*)
(*            - the domain reset (in.rst) may be asserted in any cycle;    *)
(*            - the start position lies within the data (in words);        *)
(*            - max_length is any value of its port, 0 .. cfg.mlmax =       *)
(*              2^max_length_width - 1, which may be smaller or larger than  *)
(*              the constant;                                                *)
(*            - generators built without max_length always use the data    *)
(*              length; for big-endian constants the length limit does not *)
(*              cut inside a word (lane meaning undocumented there).       *)
(*   Ref  : which word the generator must present next (`k` words of the   *)
(*          current request `req` have been accepted), and therefore the   *)
(*          allowed outputs of the cycle (`out`): valid mask, the bytes in *)
(*          the valid lanes, first, last, done.  Where the property leaves *)
(*          freedom the Ref is a relation: up to MaxLat cycles may pass    *)
(*          between start and the first word, between two words (while no  *)
(*          word is on offer) and between the last word and `done`; lanes  *)
(*          outside the valid mask and first/last while valid = 0 are      *)
(*          unconstrained; a zero-length request may or may not pulse done.*)
(*   Prop : over the ghost log of accepted bytes / flags / done pulses:    *)
(*          the emitted bytes are exactly data[start ..) cut to max_length,*)
(*          first only on the first word, last only on the final word,     *)
(*          exactly one done pulse per non-empty transmission, nothing for *)
(*          a zero length limit.                                           *)
(***************************************************************************)
EXTENDS Naturals, Sequences

CONSTANT MaxLat        \* cycles of latency freedom (see above); the property fixes no timing

VARIABLES cfg,         \* configuration of the generator under test (constant through a behaviour):
                       \*   [data : Seq(0..255), w : {1,2,4} bytes per word, big : BOOLEAN (byte order of a word),
                       \*    haslen : BOOLEAN (has a max_length input), mlmax : largest value of that input,
                       \*    olen : BOOLEAN (has output_length)]
          phase,       \* "idle" | "streaming" | "finishing" | "zero"
          req,         \* [sp, ml] latched by the start strobe
          k,           \* words of the current transmission accepted so far
          wait,        \* cycles spent waiting (bounded by MaxLat)
          offered,     \* a word is on offer (valid seen, not accepted yet): it may not be withdrawn
          in,          \* Env: inputs of the cycle that led to this state
          out,         \* outputs observed / predicted in that cycle
          emitted,     \* ghost: bytes accepted in this transmission, in stream order
          firsts,      \* ghost: `first` flag of each accepted word
          lasts,       \* ghost: `last` flag of each accepted word
          dones        \* ghost: done pulses since the last start strobe

vars == <<cfg, phase, req, k, wait, offered, in, out, emitted, firsts, lasts, dones>>

Min(a, b) == IF a < b THEN a ELSE b

-----------------------------------------------------------------------------
(* What a request (start position sp in words, length limit ml in bytes) must produce. *)
NBytes(c)        == Len(c.data)
NWordsTotal(c)   == (NBytes(c) + c.w - 1) \div c.w
Avail(c, r)      == NBytes(c) - r.sp * c.w                   \* bytes from the start word to the end
Count(c, r)      == Min(r.ml, Avail(c, r))                   \* bytes to be sent
NW(c, r)         == (Count(c, r) + c.w - 1) \div c.w         \* words to be sent
Slice(c, r)      == SubSeq(c.data, r.sp * c.w + 1, r.sp * c.w + Count(c, r))

WBase(c, r, j)   == (r.sp + j) * c.w                         \* data offset of word j of the transmission
WChunk(c, r, j)  == Min(c.w, NBytes(c) - WBase(c, r, j))     \* bytes the constant holds for that word
WValid(c, r, j)  == Min(c.w, Count(c, r) - j * c.w)          \* bytes of that word that are sent
Mask(n)          == 2 ^ n - 1                                \* n low valid bits
ExpMask(c, n)    == IF c.v1 THEN 1 ELSE Mask(n)              \* streams with a single valid bit per word

\* Stream byte i (1-based) of word j sits in lane (1-based): little-endian lane i; big-endian: the
\* word is the big-endian integer of its chunk, so the chunk's first byte is in the highest lane.
LaneOf(c, r, j, i) == IF c.big THEN WChunk(c, r, j) - i + 1 ELSE i

LegalReq(c, r) ==
    /\ r.sp < NWordsTotal(c)
    /\ (~c.haslen => r.ml = NBytes(c))
    /\ (c.haslen => r.ml <= c.mlmax)         \* whole range of the max_length port: 0 .. 2^max_length_width - 1
    /\ ((c.big \/ c.v1) => \A j \in 0..(NW(c, r) - 1) : WValid(c, r, j) = WChunk(c, r, j))

-----------------------------------------------------------------------------
Init0 == /\ phase = "idle"
         /\ req = [sp |-> 0, ml |-> 0]
         /\ k = 0 /\ wait = 0 /\ offered = FALSE
         /\ in = [start |-> FALSE, sp |-> 0, ml |-> 0, ready |-> FALSE, rst |-> FALSE]
         /\ out = [valid |-> 0, lanes |-> <<>>, first |-> FALSE, last |-> FALSE, done |-> FALSE, olen |-> 0]
         /\ emitted = <<>> /\ firsts = <<>> /\ lasts = <<>> /\ dones = 0

(* Env assumptions, as named clauses (the trace specification reports the first one violated). *)
Held(i)     == i.sp = req.sp /\ i.ml = req.ml
E_start(i)  == i.start => (phase = "idle" /\ ~i.rst)
\* cfg.latched: the module documents that start_position / max_length are applied when start is pulsed
\* (ConstantStreamGenerator); otherwise they must be held (StreamSerializer documents nothing).
E_held(i)   == (phase # "idle" /\ ~cfg.latched /\ ~i.rst) => Held(i)
E_req(i)    == i.start => LegalReq(cfg, [sp |-> i.sp, ml |-> i.ml])
\* Open finding C27-first-follows-live-start-position: `first` is computed from the live start_position input.
\* Trigger: start_position differs from the latched request while a transmission is in progress; clean stimuli never do.
KF_InputsChanged(i) == phase # "idle" /\ ~i.rst /\ i.sp # req.sp
E_clean(i)  == cfg.clean => ~KF_InputsChanged(i)
LegalInput(i) == E_start(i) /\ E_held(i) /\ E_req(i) /\ E_clean(i)

(* Observation relation, as named clauses evaluated in the state before the step. *)
BeatNow(o)     == phase = "streaming" /\ o.valid # 0
O_valid(o)     == IF phase = "streaming" THEN o.valid \in {0, ExpMask(cfg, WValid(cfg, req, k))} ELSE o.valid = 0
O_withdrawn(o) == (phase = "streaming" /\ o.valid = 0) => ~offered
O_latency(o)   == (phase = "streaming" /\ o.valid = 0) => wait < MaxLat
O_lanes(o)     == BeatNow(o) => /\ Len(o.lanes) = cfg.w
                                /\ \A i \in 1..WValid(cfg, req, k) :
                                      o.lanes[LaneOf(cfg, req, k, i)] = cfg.data[WBase(cfg, req, k) + i]
O_first(o)     == BeatNow(o) => (o.first <=> k = 0)
O_last(o)      == BeatNow(o) => (o.last <=> k = NW(cfg, req) - 1)
O_olen(o)      == (BeatNow(o) /\ cfg.olen /\ req.sp = 0) => o.olen = Count(cfg, req)
O_done(o)      == o.done => phase \in {"finishing", "zero"}
O_donelat(o)   == (phase = "finishing" /\ ~o.done) => wait < MaxLat

OutOK(o) == /\ O_valid(o) /\ O_withdrawn(o) /\ O_latency(o) /\ O_lanes(o) /\ O_first(o) /\ O_last(o)
            /\ O_olen(o) /\ O_done(o) /\ O_donelat(o)

\* bytes of the word on offer, in stream order, as *observed* in the lanes
ObservedBytes(o) == [i \in 1..WValid(cfg, req, k) |-> o.lanes[LaneOf(cfg, req, k, i)]]

(* One clock cycle with inputs i in which outputs o were observed (LegalInput(i) /\ OutOK(o)). *)
Step(i, o) ==
  /\ in' = i /\ out' = o /\ cfg' = cfg
  /\ CASE i.rst ->          \* reset of the generator's clock domain: whatever was going on is abandoned, the
                            \* generator is idle from the next cycle on and a later start is served normally
            /\ phase' = "idle" /\ k' = 0 /\ wait' = 0 /\ offered' = FALSE
            /\ req' = [sp |-> 0, ml |-> 0]
            /\ emitted' = <<>> /\ firsts' = <<>> /\ lasts' = <<>> /\ dones' = 0
       [] ~i.rst /\ phase = "idle" ->
            IF i.start
            THEN LET r == [sp |-> i.sp, ml |-> i.ml] IN
                 /\ req' = r /\ k' = 0 /\ wait' = 0 /\ offered' = FALSE
                 /\ emitted' = <<>> /\ firsts' = <<>> /\ lasts' = <<>> /\ dones' = 0
                 /\ phase' = IF Count(cfg, r) = 0 THEN "zero" ELSE "streaming"
            ELSE UNCHANGED <<phase, req, k, wait, offered, emitted, firsts, lasts, dones>>
       [] ~i.rst /\ phase = "streaming" ->
            IF o.valid = 0
            THEN /\ wait' = wait + 1
                 /\ UNCHANGED <<phase, req, k, offered, emitted, firsts, lasts, dones>>
            ELSE IF i.ready
                 THEN /\ k' = k + 1 /\ wait' = 0 /\ offered' = FALSE
                      /\ emitted' = emitted \o ObservedBytes(o)
                      /\ firsts' = Append(firsts, o.first) /\ lasts' = Append(lasts, o.last)
                      /\ phase' = IF k + 1 = NW(cfg, req) THEN "finishing" ELSE "streaming"
                      /\ UNCHANGED <<req, dones>>
                 ELSE /\ offered' = TRUE
                      /\ UNCHANGED <<phase, req, k, wait, emitted, firsts, lasts, dones>>
       [] ~i.rst /\ phase = "finishing" ->
            IF o.done
            THEN /\ phase' = "idle" /\ dones' = dones + 1 /\ wait' = 0
                 /\ UNCHANGED <<req, k, offered, emitted, firsts, lasts>>
            ELSE /\ wait' = wait + 1
                 /\ UNCHANGED <<phase, req, k, offered, emitted, firsts, lasts, dones>>
       [] ~i.rst /\ phase = "zero" ->      \* nothing may be emitted; a done pulse is optional
            IF o.done \/ wait >= MaxLat
            THEN /\ phase' = "idle" /\ dones' = dones + (IF o.done THEN 1 ELSE 0) /\ wait' = 0
                 /\ UNCHANGED <<req, k, offered, emitted, firsts, lasts>>
            ELSE /\ wait' = wait + 1
                 /\ UNCHANGED <<phase, req, k, offered, emitted, firsts, lasts, dones>>

-----------------------------------------------------------------------------
(* Prop -- the property, over the ghost log. *)
IsPrefix(s, t) == Len(s) <= Len(t) /\ s = SubSeq(t, 1, Len(s))

\* what has been emitted so far is always a prefix of the requested slice ...
EmittedIsPrefix  == IsPrefix(emitted, Slice(cfg, req))
\* ... and when the generator reports completion it is exactly the slice
EmittedIsSlice   == (phase = "finishing" \/ dones > 0) => emitted = Slice(cfg, req)
\* `first` on the first word only, `last` on the final word only
FirstOnFirstOnly == \A j \in 1..Len(firsts) : firsts[j] <=> j = 1
LastOnFinalOnly  == \A j \in 1..Len(lasts) : lasts[j] <=> (j = NW(cfg, req))
WordsBounded     == Len(firsts) = k /\ Len(lasts) = k /\ k <= NW(cfg, req)
\* the valid masks cover exactly the bytes sent: bytes accepted = whole words + the partial final word
MaskCoversBytes  == Len(emitted) = Min(k * cfg.w, Count(cfg, req))
\* done: never more than once per start, and only when the transmission is complete
DoneOnce         == dones <= 1 /\ (dones = 1 => k = NW(cfg, req))
\* nothing is emitted when the length limit is zero
NothingWhenZero  == req.ml = 0 => (emitted = <<>> /\ k = 0)

PropInv == /\ EmittedIsPrefix /\ EmittedIsSlice /\ FirstOnFirstOnly /\ LastOnFinalOnly
           /\ WordsBounded /\ MaskCoversBytes /\ DoneOnce /\ NothingWhenZero
=============================================================================
