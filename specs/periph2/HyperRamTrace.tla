--------------------------- MODULE HyperRamTrace ---------------------------
(***************************************************************************)
(* Trace validation for HyperRam.  Per-cycle records from the real         *)
(* HyperRAMInterface (PHY record + user port):                              *)
(*   [start, write, reg, single, ahi, alo, final, wdata, rwds  -- inputs    *)
(*    cs, clk_en, dq_e, dq_o, rwds_e, rwds_o, idle, write_ready, read_ready *)
(*    end]                                                                  *)
(* The last record of a trace has end = TRUE (taken after the bench waited *)
(* for the interface to go quiet): every accepted request must have been   *)
(* carried out by then.                                                    *)
(***************************************************************************)
EXTENDS HyperRam, TLC, TLCExt, Json, IOUtils

Logs == JsonDeserialize(IOEnv.TRACE_FILE)

VARIABLES tid, l, status
tvars == <<vars, tid, l, status>>

ASSUME \A i \in 1..Len(Logs) : TLCSet(i, <<0, "ok">>)

Rec == Logs[tid][l]

InOf(r) == [start |-> r.start, write |-> r.write, reg |-> r.reg, single |-> r.single, ahi |-> r.ahi, alo |-> r.alo,
            final |-> r.final, wdata |-> r.wdata, rwds |-> r.rwds, rst |-> r.rst]
OutOf(r) == [cs |-> r.cs, clk_en |-> r.clk_en, dq_e |-> r.dq_e, dq_o |-> r.dq_o, rwds_e |-> r.rwds_e,
             rwds_o |-> r.rwds_o, idle |-> r.idle, write_ready |-> r.write_ready, read_ready |-> r.read_ready]

TInit == /\ Init
         /\ tid \in 1..Len(Logs)
         /\ l = 1
         /\ status = "ok"

TNext == /\ status = "ok"
         /\ l <= Len(Logs[tid])
         /\ LET r == Rec IN
              IF r.end
              THEN /\ status' = IF cur.active \/ nxt.active THEN "transaction_not_completed" ELSE "ok"
                   /\ UNCHANGED vars
              ELSE /\ status' = Viol(InOf(r), OutOf(r))
                   /\ Update(InOf(r), OutOf(r))
         /\ l' = l + 1
         /\ UNCHANGED tid

TSpec == TInit /\ [][TNext]_tvars

TraceProp == CommandDecodes /\ WrittenIsAccepted /\ DataLatency /\ NoContention

\* verdict of the state just reached; a trace is not followed beyond a failed clause or invariant
Verdict == IF status # "ok" THEN status ELSE IF TraceProp THEN "ok" ELSE "prop_invariant"
Progress == TLCSet(tid, <<l - 1, Verdict>>) /\ Verdict = "ok"

Verdicts == JsonSerialize(IOEnv.VERDICT_FILE, [i \in 1..Len(Logs) |-> TLCGet(i)])
=============================================================================
