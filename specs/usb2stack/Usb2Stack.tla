----------------------------- MODULE Usb2Stack -----------------------------
(***************************************************************************)
(* The USB2 device *as seen through its PHY*: composition engine usb2stack *)
(* (EXTRA sub-checks of C20, C22, C23, C25, C57; timing of C05).           *)
(*                                                                         *)
(* DUT  : ULPI PHY model  -> real UTMITranslator -> real USBDevice         *)
(*        (USBSerialDevice(bus = ULPI record)), and                        *)
(*        FS line (D+/D-) -> real GatewarePHY    -> real USBDevice.        *)
(*                                                                         *)
(* Grain: one step = one packet crossing the PHY boundary (`hp` = a host   *)
(* packet the PHY delivered, `dp` = a packet the device handed to the PHY: *)
(* TXCMD + bytes + STP on ULPI, SYNC..EOP symbols on the line), or one     *)
(* transaction-grain step of UsbSerial (verbatim copy of                   *)
(* specs/usbserial/UsbSerial.tla: Ctl / Out / In / TxBeats / RxBeats /     *)
(* End).  The transaction records are *the same* as at the UTMI boundary:  *)
(* whatever legal NXT / RxCmd / DIR / bit-stuff pattern the PHY used, the  *)
(* device must behave as UsbSerial allows.                                 *)
(*                                                                         *)
(*   Env  : HostPkt(h)  -- token / data / handshake / SOF / junk, with the *)
(*          host's own statement of address, endpoint and CRC validity;    *)
(*          the measurements gap/blk of a `dp` (taken by the bench).       *)
(*   Ref  : sol -- what the device may transmit next (nothing, an answer   *)
(*          to an IN token, a handshake for a data packet), tok -- the     *)
(*          standing OUT/SETUP token, pk -- device packets seen at the PHY *)
(*          since the last transaction record, composed with UsbSerial.    *)
(*   Prop : every device packet is intact at the PHY (PhyFail), is well    *)
(*          formed (PacketFail: handshake = one byte with a valid PID,     *)
(*          data packet with correct CRC16, bit-serial from lib/CRC.tla),  *)
(*          is solicited (SolFail), comes inside the inter-packet window   *)
(*          of the speed measured at the PHY boundary (TimeFail, C05), and *)
(*          is exactly what the transaction record reports (xxWireFail).   *)
(***************************************************************************)
EXTENDS UsbSerial, CRC, LineCode

VARIABLES sol,      \* "none" | "in" (answer to an IN token owed/allowed) | "hs" (handshake for a data packet)
          tok,      \* "none" | "out" | "setup": standing OUT/SETUP token addressed to this device
          pk,       \* device packets at the PHY boundary since the last transaction record: <<[pid, payload]>>
          bus       \* bus-level state: [spd |-> "fs"|"hs" (negotiated speed), susp |-> suspended, att |-> VBUS present and
                    \*  connected, fresh |-> a bus reset happened (data toggles unspecified from then on),
                    \*  needrst |-> the host must reset the bus before the next transaction (after re-attachment)]

wvars == <<sol, tok, pk, bus>>
svars == <<vars, sol, tok, pk, bus>>

WInit == /\ sol = "none" /\ tok = "none" /\ pk = <<>>
         /\ bus = [spd |-> "fs", susp |-> FALSE, att |-> TRUE, fresh |-> FALSE, needrst |-> FALSE]
SInit == Init /\ WInit

-----------------------------------------------------------------------------
(* Packet identifiers [USB2 Table 8-1] *)
PID_ACK == 2    PID_NAK == 10   PID_STALL == 14   PID_NYET == 6
PID_DATA0 == 3  PID_DATA1 == 11
HandshakePids(speed) == IF speed = "hs" THEN {PID_ACK, PID_NAK, PID_STALL, PID_NYET} ELSE {PID_ACK, PID_NAK, PID_STALL}
DataPids == {PID_DATA0, PID_DATA1}
PidByteOf(n) == n + 16 * (15 - n)          \* PID followed by its one's complement [8.3.1]

(* Inter-packet response window at the PHY boundary, in PHY clocks (C05):       *)
(* ULPI 60 MHz: FS 2 .. 6.5 bit times = 10 .. 32 clocks, HS 1 .. 24 clocks      *)
(* [USB2 7.1.18, ULPI 1.1 Fig. 18], plus PhyLatency: what the PHY interface     *)
(* itself may add between the device core's decision and the TXCMD standing on  *)
(* the bus (a free parameter of the composition).                               *)
(* FS line, in 48 MHz samples from the end of the EOP's SE0 to the first driven *)
(* sample: not before 2 bit times (8) and before the host's bus time-out of 16  *)
(* bit times (64) [USB2 7.1.18.1, 7.1.19.1].  The 6.5 bit-time device limit of  *)
(* 7.1.18.1 is measured inside the device by C05's timer; no property states it *)
(* at the pins (the gateware PHY's receive and transmit pipelines add several    *)
(* bit times), so it is reported as information only, not demanded here.        *)
GapMin(c) == IF c.phy = "ulpi" THEN (IF c.speed = "hs" THEN 1 ELSE 10) ELSE 8
GapMax(c) == IF c.phy = "ulpi" THEN (IF c.speed = "hs" THEN 24 ELSE 32) ELSE 64
PhyLatency(c) == c.lat

-----------------------------------------------------------------------------
(* Env: a host packet delivered by the PHY.                                      *)
(* h = [kind |-> "tok"|"data"|"hs"|"sof"|"junk", pid, addr, ep, crc_ok]          *)
HostPkt(h) ==
    LET mine == h.kind = "tok" /\ h.crc_ok /\ h.addr = addr
    IN /\ tok' = IF mine /\ h.pid = "OUT" THEN "out" ELSE IF mine /\ h.pid = "SETUP" THEN "setup" ELSE "none"
       /\ sol' = IF mine /\ h.pid = "IN" THEN "in"
                 ELSE IF h.kind = "data" /\ tok # "none" /\ h.crc_ok THEN "hs"
                 ELSE "none"
       /\ UNCHANGED <<pk, bus, vars>>

\* Env legality of talking to the device at all: attached, not suspended, reset after every re-attachment
HostPktEnv(h) == IF ~bus.att THEN "env_packet_while_detached"
                 ELSE IF bus.susp THEN "env_packet_while_suspended"
                 ELSE IF bus.needrst THEN "env_packet_before_reset_after_attach"
                 ELSE "ok"

-----------------------------------------------------------------------------
(* A packet the device handed to its PHY.                                        *)
(* ULPI: d = [cmd, bytes, stp_lag, stp_data, gap, blk, dirdrv]                   *)
(* line: d = [syms, gap, blk, rxov]                                              *)
WireBytes(c, d) == IF c.phy = "ulpi" THEN <<PidByteOf(d.cmd % 16)>> \o d.bytes ELSE Decode(d.syms).bytes

\* (1)+(3): the packet reaches the PHY intact and the link / the transmitter keeps to its side of the bus
PhyFail(c, d) ==
    IF c.phy = "ulpi" THEN
         IF d.cmd \div 16 # 4 THEN "txcmd_is_not_a_transmit_command"              \* 0100xxxx [ULPI 3.8.1.1]
         ELSE IF d.cmd % 16 = 0 THEN "txcmd_without_pid_in_normal_mode"
         ELSE IF d.stp_lag # 1 \/ d.stp_data # 0 THEN "stp_not_in_the_cycle_after_the_last_byte"
         ELSE IF d.dirdrv # 0 THEN "link_drives_the_bus_while_dir_is_high"
         ELSE "ok"
    ELSE LET dec == Decode(d.syms) IN
         IF ~dec.ok THEN (IF dec.why = "stuff" THEN "line_packet_bit_stuffing_wrong"
                         ELSE IF dec.why = "sync" THEN "line_packet_sync_wrong"
                         ELSE IF dec.why = "eop" THEN "line_packet_eop_wrong"
                         ELSE "line_packet_not_whole_bytes")
         ELSE IF d.syms # Encode(dec.bytes) THEN "line_packet_is_not_the_encoding_of_its_bytes"
         ELSE IF d.rxov THEN "transmits_on_the_line_while_receiving"
         ELSE "ok"

\* C20: a one-byte handshake with a valid PID, or a data packet whose CRC16 is correct
PacketFail(c, w) ==
    IF Len(w) = 0 THEN "empty_packet"
    ELSE LET p == w[1] % 16 IN
         IF w[1] # PidByteOf(p) THEN "pid_check_field_wrong"
         ELSE IF p \in HandshakePids(c.speed) THEN (IF Len(w) = 1 THEN "ok" ELSE "handshake_longer_than_one_byte")
         ELSE IF p \in DataPids THEN
              (IF Len(w) < 3 THEN "data_packet_without_crc16"
               ELSE LET pl == SubSeq(w, 2, Len(w) - 2) IN
                    IF <<w[Len(w) - 1], w[Len(w)]>> = <<Usb2Crc16Lo(pl), Usb2Crc16Hi(pl)>> THEN "ok"
                    ELSE "data_crc16_wrong")
         ELSE "invalid_pid"

\* C20: only in response to a token / data packet addressed to the device, one packet per solicitation
SolFail(w) ==
    LET p == w[1] % 16 IN
    IF sol = "none" THEN "unsolicited_transmission"
    ELSE IF sol = "hs" /\ p \in DataPids THEN "data_packet_in_response_to_a_data_packet"
    ELSE IF sol = "in" /\ p = PID_ACK THEN "ack_in_response_to_an_in_token"
    ELSE "ok"

\* C05 at the PHY boundary: gap = clocks from the end of the host packet to the start of the device packet,
\* blk = how many of them the PHY itself kept the bus (RxCmds, turn-around)
TimeFail(c, d) ==
    IF d.gap < GapMin(c) THEN "response_before_the_minimum_inter_packet_gap"
    ELSE IF d.gap - d.blk > GapMax(c) + PhyLatency(c) THEN "response_after_the_inter_packet_deadline"
    ELSE "ok"

DevPktFail(c, d) ==
    LET f1 == PhyFail(c, d) IN
    IF f1 # "ok" THEN f1
    ELSE LET w == WireBytes(c, d)
             f2 == PacketFail(c, w) IN
         IF f2 # "ok" THEN f2
         ELSE LET f3 == SolFail(w) IN
              IF f3 # "ok" THEN f3 ELSE TimeFail(c, d)

DevPkt(c, d) ==
    LET w == WireBytes(c, d)
        p == w[1] % 16
    IN /\ pk' = Append(pk, [pid |-> p, payload |-> IF p \in DataPids THEN SubSeq(w, 2, Len(w) - 2) ELSE <<>>])
       /\ sol' = "none"
       /\ UNCHANGED <<tok, bus, vars>>

-----------------------------------------------------------------------------
(* The transaction records of UsbSerial must report exactly what crossed the PHY *)
Hs(n) == [pid |-> n, payload |-> <<>>]
HsPid(name) == IF name = "ACK" THEN PID_ACK ELSE IF name = "NAK" THEN PID_NAK ELSE IF name = "STALL" THEN PID_STALL
               ELSE IF name = "NYET" THEN PID_NYET ELSE 0

OutWireFail(resp) ==
    IF resp = "none" THEN (IF pk = <<>> THEN "ok" ELSE "device_packet_at_phy_not_reported_by_transaction")
    ELSE IF pk = <<Hs(HsPid(resp))>> THEN "ok" ELSE "transaction_response_differs_from_phy_boundary"

InWireFail(resp) ==
    IF resp.kind = "none" THEN (IF pk = <<>> THEN "ok" ELSE "device_packet_at_phy_not_reported_by_transaction")
    ELSE IF resp.kind \in {"NAK", "STALL"} THEN
         (IF pk = <<Hs(HsPid(resp.kind))>> THEN "ok" ELSE "transaction_response_differs_from_phy_boundary")
    ELSE IF resp.kind = "data" THEN
         (IF pk = <<[pid |-> IF resp.pid = 1 THEN PID_DATA1 ELSE PID_DATA0, payload |-> resp.payload]>> THEN "ok"
          ELSE "transaction_response_differs_from_phy_boundary")
    ELSE "ok"

RECURSIVE FlatPayloads(_)
FlatPayloads(s) == IF s = <<>> THEN <<>> ELSE Head(s).payload \o FlatPayloads(Tail(s))
IsDataPkt(x) == x.pid \in DataPids

CtlWireFail(req, outcome, data) ==
    LET datas == SelectSeq(pk, IsDataPkt) IN
    IF outcome = "no_response" THEN (IF pk = <<>> THEN "ok" ELSE "device_packet_at_phy_not_reported_by_transaction")
    ELSE IF outcome = "stall" THEN
         (IF Len(pk) > 0 /\ pk[Len(pk)].pid = PID_STALL THEN "ok" ELSE "transaction_response_differs_from_phy_boundary")
    ELSE IF outcome = "ok" /\ req.dirin /\ req.length > 0 THEN
         (IF FlatPayloads(datas) = data THEN "ok" ELSE "control_data_differs_from_phy_boundary")
    ELSE IF outcome = "ok" THEN
         (IF datas = <<[pid |-> PID_DATA1, payload |-> <<>>]>> THEN "ok" ELSE "status_stage_differs_from_phy_boundary")
    ELSE "ok"

\* token for the (never driven) interrupt endpoint, SOF, junk: a NAK for our own IN token, silence otherwise
QuietFail(a, isIn) ==
    IF a = addr /\ isIn THEN (IF pk = <<Hs(PID_NAK)>> THEN "ok" ELSE "idle_interrupt_endpoint_did_not_nak")
    ELSE IF pk = <<>> THEN "ok" ELSE "answered_packet_not_addressed_to_it"

Consumed == pk' = <<>> /\ UNCHANGED <<sol, tok, bus>>

-----------------------------------------------------------------------------
(* Bus events at line-state level (C08 "a bus reset returns the device to address 0 and configuration 0", C19 in           *)
(* composition).  The host drives them through the PHY's line-state reports (RxCmds); the record carries what the bench     *)
(* saw of the device during the event: r.chirp = clocks of NOPID transmission (chirp K: all-zero data, ended by STP with    *)
(* 0xFF), r.fc = the PHY's Function Control register after the event (transceiver / termination the device selected).       *)
FC_FS == 69      \* XcvrSelect = 01, TermSelect = 1, OpMode = 00, SuspendM = 1   [ULPI 1.1 Table 7 / UTMI+]
FC_HS == 64      \* XcvrSelect = 00, TermSelect = 0, OpMode = 00, SuspendM = 1

\* r = [from |-> "fs"|"hs", hs_host |-> host answers the chirp with >= 3 K-J pairs, chirp, chirp_nonzero, chirp_stp, fc]
ResetFail(r) ==
    IF ~bus.att THEN "env_reset_while_detached"
    ELSE IF pk # <<>> THEN "packet_transmitted_during_bus_reset"
    ELSE IF r.chirp = 0 THEN "high_speed_capable_device_did_not_chirp"            \* [USB2 7.1.7.5]
    ELSE IF r.chirp_nonzero # 0 \/ r.chirp_stp # 255 THEN "chirp_is_not_a_nopid_transmission_of_zeros_ended_by_ff"
    ELSE IF r.hs_host /\ r.fc # FC_HS THEN "not_high_speed_after_answered_chirp"
    ELSE IF ~r.hs_host /\ r.fc # FC_FS THEN "not_full_speed_after_unanswered_chirp"
    ELSE "ok"

\* every bus reset returns the device to address 0 / configuration 0 (whatever state -- active, suspended, full or high
\* speed -- it arrives in); the data toggles are unspecified until the device is configured again
BusReset(r) ==
    /\ addr' = 0 /\ cfg' = 0
    /\ bus' = [spd |-> IF r.hs_host THEN "hs" ELSE "fs", susp |-> FALSE, att |-> TRUE, fresh |-> TRUE, needrst |-> FALSE]
    /\ sol' = "none" /\ tok' = "none" /\ pk' = <<>>
    /\ UNCHANGED <<outTog, inTog, inFlight, zlpOwed, hostWritten, rxDelivered, txOffered, hostRead, known>>

\* suspend (>= 3 ms idle), resume (K), VBUS loss / return, soft disconnect / connect: none of them is a bus reset
BusEventFail(r) ==
    IF pk # <<>> THEN "packet_transmitted_during_bus_event"
    ELSE IF r.ev = "suspend" /\ (bus.susp \/ ~bus.att) THEN "env_suspend_of_suspended_or_detached_device"
    ELSE IF r.ev = "resume" /\ ~bus.susp THEN "env_resume_of_active_device"
    ELSE IF r.ev = "resume" /\ r.fc # (IF bus.spd = "hs" THEN FC_HS ELSE FC_FS) THEN "speed_not_restored_by_resume"
    ELSE "ok"

BusEvent(r) ==
    /\ bus' = CASE r.ev = "suspend" -> [bus EXCEPT !.susp = TRUE]
                [] r.ev = "resume"  -> [bus EXCEPT !.susp = FALSE]
                [] r.ev \in {"vbus_off", "disconnect"} -> [bus EXCEPT !.att = FALSE, !.susp = FALSE, !.needrst = TRUE, !.spd = "fs"]
                [] r.ev \in {"vbus_on", "connect"} -> [bus EXCEPT !.att = TRUE]
                [] OTHER -> bus
    /\ UNCHANGED <<sol, tok, pk, vars>>

\* bulk traffic for the device itself after a bus reset is outside the Env of this specification: what a reset does to
\* the data toggles / buffered data is not part of C08 or C57 (tokens for other addresses stay inside: silence required)
BulkEnv(a) == IF bus.fresh /\ a = addr THEN "env_bulk_traffic_for_the_device_after_a_bus_reset" ELSE "ok"

-----------------------------------------------------------------------------
(* Prop (state invariants of the composition) *)
WireTypeOK == /\ sol \in {"none", "in", "hs"} /\ tok \in {"none", "out", "setup"} /\ bus.spd \in {"fs", "hs"}
              /\ \A i \in 1..Len(pk) : pk[i].pid \in DataPids \cup {PID_ACK, PID_NAK, PID_STALL, PID_NYET}
\* between two transaction records the device transmitted at most what one control transfer can hold, and a standing
\* OUT/SETUP token never coexists with a solicitation (the device answers the data packet, not the token)
NeverBothSolicitations == ~(tok # "none" /\ sol # "none")
=============================================================================
