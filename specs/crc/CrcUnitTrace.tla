---------------------------- MODULE CrcUnitTrace ----------------------------
(***************************************************************************)
(* Trace validation of the real running-CRC modules against CrcUnit.       *)
(* A trace is [unit |-> module, steps |-> records], one record per cycle:   *)
(*   clear, n, bits            inputs of the cycle (n = bytes advanced)    *)
(*   crcs                      crc output(s) observed *before* the clock   *)
(*                             edge (one per attached interface)           *)
(*   nx                        payload unit only: <<next_crc_1B, _2B, _3B>>*)
(*   chk                       evaluate the whole-message Prop invariants  *)
(*                             on the state this cycle leads to            *)
(* all bit vectors in signal order.                                        *)
(***************************************************************************)
EXTENDS CrcUnit, TLC, TLCExt, Json, IOUtils

Logs == JsonDeserialize(IOEnv.TRACE_FILE)

VARIABLES tid, l, status, chk
tvars == <<uvars, tid, l, status, chk>>

ASSUME \A i \in 1..Len(Logs) : TLCSet(i, <<0, "ok">>)

InputOf(r) == [clear |-> r.clear, n |-> r.n, bits |-> r.bits]

\* named clauses of the observation relation, evaluated in the state *before* the step
Failing(r) ==
    IF ~LegalInput(InputOf(r)) THEN "env_illegal_input"
    ELSE IF \E q \in 1..Len(r.crcs) : r.crcs[q] # CrcOut THEN "crc_output"
    ELSE IF unit = "usb3_crc32" /\ r.nx[1] # NextOut(r.bits, 1) THEN "next_crc_1B"
    ELSE IF unit = "usb3_crc32" /\ r.nx[2] # NextOut(r.bits, 2) THEN "next_crc_2B"
    ELSE IF unit = "usb3_crc32" /\ r.nx[3] # NextOut(r.bits, 3) THEN "next_crc_3B"
    ELSE "ok"

TInit == /\ tid \in 1..Len(Logs)
         /\ UInit /\ unit = Logs[tid].unit
         /\ l = 1
         /\ status = "ok"
         /\ chk = FALSE

TNext == /\ status = "ok"
         /\ l <= Len(Logs[tid].steps)
         /\ LET r == Logs[tid].steps[l] IN
              /\ status' = Failing(r)
              /\ Step(InputOf(r))
              /\ chk' = r.chk
         /\ l' = l + 1
         /\ UNCHANGED tid

TSpec == TInit /\ [][TNext]_tvars

\* Prop invariants on observed states (the quadratic whole-message ones where the harness asked)
TraceProp == /\ UTypeOK
             /\ chk => (RunningEqualsWhole /\ ShownFieldAccepted)

\* the constraint is FALSE after a failure: the trace is not followed further, the verdict cannot be overwritten
Verdict == IF status # "ok" THEN status ELSE IF TraceProp THEN "ok" ELSE "prop_invariant"
Progress == TLCSet(tid, <<l - 1, Verdict>>) /\ Verdict = "ok"

Verdicts == JsonSerialize(IOEnv.VERDICT_FILE, [i \in 1..Len(Logs) |-> TLCGet(i)])
=============================================================================
