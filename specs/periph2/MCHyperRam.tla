---------------------------- MODULE MCHyperRam ----------------------------
(* Bounded instance of HyperRam for exhaustive TLC exploration. *)
EXTENDS HyperRam, TLC

CONSTANT MaxTxn            \* number of requests explored per behaviour

VARIABLES ntxn,            \* requests accepted so far (bounds the exploration)
          nrst             \* resets so far (at most one per behaviour is explored)

\* request alphabet: every flag both ways; addresses = corners and walking ones across the three command words
MCReqs == {[write |-> TRUE,  reg |-> FALSE, single |-> FALSE, ahi |-> 0,     alo |-> 1],
           [write |-> TRUE,  reg |-> TRUE,  single |-> FALSE, ahi |-> 32768, alo |-> 8],
           [write |-> FALSE, reg |-> FALSE, single |-> TRUE,  ahi |-> 65535, alo |-> 65535],
           [write |-> FALSE, reg |-> TRUE,  single |-> FALSE, ahi |-> 8,     alo |-> 4],
           [write |-> TRUE,  reg |-> FALSE, single |-> TRUE,  ahi |-> 7,     alo |-> 65528]}

MCInit == Init /\ ntxn = 0 /\ nrst = 0
Count == /\ ntxn' = IF out'.idle /\ in'.start /\ ~in'.rst THEN ntxn + 1 ELSE ntxn
         /\ nrst' = IF in'.rst THEN nrst + 1 ELSE nrst
MCFree    == FreeCycle /\ Count
MCAccept  == AcceptCycle /\ Count
MCWait    == WaitCycle /\ Count
MCCommand == CommandClock /\ Count
MCLatency == LatencyClock /\ Count
MCWrite   == WriteClock /\ Count
MCRead    == ReadClock /\ Count
MCDrain   == DrainCycle /\ Count
MCReset   == nrst = 0 /\ ResetCycle /\ Count
MCNext == MCReset \/ MCFree \/ MCAccept \/ MCWait \/ MCCommand \/ MCLatency \/ MCWrite \/ MCRead \/ MCDrain
MCSpec == MCInit /\ [][MCNext]_<<vars, ntxn, nrst>>

Bounded == ntxn <= MaxTxn /\ (ntxn = MaxTxn => (cur.active \/ ~in.start))
=============================================================================
