------------------------- MODULE IdleHandshakeTrace -------------------------
(* Trace validation for IdleHandshake (C44): one record [en, iw, cpl] per clock cycle of the real IdleHandshakeHandler. *)
EXTENDS IdleHandshake, TLC, TLCExt, Json, IOUtils

Logs == JsonDeserialize(IOEnv.TRACE_FILE)

VARIABLES st, tid, l, status
tvars == <<st, tid, l, status>>

ASSUME \A i \in 1..Len(Logs) : TLCSet(i, <<0, "ok">>)

TInit == /\ st = HsInit
         /\ tid \in 1..Len(Logs)
         /\ l = 1
         /\ status = "ok"

TNext == /\ status = "ok"
         /\ l <= Len(Logs[tid])
         /\ status' = HsFailing(st, Logs[tid][l])
         /\ st' = HsNext(st, Logs[tid][l])
         /\ l' = l + 1
         /\ UNCHANGED tid

TSpec == TInit /\ [][TNext]_tvars

Verdict == status
Progress == TLCSet(tid, <<l - 1, Verdict>>) /\ Verdict = "ok"

Verdicts == JsonSerialize(IOEnv.VERDICT_FILE, [i \in 1..Len(Logs) |-> TLCGet(i)])
=============================================================================
