------------------------------ MODULE SimSpiReg ------------------------------
(* Behaviour generator for spec -> code replay (tlc -simulate): the same events and the same *)
(* reference as MCSpiReg, but each transaction's length and ending are drawn when CS is       *)
(* asserted (`plan`), so that random walks produce whole transactions, aborts after every     *)
(* number of bits and extra clocks after the word with comparable frequency (a plain random   *)
(* walk over MCSpiReg!Next almost never clocks a whole word).                                 *)
EXTENDS MCSpiReg

VARIABLE plan      \* [n |-> bit events still to come in this transaction, end |-> "desel" | "mid" | "cut"]

svars == <<vars, plan>>

SimInit == Init /\ plan = [n |-> 0, end |-> "desel"]

SimNext ==
    \/ /\ phase = "idle"
       /\ \E n \in 0..(A + 1 + R + R + 1), en \in {"desel", "mid", "cut"} : plan' = [n |-> n, end |-> en]
       /\ EvSel
    \/ /\ phase # "idle" /\ plan.n > 0
       /\ EvBit
       /\ plan' = [plan EXCEPT !.n = @ - 1]
    \/ /\ phase # "idle" /\ plan.n = 0
       /\ IF plan.end = "mid" THEN EvMid ELSE IF plan.end = "cut" THEN EvCut ELSE EvDesel
       /\ UNCHANGED plan
    \/ /\ phase = "idle"
       /\ EvNoise \/ EvPoke \/ EvIdle
       /\ UNCHANGED plan

SimSpec == SimInit /\ [][SimNext]_svars
=============================================================================
