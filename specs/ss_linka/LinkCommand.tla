---------------------------- MODULE LinkCommand ----------------------------
(***************************************************************************)
(* USB3 link commands [USB3.2 7.2.2]: LinkCommandGenerator and             *)
(* LinkCommandDetector of luna/gateware/usb/usb3/link/command.py (C35).    *)
(*                                                                         *)
(* A link command is LCSTART (SLC SLC SLC EPF) followed by one word that   *)
(* carries the 16-bit link command word twice.  Link command word:         *)
(*   bits 3:0 sub-type, 6:4 reserved (0), 10:7 command (class[1:0] in      *)
(*   10:9, type[1:0] in 8:7), 15:11 CRC-5 over bits 10:0.                  *)
(*                                                                         *)
(* Grain: one step = one clock cycle of the "ss" domain.                   *)
(*  Env : generator controls (generate, command, subtype) and the sink's   *)
(*        ready; any word stream into the detector (valid or not).         *)
(*  Ref : generator = idle / header / command phases, latched request;     *)
(*        detector = armed flag + the report it still owes.                *)
(*        Both are relations between the cycle's inputs and the observed   *)
(*        outputs: the start latency of the generator and the report       *)
(*        latency of the detector are free within MaxStartLat/MaxReportLat.*)
(*  Prop: see MCLinkCommand (round trip, corruption rejection).            *)
(***************************************************************************)
EXTENDS SsLink

CONSTANTS MaxStartLat,     \* generator: cycles without output tolerated between acceptance and LCSTART
          MaxReportLat     \* detector: new_command at most this many cycles after the command word (>= 1)

-----------------------------------------------------------------------------
(* The wire format, from the standard. *)
\* CRC-5 of the 11 protected bits: the bit-serial definition of CRC.tla.  (Models and trace runs that
\* evaluate it thousands of times override Crc5 with a table that TLC builds from this same definition.)
Crc5(v11) == Usb3Crc5(v11)
LcInfo(cmd, sub) == sub + 128 * cmd                             \* bits 10:0 (reserved bits zero)
LcWord16(cmd, sub) == LcInfo(cmd, sub) + 2048 * Crc5(LcInfo(cmd, sub))
LcCommandWord(cmd, sub) ==                                      \* the word following LCSTART
    LET b == BytesOf16(LcWord16(cmd, sub)) IN W(b \o b, 0)

\* What a receiver may accept as a link command word [USB3.2 7.2.2.1]: no K symbols,
\* both copies identical, CRC-5 of the copy correct.  Reserved bits are not examined.
LcCrcOk(v16)  == Crc5(v16 % 2048) = v16 \div 2048
LcAccept(w)   == w.c = 0 /\ Lo16(w) = Hi16(w) /\ LcCrcOk(Lo16(w))
LcCmdOf(w)    == (Lo16(w) \div 128) % 16
LcSubOf(w)    == Lo16(w) % 16

-----------------------------------------------------------------------------
(* Generator reference.  State g = [st, cmd, sub, lat].                    *)
(* Inputs  gi = [gen, cmd, sub, rdy]; observed go = [w (word incl. v), done]. *)
GenInit == [st |-> "idle", cmd |-> 0, sub |-> 0, lat |-> 0]

\* name of the first violated clause ("ok" if the observed outputs are allowed)
GenFailing(g, gi, go) ==
    CASE g.st = "idle" ->
            IF go.w.v THEN "gen_output_while_idle"
            ELSE IF go.done THEN "gen_done_while_idle" ELSE "ok"
      [] g.st = "hdr" ->
            IF go.done THEN "gen_done_early"
            ELSE IF ~go.w.v THEN (IF g.lat < MaxStartLat THEN "ok" ELSE "gen_start_latency")
            ELSE IF ~SameWord(go.w, LCSTART) THEN "gen_lcstart_word" ELSE "ok"
      [] g.st = "cmd" ->
            IF ~go.w.v THEN "gen_gap_after_lcstart"
            ELSE IF go.w.c # 0 THEN "gen_command_ctrl"
            ELSE IF Lo16(go.w) # Hi16(go.w) THEN "gen_copies_differ"
            ELSE IF LcCmdOf(go.w) # g.cmd \/ LcSubOf(go.w) # g.sub
                    \/ (Lo16(go.w) \div 16) % 8 # 0 THEN "gen_command_fields"
            ELSE IF ~LcCrcOk(Lo16(go.w)) THEN "gen_command_crc5"
            ELSE IF go.done # gi.rdy THEN "gen_done" ELSE "ok"

GenNextState(g, gi, go) ==
    CASE g.st = "idle" ->
            IF gi.gen THEN [st |-> "hdr", cmd |-> gi.cmd, sub |-> gi.sub, lat |-> 0] ELSE g
      [] g.st = "hdr" ->
            IF ~go.w.v THEN [g EXCEPT !.lat = g.lat + 1]
            ELSE IF gi.rdy THEN [g EXCEPT !.st = "cmd"] ELSE g
      [] g.st = "cmd" ->
            IF gi.rdy THEN [g EXCEPT !.st = "idle"] ELSE g

\* The outputs a conforming generator may show in state g (used by the model to enumerate them).
GenOutputs(g) ==
    CASE g.st = "idle" -> {NoWord}
      [] g.st = "hdr"  -> {LCSTART} \cup (IF g.lat < MaxStartLat THEN {NoWord} ELSE {})
      [] g.st = "cmd"  -> {LcCommandWord(g.cmd, g.sub)}

-----------------------------------------------------------------------------
(* Detector reference.  State t = [armed, pend] where pend is <<>> or      *)
(* <<[cmd, sub, age]>>: the report still owed.                             *)
(* Input: the word on the sink this cycle.  Observed do = [nc, cmd, sub, cls, typ]. *)
(* Env assumption: the valid word that follows an LCSTART is not itself an *)
(* LCSTART (the standard does not say which of the two starts a command).  *)
DetInit == [armed |-> FALSE, pend |-> <<>>]

DetEnvOk(t, w) == ~(t.armed /\ IsSet(w, LCSTART))

DetFailing(t, w, do) ==
    IF do.nc THEN
        IF t.pend = <<>> THEN "det_spurious_report"
        ELSE IF do.cmd # t.pend[1].cmd THEN "det_command"
        ELSE IF do.sub # t.pend[1].sub THEN "det_subtype"
        ELSE IF do.cls # t.pend[1].cmd \div 4 THEN "det_class"
        ELSE IF do.typ # t.pend[1].cmd % 4 THEN "det_type"
        ELSE "ok"
    ELSE IF t.pend # <<>> /\ t.pend[1].age + 1 >= MaxReportLat THEN "det_report_missing"
    ELSE "ok"

DetNextState(t, w, do) ==
    LET p1 == IF do.nc \/ t.pend = <<>> THEN <<>>
              ELSE <<[t.pend[1] EXCEPT !.age = t.pend[1].age + 1]>>
    IN IF ~w.v THEN [t EXCEPT !.pend = p1]
       ELSE IF ~t.armed THEN [armed |-> IsSet(w, LCSTART), pend |-> p1]
       ELSE [armed |-> FALSE,
             pend  |-> IF LcAccept(w) THEN <<[cmd |-> LcCmdOf(w), sub |-> LcSubOf(w), age |-> 0]>> ELSE p1]

\* a command word arriving while an older report is still owed cannot be reported separately
DetOverrun(t, w, do) == w.v /\ t.armed /\ LcAccept(w) /\ ~do.nc /\ t.pend # <<>>

-----------------------------------------------------------------------------
(* Channel corruptions used by the Env: 0 = none, 1..32 = flip data bit k-1, *)
(* 33..36 = flip ctrl bit k-33, 37..52 = flip bit k-37 of *both* copies of   *)
(* the link command word (defeats the redundancy check, not the CRC-5).      *)
FlipData(w, j) == [w EXCEPT !.d[(j \div 8) + 1] = FlipBit(w.d[(j \div 8) + 1], j % 8)]
ApplyCorr(w, k) ==
    IF k = 0 THEN w
    ELSE IF k <= 32 THEN FlipData(w, k - 1)
    ELSE IF k <= 36 THEN [w EXCEPT !.c = FlipBit(w.c, k - 33)]
    ELSE FlipData(FlipData(w, k - 37), k - 37 + 16)

-----------------------------------------------------------------------------
(* Composition: generator -> channel (corruption, gaps, injected words) ->   *)
(* detector, one record r per clock cycle:                                   *)
(*   r.gen r.cmd r.sub r.rdy   generator inputs                              *)
(*   r.ow r.done               generator outputs observed (ow = word incl. v)*)
(*   r.corr                    corruption the channel applies to the word    *)
(*                             accepted this cycle (command words only)      *)
(*   r.src r.iw                detector input: "chan" (head of the channel), *)
(*                             "inj" (word injected by the Env) or "none"    *)
(*   r.nc r.dcmd r.dsub r.dcls r.dtyp   detector outputs observed            *)
(* State s = [g, t, chan, sent, njudged, reports, injected].                 *)
CompInit == [g |-> GenInit, t |-> DetInit, chan |-> <<>>, sent |-> <<>>, njudged |-> 0,
             reports |-> <<>>, injected |-> FALSE]

GenIn(r)  == [gen |-> r.gen, cmd |-> r.cmd, sub |-> r.sub, rdy |-> r.rdy]
GenOut(r) == [w |-> r.ow, done |-> r.done]
DetOut(r) == [nc |-> r.nc, cmd |-> r.dcmd, sub |-> r.dsub, cls |-> r.dcls, typ |-> r.dtyp]

CompFailing(s, r) ==
    LET gf == GenFailing(s.g, GenIn(r), GenOut(r)) IN
    IF gf # "ok" THEN gf
    ELSE IF r.corr # 0 /\ ~(s.g.st = "cmd" /\ r.ow.v /\ r.rdy) THEN "env_corruption_of_non_command"
    ELSE IF r.src = "chan" /\ (s.chan = <<>> \/ ~r.iw.v) THEN "env_channel_empty"
    ELSE IF r.src = "chan" /\ ~SameWord(r.iw, s.chan[1].w) THEN "env_channel_word"
    ELSE IF r.src = "none" /\ r.iw.v THEN "env_source"
    ELSE IF ~DetEnvOk(s.t, r.iw) THEN "env_double_lcstart"
    ELSE IF DetOverrun(s.t, r.iw, DetOut(r)) THEN "det_report_missing"
    ELSE DetFailing(s.t, r.iw, DetOut(r))

CompNext(s, r) ==
    LET pushed == r.ow.v /\ r.rdy
        iscmd  == s.g.st = "cmd"
        chan1  == IF r.src = "chan" THEN Tail(s.chan) ELSE s.chan
    IN [g       |-> GenNextState(s.g, GenIn(r), GenOut(r)),
        t       |-> DetNextState(s.t, r.iw, DetOut(r)),
        chan    |-> IF pushed THEN Append(chan1, [w |-> IF iscmd THEN ApplyCorr(r.ow, r.corr) ELSE r.ow,
                                                    cmd |-> iscmd])
                    ELSE chan1,
        sent    |-> IF pushed /\ iscmd
                    THEN Append(s.sent, [cmd |-> s.g.cmd, sub |-> s.g.sub, corr |-> r.corr]) ELSE s.sent,
        njudged |-> IF r.src = "chan" /\ s.chan[1].cmd THEN s.njudged + 1 ELSE s.njudged,
        reports |-> IF r.nc THEN Append(s.reports, [cmd |-> r.dcmd, sub |-> r.dsub]) ELSE s.reports,
        injected |-> s.injected \/ r.src = "inj"]

(* Prop (state predicates over the composite state). *)
\* C35, round trip: with nothing but generated traffic on the channel, the detector has reported
\* (or still owes, within its latency) exactly the uncorrupted commands judged so far, in order,
\* with the command and sub-type that were requested from the generator.
Uncorrupted(s) == SelectSeq(SubSeq(s.sent, 1, s.njudged), LAMBDA e : e.corr = 0)
OwedSeq(s) == IF s.t.pend = <<>> THEN <<>> ELSE <<[cmd |-> s.t.pend[1].cmd, sub |-> s.t.pend[1].sub]>>
RoundTrip(s) ==
    s.injected \/
    LET u == Uncorrupted(s) IN
    s.reports \o OwedSeq(s) = [i \in 1..Len(u) |-> [cmd |-> u[i].cmd, sub |-> u[i].sub]]

\* Static theorems about the wire format (checked by TLC as ASSUMEs in MCLinkCommand).
WireFormatOk(cmd, sub) ==
    LET w == LcCommandWord(cmd, sub) IN
    /\ LcAccept(w) /\ LcCmdOf(w) = cmd /\ LcSubOf(w) = sub
    /\ w.d[1] = w.d[3] /\ w.d[2] = w.d[4]
AllCorruptionsRejected(cmd, sub) ==
    LET w == LcCommandWord(cmd, sub) IN \A k \in 1..52 : ~LcAccept(ApplyCorr(w, k))

=============================================================================
