"""Parallel variant of pipeline.validate_group: the chunks of a large batch of recorded traces are
validated by several TLC processes at once (trace validation itself runs `-workers 1`).

Verdict handling is identical to pipeline.validate_group and happens in submission order, so the
outcome (accepted counts, violations, replay files) is deterministic for a given input list.
"""
import os
from concurrent.futures import ThreadPoolExecutor

from .. import tlc
from ..pipeline import default_classify


def validate_group_parallel(rep, spec_dir, module, cfg_text, items, classify=None, steps_of=None,
                            what_prefix="", dfs=False, timeout=2400, chunk=100, jobs=None, env=None):
    """items: list of (trace, meta).  Returns the number of accepted traces."""
    classify = classify or default_classify
    steps_of = steps_of or (lambda t: len(t))
    if not items:
        return 0
    parts = [items[i:i + chunk] for i in range(0, len(items), chunk)]
    jobs = jobs or int(os.environ.get("VERIF_JOBS", "6"))
    jobs = max(1, min(jobs, len(parts)))

    def run(part):
        return tlc.validate_traces(spec_dir, module, cfg_text, [t for t, _ in part],
                                   timeout=timeout, dfs=dfs, env=env)

    if jobs == 1:
        results = [run(p) for p in parts]
    else:
        with ThreadPoolExecutor(max_workers=jobs) as ex:
            results = list(ex.map(run, parts))

    accepted = 0
    for part, (verdicts, _res) in zip(parts, results):
        ok = 0
        steps = 0
        for (trace, meta), (matched, status) in zip(part, verdicts):
            n = steps_of(trace)
            if status == "ok" and matched == n:
                ok += 1
                steps += n
                continue
            sig = classify(trace, matched, status, meta)
            recs = trace if isinstance(trace, list) else trace.get("steps", [])
            k = matched if status != "ok" else matched + 1     # 1-based index of the failing record
            ctx = recs[max(0, k - 3):k] if isinstance(recs, list) else None
            what = "%s%s: real-gateware trace rejected by %s at step %d/%d, clause '%s' (%s); last records: %s" % (
                what_prefix, meta, module, k, n, status, sig.get("pattern"), ctx)
            rep.violation(sig, what, {"meta": meta, "failing_step": k, "clause": status,
                                      "trace_prefix": recs[:k + 1] if isinstance(recs, list) else trace})
        rep.add_traces(ok, steps)
        accepted += ok
    return accepted


def model_check_many(spec_dir, runs, jobs=3):
    """Run several exhaustive TLC runs at once.  runs: list of (module, cfg_text, kwargs for tlc.model_check).
    Returns the results in order (the first TLCError is re-raised)."""
    def one(r):
        module, cfg_text, kw = r
        return tlc.model_check(spec_dir, module, cfg_text, **kw)
    if len(runs) <= 1 or jobs <= 1:
        return [one(r) for r in runs]
    with ThreadPoolExecutor(max_workers=min(jobs, len(runs))) as ex:
        return list(ex.map(one, runs))


def validate_many(rep, spec_dir, groups, jobs=None, timeout=2400):
    """Several validate_group_parallel calls whose TLC processes all run concurrently.

    groups: list of dicts {module, cfg, items, classify, steps_of, what_prefix, chunk}.  Verdicts are processed
    group by group, chunk by chunk, in order (deterministic)."""
    work = []
    for gi, g in enumerate(groups):
        items = g["items"]
        chunk = g.get("chunk") or max(1, len(items))
        for i in range(0, len(items), chunk):
            work.append((gi, items[i:i + chunk]))
    if not work:
        return 0
    jobs = jobs or int(os.environ.get("VERIF_JOBS", "6"))
    jobs = max(1, min(jobs, len(work)))

    def run(w):
        gi, part = w
        g = groups[gi]
        return tlc.validate_traces(spec_dir, g["module"], g["cfg"], [t for t, _ in part], timeout=timeout,
                                   dfs=g.get("dfs", False), env=g.get("env"))
    if jobs == 1:
        results = [run(w) for w in work]
    else:
        with ThreadPoolExecutor(max_workers=jobs) as ex:
            results = list(ex.map(run, work))
    accepted = 0
    for (gi, part), (verdicts, _res) in zip(work, results):
        g = groups[gi]
        classify = g.get("classify") or default_classify
        steps_of = g.get("steps_of") or (lambda t: len(t))
        ok = 0
        steps = 0
        for (trace, meta), (matched, status) in zip(part, verdicts):
            n = steps_of(trace)
            if status == "ok" and matched == n:
                ok += 1
                steps += n
                continue
            sig = classify(trace, matched, status, meta)
            recs = trace if isinstance(trace, list) else trace.get("steps", [])
            k = matched if status != "ok" else matched + 1
            ctx = recs[max(0, k - 3):k] if isinstance(recs, list) else None
            what = "%s%s: real-gateware trace rejected by %s at step %d/%d, clause '%s' (%s); last records: %s" % (
                g.get("what_prefix", ""), meta, g["module"], k, n, status, sig.get("pattern"), ctx)
            rep.violation(sig, what, {"meta": meta, "failing_step": k, "clause": status,
                                      "trace_prefix": recs[:k + 1] if isinstance(recs, list) else trace})
        rep.add_traces(ok, steps)
        accepted += ok
    return accepted
