------------------------------- MODULE DataRx -------------------------------
(***************************************************************************)
(* C02 -- reception of USB2 data packets (USBDataPacketReceiver), written  *)
(* from the property statement, the module doc-string and [USB2.0 8.3.1,   *)
(* 8.3.5, 8.4.4].  Grain: one step = one UTMI clock cycle.                 *)
(*                                                                         *)
(*  Env  : `in` = (rx_active, rx_valid, rx_data) of the cycle.  A packet   *)
(*         is a run of rx_active; bytes are sampled where rx_valid is      *)
(*         high (arbitrary gaps); any byte values, any length (0 bytes,    *)
(*         PID only, shorter than a CRC ...).  Assumptions: rx_valid only  *)
(*         inside rx_active; rx_active is high one cycle before the first  *)
(*         rx_valid [UTMI: RXActive precedes RXValid]; rx_active stays low *)
(*         at least MinGap cycles between packets (inter-packet delay).    *)
(*  Ref  : pkt = the bytes of the packet so far; `sent` = how many payload *)
(*         bytes were streamed; `due` = the strobe the finished packet is  *)
(*         owed, computed with the bit-serial CRC16 of CRC.tla.  The       *)
(*         relation Failing(i, o) names the first clause an observed       *)
(*         output `o` violates ("ok" = allowed).  Free: in which cycle a   *)
(*         payload byte is streamed (any time after two later bytes have   *)
(*         arrived, before the strobe), in which of the StrobeWin cycles   *)
(*         after rx_active fell the strobe fires, when within RfrWin       *)
(*         cycles ready_for_response follows.                              *)
(*  Prop : over the ghost logs `streamed`, `ev` (last events), counters.   *)
(***************************************************************************)
EXTENDS Naturals, Sequences, CRC

CONSTANTS StrobeWin,   \* completion / mismatch strobe falls in cycles 1..StrobeWin after rx_active fell (cycle 1 = first low cycle)
          RfrWin,      \* ready_for_response at most RfrWin cycles after the completion strobe
          MinGap       \* Env: rx_active stays low for at least MinGap cycles (> StrobeWin)

VARIABLES in,          \* Env: inputs applied in the cycle that led to this state
          out,         \* outputs observed in that cycle
          pkt,         \* bytes sampled with rx_valid since rx_active rose (PID first)
          sent,        \* number of payload bytes streamed for this packet
          idle,        \* cycles since rx_active fell (0 while active; saturates at Cap)
          due,         \* "none" / "complete" / "mismatch": strobe owed for the packet that just ended
          rfrw,        \* 0 = no ready_for_response owed; k > 0 = owed, k cycles since the completion strobe
          streamed,    \* ghost: bytes streamed for this packet
          ev,          \* ghost: the last (up to) three events "start"/"complete"/"mismatch"/"rfr"
          sev,         \* ghost: the strobe event of the last step [k, p |-> packet, s |-> streamed] (NoEv if none)
          nOwed, nStrobes  \* ghost: packets ended that are owed a strobe / strobes seen

vars == <<in, out, pkt, sent, idle, due, rfrw, streamed, ev, sev, nOwed, nStrobes>>

Cap == IF MinGap > StrobeWin + 1 THEN MinGap ELSE StrobeWin + 1

-----------------------------------------------------------------------------
(* Packet well-formedness, from the standard. *)
PidOk(b)   == (b % 16) + (b \div 16) = 15                \* check nibble = complement of the PID nibble
DataPid(b) == PidOk(b) /\ (b % 16) \in {3, 11, 7, 15}     \* DATA0 0011, DATA1 1011, DATA2 0111, MDATA 1111
Middle(p)  == IF Len(p) >= 3 THEN SubSeq(p, 2, Len(p) - 2) ELSE <<>>     \* between PID and the two trailing bytes
Trailer(p) == p[Len(p) - 1] + 256 * p[Len(p)]             \* CRC16 field, low byte first
Expect(p)  == IF Len(p) >= 3 /\ DataPid(p[1])
              THEN (IF Usb2Crc16(Middle(p)) = Trailer(p) THEN "complete" ELSE "mismatch")
              ELSE "none"

-----------------------------------------------------------------------------
(* One cycle with inputs i and outputs o. *)
Rise(i)  == i.active /\ ~in.active
Fall(i)  == ~i.active /\ in.active
Pkt1(i)  == LET base == IF Rise(i) THEN <<>> ELSE pkt IN IF i.valid THEN Append(base, i.data) ELSE base
Idle1(i) == IF i.active THEN 0 ELSE IF idle < Cap THEN idle + 1 ELSE Cap
Due1(i)  == IF Rise(i) THEN "none" ELSE IF Fall(i) THEN Expect(pkt) ELSE due
Sent0(i) == IF Rise(i) THEN 0 ELSE sent
Beat(o)  == o.sv /\ o.nx
Sent1(i, o) == Sent0(i) + (IF Beat(o) THEN 1 ELSE 0)
InWin(i) == ~i.active /\ Idle1(i) <= StrobeWin

\* Environment assumptions.
Legal(i) == /\ i.valid => i.active
            /\ Rise(i) => (idle >= MinGap /\ ~i.valid)

\* The observation relation: name of the first violated clause.
FailingD(i, o, d) ==          \* d = Due1(i), passed in so that the CRC is evaluated once per step
    IF ~Legal(i) THEN "env_illegal_input"
    ELSE IF Beat(o) /\ ~(i.active \/ (InWin(i) /\ d # "none")) THEN "stream_beat_outside_packet"
    ELSE IF Beat(o) /\ Len(Pkt1(i)) < Sent0(i) + 4 THEN "stream_beat_not_payload"      \* would stream a byte that may still be CRC
    ELSE IF Beat(o) /\ o.pl # Pkt1(i)[Sent0(i) + 2] THEN "stream_payload_value"
    ELSE IF o.cp /\ o.mm THEN "both_strobes"
    ELSE IF (o.cp \/ o.mm) /\ ~InWin(i) THEN "strobe_outside_window"
    ELSE IF o.cp /\ d # "complete" THEN "complete_unexpected"
    ELSE IF o.mm /\ d # "mismatch" THEN "mismatch_unexpected"
    ELSE IF (o.cp \/ o.mm) /\ Sent1(i, o) # Len(Middle(pkt)) THEN "strobe_before_payload_streamed"
    ELSE IF o.cp /\ o.pid # 99 /\ o.pid # pkt[1] % 16 THEN "packet_id"
    ELSE IF d # "none" /\ ~(o.cp \/ o.mm) /\ ~i.active /\ Idle1(i) >= StrobeWin THEN "strobe_missing"
    ELSE IF o.rfr /\ rfrw = 0 THEN "rfr_without_completion"
    ELSE IF rfrw >= RfrWin /\ ~o.rfr /\ ~Rise(i) THEN "rfr_missing"
    ELSE "ok"

NoEv == [k |-> "none", p |-> <<>>, s |-> <<>>]
Trim(s) == IF Len(s) > 3 THEN SubSeq(s, Len(s) - 2, Len(s)) ELSE s

StepD(i, o, d1) ==
    LET p1   == Pkt1(i)
        st1  == IF Beat(o) THEN Append(IF Rise(i) THEN <<>> ELSE streamed, o.pl)
                ELSE IF Rise(i) THEN <<>> ELSE streamed
        e1   == IF Rise(i) THEN <<"start">> ELSE <<>>
        e2   == IF o.cp THEN <<"complete">> ELSE IF o.mm THEN <<"mismatch">> ELSE <<>>
        e3   == IF o.rfr THEN <<"rfr">> ELSE <<>>
        new  == e3 \o e1 \o e2          \* a ready_for_response in the cycle of a start / strobe belongs before it
    IN /\ in' = i
       /\ out' = o
       /\ pkt' = p1
       /\ sent' = Sent1(i, o)
       /\ idle' = Idle1(i)
       /\ due' = IF o.cp \/ o.mm THEN "none" ELSE d1
       /\ rfrw' = IF o.cp THEN 1
                  ELSE IF Rise(i) \/ o.rfr THEN 0
                  ELSE IF rfrw > 0 /\ rfrw < RfrWin THEN rfrw + 1 ELSE rfrw
       /\ streamed' = st1
       /\ ev' = Trim(ev \o new)
       /\ sev' = IF o.cp \/ o.mm THEN [k |-> IF o.cp THEN "complete" ELSE "mismatch", p |-> pkt, s |-> st1] ELSE NoEv
       /\ nOwed' = nOwed + (IF Fall(i) /\ d1 # "none" THEN 1 ELSE 0)
       /\ nStrobes' = nStrobes + (IF o.cp \/ o.mm THEN 1 ELSE 0)

\* A reset of the receiver's clock domain while the bus is quiet (rx_active low in this and the previous cycle; it
\* may hit a pending strobe window or a pending ready_for_response): the outputs of the cycle are still judged,
\* then everything owed is dropped and the receiver must behave like a fresh one.
ResetLegal(i) == ~i.active /\ ~in.active
ResetStepD(i, o) ==
    /\ in' = i /\ out' = o
    /\ pkt' = <<>> /\ sent' = 0 /\ idle' = Cap /\ due' = "none" /\ rfrw' = 0
    /\ streamed' = <<>> /\ ev' = <<"init">> /\ sev' = NoEv /\ nOwed' = 0 /\ nStrobes' = 0

Failing(i, o) == FailingD(i, o, Due1(i))
Step(i, o)    == StepD(i, o, Due1(i))

NoIn  == [active |-> FALSE, valid |-> FALSE, data |-> 0]
NoOut == [sv |-> FALSE, nx |-> FALSE, pl |-> 0, cp |-> FALSE, mm |-> FALSE, rfr |-> FALSE, pid |-> 99]

Init == /\ in = NoIn /\ out = NoOut
        /\ pkt = <<>> /\ sent = 0 /\ idle = Cap /\ due = "none" /\ rfrw = 0
        /\ streamed = <<>> /\ ev = <<"init">> /\ sev = NoEv /\ nOwed = 0 /\ nStrobes = 0

-----------------------------------------------------------------------------
(* Prop *)
IsPrefix(a, b) == Len(a) <= Len(b) /\ SubSeq(b, 1, Len(a)) = a

\* no packet ever raises both strobes
NeverBoth == ~(out.cp /\ out.mm)

\* what has been streamed is always an in-order prefix of the bytes before the last two received
StreamedIsPayloadPrefix == IsPrefix(streamed, Middle(pkt))

\* a strobe means: data PID, at least two bytes after it, payload streamed intact, and the kind of strobe
\* is decided by the CRC16 (checked on the event just appended)
LastEv == ev[Len(ev)]
StrobeSound ==
    sev.k # "none" =>
        /\ Len(sev.p) >= 3 /\ DataPid(sev.p[1])
        /\ sev.s = Middle(sev.p)
        /\ (sev.k = "complete") <=> (Usb2Crc16(Middle(sev.p)) = Trailer(sev.p))

\* every ended data packet with >= 2 bytes after the PID got exactly one strobe once its window has closed
StrobeComplete == /\ nStrobes <= nOwed
                  /\ (~in.active /\ idle > StrobeWin) => nStrobes = nOwed
                  /\ (due # "none") <=> (nStrobes < nOwed)

\* ready_for_response follows only a completed packet, with no other packet in between
RfrSound == \A j \in 2..Len(ev) : ev[j] = "rfr" => ev[j - 1] = "complete"
RfrOwedOnlyAfterComplete == rfrw > 0 => LastEv = "complete"

TypeOK == /\ sent = Len(streamed) /\ idle \in 0..Cap /\ rfrw \in 0..RfrWin
          /\ due \in {"none", "complete", "mismatch"}
          /\ (in.active => idle = 0)
=============================================================================
