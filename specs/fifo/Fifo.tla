------------------------------- MODULE Fifo -------------------------------
(***************************************************************************)
(* Reference specification of luna.gateware.memory.TransactionalizedFIFO   *)
(* (property C18), written from the module's doc-string, pointer-free.     *)
(*                                                                         *)
(* Grain: one step = one clock cycle of the FIFO's domain.                 *)
(*   Env  : the seven control inputs of the cycle (`in`), any combination  *)
(*          except commit+discard of the *same* port (no defined meaning). *)
(*   Ref  : q / wbuf / rcnt (sequences and a counter; no pointers).        *)
(*   Prop : ghost logs everW (all data ever committed) and everR (all data *)
(*          ever finalised by a read commit): nothing lost / duplicated /  *)
(*          reordered; flags and space as stated by the property.          *)
(***************************************************************************)
EXTENDS Naturals, Sequences

CONSTANTS Depth,      \* capacity of the FIFO (entries)
          Data        \* data alphabet

VARIABLES q,          \* committed entries, not yet finalised by a read commit (oldest first)
          wbuf,       \* written but uncommitted entries (oldest first)
          rcnt,       \* entries of q handed out by reads that are not finalised yet
          in,         \* Env: the control inputs applied in the cycle that led to this state
          everW,      \* ghost: every entry ever committed, in commit order
          everR       \* ghost: every entry ever finalised by a read commit, in order

vars == <<q, wbuf, rcnt, in, everW, everR>>

Bool == {TRUE, FALSE}

Inputs == [we : Bool, wd : Data, wc : Bool, wdsc : Bool, re : Bool, rc : Bool, rdsc : Bool]

\* Environment assumption (the only one): commit and discard of one port never coincide.
LegalInput(i) == ~(i.wc /\ i.wdsc) /\ ~(i.rc /\ i.rdsc)

NoInput == [we |-> FALSE, wd |-> CHOOSE d \in Data : TRUE, wc |-> FALSE, wdsc |-> FALSE,
            re |-> FALSE, rc |-> FALSE, rdsc |-> FALSE]

-----------------------------------------------------------------------------
(* Outputs are functions of the state. *)
Held  == Len(q) + Len(wbuf)
Empty == rcnt = Len(q)
Full  == Held = Depth
Space == Depth - Held
HeadEntry == q[rcnt + 1]              \* defined iff ~Empty

-----------------------------------------------------------------------------
Init == /\ q = <<>> /\ wbuf = <<>> /\ rcnt = 0
        /\ in = NoInput
        /\ everW = <<>> /\ everR = <<>>

(* One clock cycle with inputs i.  A write commit publishes what was written *)
(* before this cycle; a read commit finalises the reads made before this     *)
(* cycle; a discard wins over an enable of the same cycle.                   *)
Step(i) ==
  LET doW  == i.we /\ ~Full
      doR  == i.re /\ ~Empty
      q1   == IF i.wc THEN q \o wbuf ELSE q
      fin  == IF i.rc THEN rcnt ELSE 0             \* entries finalised by this cycle
  IN /\ in' = i
     /\ wbuf' = IF i.wdsc THEN <<>>
                ELSE IF i.wc THEN (IF doW THEN <<i.wd>> ELSE <<>>)
                ELSE IF doW THEN Append(wbuf, i.wd) ELSE wbuf
     /\ q'    = SubSeq(q1, fin + 1, Len(q1))
     /\ rcnt' = IF i.rdsc THEN 0
                ELSE (IF i.rc THEN 0 ELSE rcnt) + (IF doR THEN 1 ELSE 0)
     /\ everW' = IF i.wc THEN everW \o wbuf ELSE everW
     /\ everR' = everR \o SubSeq(q, 1, fin)

Next == \E i \in Inputs : LegalInput(i) /\ Step(i)

Spec == Init /\ [][Next]_vars

-----------------------------------------------------------------------------
(* Prop *)
StructOK == rcnt \in 0..Len(q) /\ Held <= Depth
TypeOK == q \in Seq(Data) /\ wbuf \in Seq(Data) /\ StructOK

\* Nothing is lost, duplicated or reordered: what was finalised, followed by what is
\* still held committed, is exactly what was ever committed.
NoLossNoDupNoReorder == everR \o q = everW

\* Flags as stated by the property.
FlagsConsistent == /\ (Empty <=> rcnt = Len(q))
                   /\ (Full <=> Space = 0)
                   /\ Space = Depth - (Len(q) + Len(wbuf))
                   /\ Space \in 0..Depth

\* A write becomes readable only through a write commit.
ReadableOnlyAfterCommit == [][Len(q') + Len(everR') > Len(q) + Len(everR) => in'.wc]_vars

\* A discard erases exactly the uncommitted writes, and nothing committed.
DiscardErasesOnlyUncommitted ==
    [][in'.wdsc => (wbuf' = <<>> /\ everR' \o q' = everR \o q)]_vars

\* A read discard un-reads everything that was not finalised.
ReadDiscardRewinds == [][in'.rdsc => rcnt' = 0]_vars

\* Finalised data is a prefix of committed data, and only grows.
FinalisedIsPrefix == Len(everR) <= Len(everW) /\ SubSeq(everW, 1, Len(everR)) = everR
AppendOnly == [][/\ Len(everR') >= Len(everR) /\ SubSeq(everR', 1, Len(everR)) = everR
                 /\ Len(everW') >= Len(everW) /\ SubSeq(everW', 1, Len(everW)) = everW]_vars

=============================================================================
