----------------------------- MODULE SsTxTrace -----------------------------
(***************************************************************************)
(* Trace validation for SsTx.  A trace is the event log of one run of the  *)
(* real PacketTransmitter against the word-level link-partner model:       *)
(*   {e:"up"} {e:"down"}                                                   *)
(*   {e:"lc_rx", lo, hi, ctrl}     a link command word arrived on the sink *)
(*   {e:"lrty_done"}               lrty_pending fell (our LRTY went out)   *)
(*   {e:"acc", w:[DW0..DW2 limbs, offered link control word]}  queue.valid & queue.ready *)
(*   {e:"hps"}                     HPSTART accepted by the PHY (wire order) *)
(*   {e:"hpe", w:[8 limbs], ctrl}  the header's last word was accepted     *)
(*   {e:"retry_req"} {e:"recov"}   retry_required / recovery_required strobes *)
(*   {e:"quiet", qr}               source idle for long; queue.ready       *)
(* CRC validity of the partner's link commands and of every transmitted    *)
(* header is decided here (LinkCrc.tla).                                   *)
(***************************************************************************)
EXTENDS SsTx, LinkCrc, TLC, TLCExt, Json, IOUtils

Logs == JsonDeserialize(IOEnv.TRACE_FILE)

CONSTANT TimeoutCycles      \* PENDING_HP_TIMER [USB3.2 7.2.4.1.13] in cycles: 5 ms x ss_clock_frequency (0: beyond any run)

VARIABLES tid, l, status,
          tmr0,             \* explicit time (cycle stamp r.t) at which the credit timer last (re)started
          toSeen            \* the timeout recovery of the current timer run was observed
tvars == <<vars, tid, l, status, tmr0, toSeen>>

ASSUME \A i \in 1..Len(Logs) : TLCSet(i, <<0, "ok">>)

Rec == Logs[tid][l]

LGOOD == 0    LCRD == 1    LRTY == 2    LBAD == 3
LcValid(r) == r.ctrl = 0 /\ r.lo = r.hi /\ LinkCrc5(r.lo % 2048) = r.lo \div 2048
LcCmd(r) == (r.lo \div 128) % 16
LcSub(r) == r.lo % 16

\* what the protocol layer handed over: DW0..DW2, and of the link control word everything but the
\* sequence number and the Delayed bit, which the link layer owns (hub depth, deferred, reserved)
Keep(lcw) == lcw - (lcw % 8) - (IF (lcw \div 512) % 2 = 1 THEN 512 ELSE 0)
AccContent(w) == <<w[1], w[2], w[3], w[4], w[5], w[6], Keep(w[7])>>
HpContent(w) == <<w[1], w[2], w[3], w[4], w[5], w[6], Keep(w[8] % 2048)>>
HpSeq(w) == w[8] % 8
HpDl(w) == (w[8] \div 512) % 2 = 1
HpCrcOk(w) == LinkCrc5(w[8] % 2048) = w[8] \div 2048 /\ LinkCrc16(SubSeq(w, 1, 6)) = w[7]

\* The credit timer runs while a header is unacknowledged; it restarts when the first header is accepted
\* and whenever one is retired.  recovery_required must strobe TimeoutCycles (+1..+3 pipeline) later.
Restarts(r) == \/ r.e \in {"up", "down", "dreset"}
               \/ r.e = "acc" /\ unacked = <<>>
               \/ r.e = "lc_rx" /\ LcValid(r) /\ LcCmd(r) = LGOOD /\ bringup /\ LcSub(r) % 8 = nextAck
TimedOut(r) == /\ TimeoutCycles > 0 /\ enabled /\ unacked # <<>> /\ ~toSeen
               /\ r.t - tmr0 >= TimeoutCycles - 1 /\ r.t - tmr0 <= TimeoutCycles + 3

Judge(r) ==
    CASE r.e = "up"    -> IF enabled THEN "env_up_while_up" ELSE "ok"
      [] r.e = "down"  -> IF enabled THEN "ok" ELSE "env_down_while_down"
      [] r.e = "lc_rx" -> IF ~LcValid(r) THEN "ok"
                          ELSE IF LcCmd(r) = LGOOD THEN (IF LgoodLegal(LcSub(r) % 8) THEN "ok" ELSE "env_lgood_illegal")
                          ELSE IF LcCmd(r) = LCRD THEN (IF LcSub(r) < NBuf /\ LcrdLegal(LcSub(r)) THEN "ok"
                                                        ELSE "env_lcrd_illegal")
                          ELSE IF LcCmd(r) = LBAD THEN (IF LbadLegal THEN "ok" ELSE "env_lbad_illegal")
                          ELSE "ok"
      [] r.e = "dreset" -> "ok"
      [] r.e = "lrty_done" -> IF limbo /\ cur.k = "none" THEN "ok" ELSE "env_lrty_done_illegal"
      [] r.e = "acc"   -> AcceptJudge
      [] r.e = "hps"   -> HpStartJudge
      [] r.e = "hpe"   -> IF r.ctrl # 0 \/ ~HpCrcOk(r.w) THEN "hp_malformed"
                          ELSE HpEndJudge(HpSeq(r.w), HpDl(r.w), HpContent(r.w))
      [] r.e = "retry_req" -> RetryReqJudge
      [] r.e = "recov" -> IF RecovJudge = "ok" \/ TimedOut(r) THEN "ok" ELSE RecovJudge
      [] r.e = "quiet" -> IF QuietJudge # "ok" THEN QuietJudge
                          ELSE IF TimeoutCycles > 0 /\ enabled /\ unacked # <<>> /\ ~toSeen
                                  /\ r.t - tmr0 > TimeoutCycles + 3 THEN "quiet_credit_timeout_missing"
                          ELSE IF r.qr # ReadyExpected THEN "quiet_queue_ready" ELSE "ok"
      [] OTHER -> "unknown_record"

Apply(r) ==
    CASE r.e = "up"    -> LinkUp
      [] r.e = "down"  -> LinkDown
      [] r.e = "lc_rx" -> IF ~LcValid(r) THEN UNCHANGED vars
                          ELSE IF LcCmd(r) = LGOOD THEN PartnerLgood(LcSub(r) % 8)
                          ELSE IF LcCmd(r) = LCRD THEN PartnerLcrd(LcSub(r))
                          ELSE IF LcCmd(r) = LBAD THEN PartnerLbad
                          ELSE UNCHANGED vars
      [] r.e = "dreset" -> DomainReset
      [] r.e = "lrty_done" -> LrtyDone
      [] r.e = "acc"   -> Accept(AccContent(r.w))
      [] r.e = "hps"   -> HpStart
      [] r.e = "hpe"   -> HpEnd(HpSeq(r.w), HpDl(r.w), HpContent(r.w))
      [] r.e = "retry_req" -> RetryReq
      [] r.e = "recov" -> IF RecovJudge = "ok" THEN Recov ELSE UNCHANGED vars      \* (timeout: no Ref change)
      [] r.e = "quiet" -> Quiet

TInit == /\ Init /\ tid \in 1..Len(Logs) /\ l = 1 /\ status = "ok" /\ tmr0 = 0 /\ toSeen = FALSE

TNext == /\ status = "ok"
         /\ l <= Len(Logs[tid])
         /\ LET r == Rec
                \* the timer is overdue as soon as any later event is stamped beyond the window
                j == IF TimeoutCycles > 0 /\ enabled /\ unacked # <<>> /\ ~toSeen
                        /\ r.t - tmr0 > TimeoutCycles + 3 THEN "credit_timeout_missing" ELSE Judge(r) IN
              /\ status' = j
              /\ IF j = "ok" THEN Apply(r) ELSE UNCHANGED vars
              /\ tmr0' = IF Restarts(r) THEN r.t ELSE tmr0
              /\ toSeen' = IF Restarts(r) THEN FALSE
                            ELSE IF r.e = "recov" /\ RecovJudge # "ok" /\ TimedOut(r) THEN TRUE ELSE toSeen
         /\ l' = l + 1
         /\ UNCHANGED tid

TSpec == TInit /\ [][TNext]_tvars

TraceProp == TypeOK /\ CreditsRespected /\ ConsecutiveNumbers /\ SentPrefix

Verdict == IF status # "ok" THEN status ELSE IF TraceProp THEN "ok" ELSE "prop_invariant"
Progress == TLCSet(tid, <<l - 1, Verdict>>) /\ Verdict = "ok"

Verdicts == JsonSerialize(IOEnv.VERDICT_FILE, [i \in 1..Len(Logs) |-> TLCGet(i)])
=============================================================================
