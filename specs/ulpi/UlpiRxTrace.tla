---------------------------- MODULE UlpiRxTrace ----------------------------
(***************************************************************************)
(* Trace validation for UlpiRx.  Every trace recorded from the real        *)
(* UTMITranslator is a sequence of per-cycle records; fields used here:    *)
(*   dir, nxt, di, rr (register-read data) -- what the PHY presented        *)
(*   rxv, rxd, rxa, ls, vv, sv, se, rxe, hd, idd  -- UTMI outputs observed  *)
(*                                            in the same cycle (before    *)
(*                                            the clock edge)              *)
(* Batch recipe: register tid holds <<steps matched, failing clause>>.     *)
(***************************************************************************)
EXTENDS UlpiRx, TLC, TLCExt, Json, IOUtils

Logs == JsonDeserialize(IOEnv.TRACE_FILE)

VARIABLES tid, l, status
tvars == <<rvars, tid, l, status>>

ASSUME \A i \in 1..Len(Logs) : TLCSet(i, <<0, "ok">>)

InOf(r)  == [dir |-> r.dir, nxt |-> r.nxt, di |-> r.di, rr |-> r.rr]
OutOf(r) == [rxv |-> r.rxv, rxd |-> r.rxd, rxa |-> r.rxa, ls |-> r.ls, vv |-> r.vv, sv |-> r.sv,
             se |-> r.se, rxe |-> r.rxe, hd |-> r.hd, idd |-> r.idd]

TInit == Init /\ tid \in 1..Len(Logs) /\ l = 1 /\ status = "ok"

TNext == /\ status = "ok"
         /\ l <= Len(Logs[tid])
         /\ LET r == Logs[tid][l] IN
              /\ Step(InOf(r), OutOf(r))
              /\ status' = IF ~LegalIn(InOf(r)) THEN "env_illegal_input" ELSE Failing(OutOf(r))
         /\ l' = l + 1
         /\ UNCHANGED tid

TSpec == TInit /\ [][TNext]_tvars

TraceProp == ExactlyTheBytes /\ BoundedLag

Verdict == IF status # "ok" THEN status ELSE IF TraceProp THEN "ok" ELSE "prop_invariant"
\* a failing step stops the trace here, so the recorded verdict is not overwritten by later steps
Progress == TLCSet(tid, <<l - 1, Verdict>>) /\ Verdict = "ok"

Verdicts == JsonSerialize(IOEnv.VERDICT_FILE, [i \in 1..Len(Logs) |-> TLCGet(i)])
=============================================================================
