"""Reusable USB2 device-under-test builder and a *transaction-level* host driver on top of hosts/utmi.py.

`build_device()` elaborates a real `USBDevice(bus=UTMIInterface())` with a standard control endpoint, a passive
observer request handler (claims nothing; only exposes the request-handler interface so that `setup.received`
and the decoded fields are visible on a public port), a bulk IN endpoint fed by a small counter source and a
bulk OUT endpoint with an always-ready consumer.

`CtlHost` (subclass of `UTMIHost`) executes *host actions* (one host packet / bus event each) and folds what
the device did until the next host action into one record per action:

    {"a": "tok"|"data"|"hs"|"sof"|"junk"|"reset"|"idle",
     "pid": str, "addr": int, "ep": int, "ok": bool, "tr": bool (truncated), "bytes": [..], "crc": [lo, hi],
     "n": number of device packets that started in this action's window,
     "raw": raw bytes of the first device packet (PID first), "gap": cycles from the end of the host packet
     to the first tx_valid cycle, "ovl": device drove tx_valid while the host packet was still in progress,
     "txm": max number of simultaneously valid transmitters seen, "su": setup.received strobes,
     "sf": [bmRequestType, bRequest, wValue, wIndex, wLength] at the last strobe,
     "oa": active address, "oc": active configuration (sampled at the end of the window)}
"""
from . import utmi
from .utmi import UTMIHost, pid_byte, token_bytes, sof_bytes, data_bytes, crc16


def make_descriptors(ep0_max=64):
    from usb_protocol.emitters import DeviceDescriptorCollection
    d = DeviceDescriptorCollection()
    with d.DeviceDescriptor() as dd:
        dd.bMaxPacketSize0 = ep0_max
        dd.idVendor = 0x1209
        dd.idProduct = 0x0001
        dd.iManufacturer = "LUNA"
        dd.iProduct = "Verif"
        dd.iSerialNumber = "1234"
        dd.bNumConfigurations = 1
    with d.ConfigurationDescriptor() as c:
        with c.InterfaceDescriptor() as i:
            i.bInterfaceNumber = 0
            with i.EndpointDescriptor() as e:
                e.bEndpointAddress = 0x81
                e.wMaxPacketSize = 8
            with i.EndpointDescriptor() as e:
                e.bEndpointAddress = 0x02
                e.wMaxPacketSize = 8
    return d


def known_descriptor_values(descriptors):
    """wValue (type << 8 | index) of every descriptor the collection holds."""
    return sorted({(int(t) << 8) | int(i) for t, i, _ in descriptors})


class Built:
    """What build_device returns: the top-level elaboratable plus the public ports the driver samples."""
    pass


def build_device(avoid_blockram=False, with_bulk=True, bulk_in_ep=1, bulk_out_ep=2, bulk_max=8,
                 src_lengths=(5, 8, 3, 16), ep0_max=64, skip=(), skip_kw="skiplist", custom=False, stall_only=False,
                 full_speed_only=1, domain_reset=False):
    """skip: bRequest numbers the standard handler is told not to handle (passed as `skiplist=` or the deprecated
    `blacklist=`); custom: add a request handler that claims vendor request 0x42; stall_only: add an extra
    StallOnlyRequestHandler with a condition; domain_reset: expose the reset of the "usb" clock domain."""
    from amaranth import Elaboratable, Module, Signal, Mux
    from luna.gateware.interface.utmi import UTMIInterface
    from luna.gateware.usb.usb2.device import USBDevice
    from luna.gateware.usb.usb2.control import USBControlEndpoint
    from luna.gateware.usb.usb2.request import USBRequestHandler
    from luna.gateware.usb.usb2.endpoints.stream import USBStreamInEndpoint, USBStreamOutEndpoint

    class Observer(USBRequestHandler):
        """Passive request handler: never claims, never drives; exposes the handler interface."""
        def elaborate(self, platform):
            return Module()

    b = Built()
    b.utmi = UTMIInterface()
    b.dev = dev = USBDevice(bus=b.utmi)
    b.descriptors = make_descriptors(ep0_max)
    b.known_desc = known_descriptor_values(b.descriptors)
    b.ep0_max = ep0_max
    kw = {"avoid_blockram": avoid_blockram}
    b.skip = tuple(sorted(skip))
    if skip:
        kw[skip_kw] = [(lambda setup, n=n: setup.request == n) for n in b.skip]
    if ep0_max == 64:
        b.control = dev.add_standard_control_endpoint(b.descriptors, **kw)
    else:
        b.control = USBControlEndpoint(utmi=dev.utmi, max_packet_size=ep0_max)
        b.control.add_standard_request_handlers(b.descriptors, **kw)
        dev.add_endpoint(b.control)
    b.observer = Observer()
    b.control.add_request_handler(b.observer)
    b.claimed = ()
    if custom:
        from usb_protocol.types import USBRequestType

        class Custom(USBRequestHandler):
            """Claims vendor request 0x42 (any direction / length): ZLP at an IN status stage, ACK at an OUT one, STALL
            in the data stage.  What it answers is its own business; the checks only follow the SETUP of such requests."""
            def elaborate(self, platform):
                m = Module()
                i = self.interface
                with m.If((i.setup.type == USBRequestType.VENDOR) & (i.setup.request == 0x42)):
                    m.d.comb += i.claim.eq(1)
                    with m.If(i.data_requested):
                        m.d.comb += i.handshakes_out.stall.eq(1)
                    with m.If(i.status_requested):
                        with m.If(i.tokenizer.is_in):
                            m.d.comb += self.send_zlp()
                        with m.Else():
                            m.d.comb += i.handshakes_out.ack.eq(1)
                return m
        b.custom = Custom()
        b.control.add_request_handler(b.custom)
        b.claimed = (2 * 256 + 0x42,)
    if stall_only:
        from luna.gateware.usb.usb2.request import StallOnlyRequestHandler
        b.control.add_request_handler(StallOnlyRequestHandler(stall_condition=lambda setup: setup.request == 0x99))
    b.full_speed_only = full_speed_only
    b.dom_reset = Signal() if domain_reset else None
    b.src_enable = Signal()
    b.bulk_in = b.bulk_out = None
    if with_bulk:
        b.bulk_in = USBStreamInEndpoint(endpoint_number=bulk_in_ep, max_packet_size=bulk_max)
        b.bulk_out = USBStreamOutEndpoint(endpoint_number=bulk_out_ep, max_packet_size=bulk_max)
        dev.add_endpoint(b.bulk_in)
        dev.add_endpoint(b.bulk_out)
    b.bulk_in_ep, b.bulk_out_ep, b.bulk_max = bulk_in_ep, bulk_out_ep, bulk_max
    b.src_lengths = tuple(src_lengths)
    b.setup_if = b.observer.interface.setup
    b.addr_sig = b.control.interface.active_address
    b.cfg_sig = b.control.interface.active_config

    class Top(Elaboratable):
        def elaborate(self, platform):
            m = Module()
            m.submodules.dev = dev
            if b.dom_reset is not None:
                from amaranth import ResetSignal
                m.d.comb += ResetSignal("usb").eq(b.dom_reset)
            if with_bulk:
                # counter source: `last`-terminated transfers whose lengths cycle through src_lengths - including exact
                # multiples of the max packet size, after which the endpoint owes the host a zero-length packet
                from amaranth import Array, Const
                lens = Array([Const(n, 8) for n in b.src_lengths])
                cnt = Signal(8)
                pos = Signal(8)
                sel = Signal(range(len(b.src_lengths)))
                s = b.bulk_in.stream
                m.d.comb += [s.valid.eq(b.src_enable), s.payload.eq(cnt), s.first.eq(pos == 0),
                             s.last.eq(pos == lens[sel] - 1), b.bulk_out.stream.ready.eq(1)]
                with m.If(s.valid & s.ready):
                    m.d.usb += [cnt.eq(cnt + 1), pos.eq(pos + 1)]
                    with m.If(s.last):
                        m.d.usb += [pos.eq(0), sel.eq(Mux(sel == len(b.src_lengths) - 1, 0, sel + 1))]
            return m

    b.top = Top()
    return b


def find_tx_monitors(sim):
    """(signal, busy-values) for the data packet generator and the handshake generator of a USBDevice, found
    by name among the simulator's internal signals (FSM state registers).  Informational only (DRIFT): the
    verdict on "one transmitter per packet" is taken from the bytes on the wire.  [] when not found."""
    from ..sim import internal_signals
    sigs = internal_signals(sim)
    out = []
    for sub, idle_only in (("transmitter", True), ("handshake_generator", False)):
        cands = sorted((n.count("."), n) for n in sigs if n.endswith(".%s.fsm_state" % sub))
        if not cands or (len(cands) > 1 and cands[0][0] == cands[1][0]):
            return []
        sig = sigs[cands[0][1]]
        if sig.decoder is None:
            return []
        names = {}
        for v in range(1 << len(sig)):
            try:
                names[v] = str(sig.decoder(v))
            except Exception:
                break
        if idle_only:
            busy = {v for v, nm in names.items() if "IDLE" not in nm}
        else:
            busy = {v for v, nm in names.items() if "TRANSMIT" in nm}
        if not busy:
            return []
        out.append((sig, busy))
    return out


class CtlHost(UTMIHost):
    """UTMIHost whose cycle() also assembles raw device packets and samples the observer ports; executes
    host-action scripts and returns one record per action."""

    def __init__(self, built, rng, gap_prob=0.0, stall_prob=0.0, tx_mon=(), resp_wait=24, window=(2, 18)):
        super().__init__(built.utmi, rng, gap_prob=gap_prob, stall_prob=stall_prob)
        self.b = built
        self.tx_mon = list(tx_mon)          # [(signal, set of values meaning "driving")]
        self.resp_wait = resp_wait
        self.window = window                # (earliest, latest) cycle after the end of a host packet the DUT may answer in
        self.setup_if = built.setup_if      # SetupPacket record with .received and the decoded fields
        self.addr_sig = getattr(built, "addr_sig", None)
        self.cfg_sig = getattr(built, "cfg_sig", None)
        self.pkts = []          # completed raw device packets: dict(start, end, gap, ovl, raw)
        self._cur = None
        self.su = 0
        self.sf = [0, 0, 0, 0, 0]
        self.txm = 0
        self._last = {}
        self.stall_plan = None      # {byte index within the next device packet: cycles of tx_ready = 0 before it}

    def _set(self, ctx, sig, v):
        k = id(sig)
        if self._last.get(k) != v:
            ctx.set(sig, v)
            self._last[k] = v

    async def cycle(self, ctx, active=0, valid=0, data=0, line=None):
        u = self.utmi
        self._set(ctx, u.rx_active, active)
        self._set(ctx, u.rx_valid, valid)
        self._set(ctx, u.rx_data, data)
        self._set(ctx, u.line_state, line if line is not None else (self.LINE_K if active else self.LINE_J))
        if self.stall_plan is not None:
            # deterministic stalls: hold tx_ready low for the planned number of cycles in front of byte k
            tv0 = ctx.get(u.tx_valid)
            pos = len(self._cur["raw"]) if self._cur is not None else 0
            if tv0 and self.stall_plan.get(pos, 0) > 0:
                self.stall_plan[pos] -= 1
                ready = 0
            else:
                ready = 1
        elif self.stall_prob and self._stalls < self.max_stall and self.rng.random() < self.stall_prob:
            ready = 0
            self._stalls += 1
        else:
            ready = 1
            self._stalls = 0
        self._set(ctx, u.tx_ready, ready)
        tv = ctx.get(u.tx_valid)
        if tv:
            td = ctx.get(u.tx_data)
            if active:
                self.tx_valid_while_rx += 1
            if self._cur is None:
                self._cur = {"start": self.cycle_no, "raw": [], "ovl": bool(active),
                             "gap": 0 if self.last_rx_end is None else self.cycle_no - self.last_rx_end}
            elif active:
                self._cur["ovl"] = True
            if ready:
                self._cur["raw"].append(td)
        elif self._cur is not None:
            p = self._cur
            self._cur = None
            p["end"] = self.cycle_no
            self.pkts.append(p)
        if self.tx_mon:
            n = 0
            for sig, busy in self.tx_mon:
                n += ctx.get(sig) in busy
            if n > self.txm:
                self.txm = n
        s = self.setup_if
        if ctx.get(s.received):
            self.su += 1
            bm = ctx.get(s.recipient) | (ctx.get(s.type) << 5) | (ctx.get(s.is_in_request) << 7)
            self.sf = [bm, ctx.get(s.request), ctx.get(s.value), ctx.get(s.index), ctx.get(s.length)]
        await ctx.tick(self.domain)
        self.cycle_no += 1

    async def send_raw(self, ctx, octets, gaps=None, abort_after=None):
        """As UTMIHost.send_raw, plus what a real PHY does at the end of a packet: rx_active stays high for a few
        cycles after the last byte (EOP detection) - `tail_prob` chooses 0..3 such cycles."""
        self.rx_busy = True
        await self.cycle(ctx, active=1, valid=0, data=0)
        for i, b in enumerate(octets):
            if abort_after is not None and i >= abort_after:
                break
            if gaps is not None:
                g = gaps[i] if i < len(gaps) else 0
            else:
                g = 1 if self.gap_prob and self.rng.random() < self.gap_prob else 0
            for _ in range(g):
                await self.cycle(ctx, active=1, valid=0, data=self.rng.randrange(256))
            await self.cycle(ctx, active=1, valid=1, data=b)
        if gaps is not None:
            tail = gaps[len(octets)] if len(gaps) > len(octets) else 0
        else:
            tail = self.rng.randint(1, 3) if self.gap_prob and self.rng.random() < self.gap_prob else 0
        for _ in range(tail):
            await self.cycle(ctx, active=1, valid=0, data=0)
        self.rx_busy = False
        self.last_rx_end = self.cycle_no
        await self.cycle(ctx, active=0, valid=0, data=0)

    # ---- folding ------------------------------------------------------------------------------
    async def _window(self, ctx, n, post=4):
        """Idle for n cycles - or, once a device packet has ended, for `post` more cycles; if a device packet is in
        flight at the end let it finish (bounded)."""
        n0 = len(self.pkts)
        for _ in range(n):
            await self.cycle(ctx)
            if len(self.pkts) > n0 and self._cur is None:
                for _ in range(max(0, post - 1)):
                    await self.cycle(ctx)
                break
        k = 0
        while self._cur is not None and k < 3000:
            await self.cycle(ctx)
            k += 1
        if k:
            for _ in range(3):
                await self.cycle(ctx)

    def _close(self, ctx, rec):
        """Attach everything observed since the previous close to `rec`."""
        pk = self.pkts
        self.pkts = []
        rec["n"] = len(pk)
        if pk:
            rec["raw"] = list(pk[0]["raw"])
            rec["gap"] = pk[0]["gap"]
            rec["ovl"] = any(p["ovl"] for p in pk)
        else:
            rec["raw"] = []
            rec["gap"] = 0
            rec["ovl"] = False
        if self._cur is not None:          # a transmission that never ended
            rec["n"] += 1
            rec["raw"] = rec["raw"] or list(self._cur["raw"])
            rec["ovl"] = True
        rec["txm"] = self.txm if self.tx_mon else 0
        rec["mon"] = bool(self.tx_mon)
        rec["su"] = self.su
        rec["sf"] = list(self.sf)
        rec["mg"], rec["xg"] = self.window
        rec["oa"] = ctx.get(self.addr_sig) if self.addr_sig is not None else 0
        rec["oc"] = ctx.get(self.cfg_sig) if self.cfg_sig is not None else 0
        self.su = 0
        self.txm = 0
        return rec

    # ---- host actions ---------------------------------------------------------------------------
    async def run_script(self, ctx, script):
        """Execute host actions; returns the list of records.  Action fields:
        tok : pid addr ep [ok=True] [trunc=None] [wait]      data: pid bytes [ok=True] [trunc=None] [suffix] [wait]
        hs  : pid [if_data=True] [wait]                      sof : frame [ok]        junk: bytes
        reset: [cycles]         idle: n         src: en (bulk-IN source enable)
        `wait` = idle cycles after the packet before the next action (default: resp_wait when a response
        may follow, else a short host inter-packet gap); `post` = idle cycles after the end of the device's
        answer (default 4); `gaps` = rx_valid gap cycles in front of each byte of the host packet; `stalls` =
        {byte index: cycles} of tx_ready = 0 in front of that byte of the device's answer."""
        recs = []
        last_data = False
        base = {"pid": "", "addr": 0, "ep": 0, "ok": True, "tr": False, "bytes": [], "crc": [0, 0]}
        for a in script:
            k = a["a"]
            rec = dict(base)
            rec["a"] = k
            post = a.get("post", 4)
            gaps = a.get("gaps")
            self.stall_plan = {int(i): int(n) for i, n in a["stalls"].items()} if a.get("stalls") else None
            if k == "tok":
                ok = a.get("ok", True)
                octets = token_bytes(a["pid"], a["addr"], a["ep"], corrupt_crc=not ok)
                trunc = a.get("trunc")
                rec.update(pid=a["pid"], addr=a["addr"], ep=a["ep"], ok=bool(ok and trunc is None),
                           tr=trunc is not None)
                await self.send_raw(ctx, octets, gaps=gaps, abort_after=trunc)
                w = a.get("wait", self.resp_wait if a["pid"] in ("IN", "PING") else self.rng.randint(2, 5))
                await self._window(ctx, w, post)
            elif k == "data":
                ok = a.get("ok", True)
                payload = list(a["bytes"])
                octets = data_bytes(a["pid"], payload, corrupt_crc=(a.get("flip", 1) if not ok else False))
                trunc = a.get("trunc")
                suffix = list(a.get("suffix") or [])
                if suffix:
                    # bytes that keep coming after a complete packet (trailing garbage / a merged packet) before
                    # rx_active falls: on the wire this is ONE longer data packet, whose last two bytes are its CRC16
                    octets = octets + suffix
                    payload = octets[1:-2]
                    ok = crc16(payload) == (octets[-2] | (octets[-1] << 8))
                rec.update(pid=a["pid"], bytes=payload, crc=[octets[-2], octets[-1]],
                           ok=bool(ok and trunc is None), tr=trunc is not None)
                if trunc is not None:
                    rec["bytes"] = []          # what was on the wire is not a data packet
                await self.send_raw(ctx, octets, gaps=gaps, abort_after=trunc)
                await self._window(ctx, a.get("wait", self.resp_wait), post)
            elif k == "hs":
                if a.get("if_data", True) and not last_data:
                    continue
                rec.update(pid=a["pid"])
                await self.send_raw(ctx, [pid_byte(a["pid"])], gaps=gaps)
                await self._window(ctx, a.get("wait", self.rng.randint(4, 8)))
            elif k == "sof":
                ok = a.get("ok", True)
                rec.update(ok=ok)
                await self.send_raw(ctx, sof_bytes(a.get("frame", 0), corrupt_crc=not ok))
                await self._window(ctx, a.get("wait", self.rng.randint(7, 12)))
            elif k == "junk":
                rec.update(ok=False)
                await self.send_raw(ctx, list(a["bytes"]))
                await self._window(ctx, a.get("wait", self.rng.randint(4, 8)))
            elif k == "reset":
                for _ in range(a.get("cycles", 320)):
                    await self.cycle(ctx, line=0)
                self.last_rx_end = self.cycle_no
                await self._window(ctx, a.get("wait", 8))
            elif k == "dreset":
                # the reset of the DUT's clock domain, asserted for a few cycles in the middle of whatever goes on
                ctx.set(self.b.dom_reset, 1)
                for _ in range(a.get("cycles", 3)):
                    await self.cycle(ctx)
                ctx.set(self.b.dom_reset, 0)
                self.pkts = []
                self._cur = None
                self.last_rx_end = self.cycle_no
                await self._window(ctx, a.get("wait", 12))
            elif k == "idle":
                await self._window(ctx, a.get("n", 10))
            elif k == "src":
                if getattr(self.b, "src_enable", None) is not None:
                    ctx.set(self.b.src_enable, int(a["en"]))
                rec["a"] = "idle"
                await self._window(ctx, a.get("n", 12))
            else:
                raise ValueError("unknown host action %r" % (a,))
            self.stall_plan = None
            self._close(ctx, rec)
            raw = rec["raw"]
            last_data = bool(rec["n"] == 1 and raw and (raw[0] & 0x3) == 0x3)
            recs.append(rec)
        return recs


class Runner:
    """One elaborated DUT (`built.top`), many scripts (simulator reset between runs)."""

    def __init__(self, built, rng, clock=1 / 12e6, gap_prob=0.0, stall_prob=0.0, monitors=True, resp_wait=24,
                 prime=None, window=(2, 18)):
        from amaranth.sim import Simulator
        self.b = built
        self.rng = rng
        self.gap_prob = gap_prob
        self.stall_prob = stall_prob
        self.resp_wait = resp_wait
        self.window = window
        self.prime = prime
        self.sim = Simulator(built.top)
        self.sim.add_clock(clock, domain="usb")
        self.tx_mon = find_tx_monitors(self.sim) if monitors else []
        self._script = None
        self._out = None
        self._first = True
        self.cycles = 0
        self.sim.add_testbench(self._bench)

    async def _bench(self, ctx):
        host = CtlHost(self.b, self.rng, gap_prob=self.gap_prob, stall_prob=self.stall_prob, tx_mon=self.tx_mon,
                       resp_wait=self.resp_wait, window=self.window)
        if self.prime is not None:
            self.prime(ctx, self.b)
        await host.idle(ctx, 6)
        host.pkts = []
        host.su = 0
        self._out = await host.run_script(ctx, self._script)
        self.cycles += host.cycle_no

    def run(self, script, gap_prob=None, stall_prob=None):
        if gap_prob is not None:
            self.gap_prob = gap_prob
        if stall_prob is not None:
            self.stall_prob = stall_prob
        self._script = script
        self._out = None
        if not self._first:
            self.sim.reset()
        self._first = False
        self.sim.run()
        return self._out


def _prime_device(ctx, b):
    utmi.prime_device(ctx, b.dev)
    ctx.set(b.dev.full_speed_only, b.full_speed_only)
    ctx.set(b.src_enable, 0)


def DeviceRunner(rng, avoid_blockram=False, with_bulk=True, gap_prob=0.0, stall_prob=0.0, **kw):
    """Runner for the full device (12 MHz full-speed UTMI)."""
    b = build_device(avoid_blockram=avoid_blockram, with_bulk=with_bulk, **kw)
    return Runner(b, rng, clock=1 / 12e6, gap_prob=gap_prob, stall_prob=stall_prob, prime=_prime_device)


def build_setup_decoder(speed):
    """Unit-level DUT: `USBSetupDecoder(standalone=True)` (own token detector, inter-packet timer, data packet
    deserializer and CRC unit; 60 MHz timer table) at the given USBSpeed.  Its `ack` request strobe is shown to
    the host model as a one-byte ACK "packet" so that the same record format applies."""
    from amaranth import Elaboratable, Module
    from luna.gateware.interface.utmi import UTMIInterface
    from luna.gateware.usb.usb2.request import USBSetupDecoder
    b = Built()
    b.utmi = UTMIInterface()
    b.decoder = USBSetupDecoder(utmi=b.utmi, standalone=True)
    b.setup_if = b.decoder.packet
    b.src_enable = None
    b.speed = speed

    class Top(Elaboratable):
        def elaborate(self, platform):
            m = Module()
            m.submodules.decoder = b.decoder
            m.d.comb += [b.decoder.speed.eq(int(speed)), b.utmi.tx_valid.eq(b.decoder.ack),
                         b.utmi.tx_data.eq(pid_byte("ACK"))]
            return m

    b.top = Top()
    return b


def DecoderRunner(rng, speed, gap_prob=0.0, window=(10, 90)):
    b = build_setup_decoder(speed)
    return Runner(b, rng, clock=1 / 60e6, gap_prob=gap_prob, monitors=False, resp_wait=120, window=window)


# ---- convenience script builders (host-side transaction shapes) ----------------------------------
def setup_bytes(bm, req, val, idx, length):
    return utmi.setup_bytes(bm, req, val, idx, length)


def t_setup(addr, req8, ep=0, ok=True, **kw):
    d = {"a": "data", "pid": "DATA0", "bytes": list(req8), "ok": ok}
    d.update(kw)
    return [{"a": "tok", "pid": "SETUP", "addr": addr, "ep": ep}, d]


def t_in(addr, ep, ack=True):
    s = [{"a": "tok", "pid": "IN", "addr": addr, "ep": ep}]
    if ack:
        s.append({"a": "hs", "pid": "ACK"})
    return s


def t_out(addr, ep, pid, payload, ok=True):
    return [{"a": "tok", "pid": "OUT", "addr": addr, "ep": ep},
            {"a": "data", "pid": pid, "bytes": list(payload), "ok": ok}]
